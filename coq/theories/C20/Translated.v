(* C20 — source-level tie for baize/wsgi/middleware.py.

   tools/py2coq_c20.py regenerates from the CURRENT Python source, on every check run (harness/c20.py: extra_obligations),
   the Gallina definitions
     G.py_ensure_next      ensure_next
     G.py_start_response   the start_response closure nested in NextResponse.from_app (its nonlocal variables: PyLib.cells)
     G.py_from_app         NextResponse.from_app
     G.py_wsgi             the wsgi closure of middleware(handler)(app)
   statement by statement; coqc re-checks this file against them.  Generated_ref.v is the committed copy of what the
   translator emitted when this file was written.

   The inner application is a list of PyLib.pact (what it does against the gateway, the status still the STRING it passes);
   wact_of py_int maps it to the model's action list (C20/Acts.v), the status being int(status.split(" ")[0]) with int =
   py_int, an ARGUMENT of the generated code every theorem quantifies over.  Headers is an argument too, instantiated with
   the model's header-store constructor Resp.Model.hinit.  The handler is an argument, instantiated with PyLib.handler_of a
   (response = next_call(request); response.headers[k] = v; return response) for the model's action a.

     start_response_translated   the closure: raises iff exc_info is given and relayed; otherwise status_code and headers are
                                 replaced, relayed is kept
     ensure_next_translated      ensure_next on the application's iterable = Acts.capture (up to the first NON-EMPTY item;
                                 the closure's cells afterwards = the captured pair, Headers applied)
     from_app_translated         from_app = Acts.capture (200, []): raise / the NextResponse(first :: rest, status, headers),
                                 relayed = True afterwards
     tail_translated             iterating the rest once relayed = Acts.tail_acts
     wsgi_middleware_translated  the whole layer: G.py_wsgi py_int hinit (handler_of a) app = Acts.mw_w a (map wact_of app)

   The proofs do not follow the shape of the generated text: the closure is characterised by computation on the cases of
   exc_info and relayed, everything else by induction over the action list through that characterisation. *)
From Coq Require Import List NArith Bool Arith.
From Baize Require Import Lib.Wire Lib.PyStr C02.Model Resp.Model C20.Model C20.Acts C20.PyLib.
(* GENERATED-BEGIN *)
From Baize Require C20.Generated_ref.
Module G := Baize.C20.Generated_ref.
(* GENERATED-END *)
Import ListNotations.

(* METHOD-BEGIN py_wsgi *)
Definition mk (st : nat) (h : hstore) (r : bool) : cells := {| c_status_code := st; c_headers := h; c_relayed := r |}.

Theorem start_response_translated : forall py_int H c s hs e,
  G.py_start_response py_int H c s hs e =
  if e && c_relayed c then Raise else Ret (mk (py_int (index0 (split [32%N] s))) (H hs) (c_relayed c)).
Proof.
  intros py_int H c s hs e. unfold G.py_start_response. destruct c as [st0 h0 r0]. destruct e, r0; reflexivity.
Qed.
Print Assumptions start_response_translated.

Lemma nfn_capture : forall py_int l st hs,
  match capture (st, hs) (map (wact_of py_int) l) with
  | None => next_filter_none (G.py_start_response py_int hinit) (mk st (hinit hs) false) l [] = Raise
  | Some (cap, first, rest) =>
      exists r, rest = map (wact_of py_int) r /\
                next_filter_none (G.py_start_response py_int hinit) (mk st (hinit hs) false) l []
                = Ret (mk (fst cap) (hinit (snd cap)) false, first, r)
  end.
Proof.
  intros py_int l. induction l as [|a l IH]; intros st hs.
  - cbn. exists []. split; reflexivity.
  - destruct a as [s hs0 e|d|].
    + cbn [map next_filter_none]. rewrite start_response_translated. cbn [c_relayed mk]. rewrite andb_false_r.
      destruct e; cbn [wact_of capture]; apply IH.
    + destruct d as [|x d].
      * cbn [map wact_of capture next_filter_none]. apply IH.
      * cbn [map wact_of capture next_filter_none]. exists l. split; reflexivity.
    + cbn. reflexivity.
Qed.

Theorem ensure_next_translated : forall py_int l st hs,
  match capture (st, hs) (map (wact_of py_int) l) with
  | None => G.py_ensure_next (G.py_start_response py_int hinit, mk st (hinit hs) false) l = Raise
  | Some (cap, first, rest) =>
      exists r, rest = map (wact_of py_int) r /\
                G.py_ensure_next (G.py_start_response py_int hinit, mk st (hinit hs) false) l
                = Ret ((G.py_start_response py_int hinit, mk (fst cap) (hinit (snd cap)) false), GYield first (GFrom r))
  end.
Proof.
  intros py_int l st hs. pose proof (nfn_capture py_int l st hs) as N.
  unfold G.py_ensure_next. cbn [fst snd].
  destruct (capture (st, hs) (map (wact_of py_int) l)) as [[[cap first] rest]|].
  - destruct N as [r [E N]]. exists r. split; [exact E|]. rewrite N. reflexivity.
  - rewrite N. reflexivity.
Qed.
Print Assumptions ensure_next_translated.

Theorem from_app_translated : forall py_int l rq,
  match capture (200, []) (map (wact_of py_int) l) with
  | None => G.py_from_app py_int hinit l rq = Raise
  | Some (cap, first, rest) =>
      exists r, rest = map (wact_of py_int) r /\
                G.py_from_app py_int hinit l rq
                = Ret (NextResponse (GYield first (GFrom r)) (fst cap) (hinit (snd cap)),
                       (G.py_start_response py_int hinit, mk (fst cap) (hinit (snd cap)) true))
  end.
Proof.
  intros py_int l rq. pose proof (ensure_next_translated py_int l 200 []) as N.
  unfold G.py_from_app. change (hinit []) with (@nil header) in *. unfold mk in *.
  destruct (capture (200, []) (map (wact_of py_int) l)) as [[[cap first] rest]|].
  - destruct N as [r [E N]]. exists r. split; [exact E|]. rewrite N. reflexivity.
  - rewrite N. reflexivity.
Qed.
Print Assumptions from_app_translated.

Theorem tail_translated : forall py_int r c, c_relayed c = true ->
  run_it (G.py_start_response py_int hinit) c r = tail_acts (map (wact_of py_int) r).
Proof.
  intros py_int r. induction r as [|a r IH]; intros c Hc.
  - reflexivity.
  - destruct a as [s hs0 e|d|].
    + cbn [map run_it]. rewrite start_response_translated. rewrite Hc.
      destruct e; cbn [andb wact_of tail_acts]; [reflexivity|]. apply IH. reflexivity.
    + cbn [map wact_of run_it tail_acts]. f_equal. apply IH. exact Hc.
    + reflexivity.
Qed.
Print Assumptions tail_translated.

Theorem wsgi_middleware_translated : forall py_int a l,
  G.py_wsgi py_int hinit (handler_of a) l = mw_w a (map (wact_of py_int) l).
Proof.
  intros py_int a l. pose proof (from_app_translated py_int l NextRequest) as N.
  unfold G.py_wsgi, handler_of, mw_w.
  destruct (capture (200, []) (map (wact_of py_int) l)) as [[[[st hs] first] rest]|].
  - destruct N as [r [E N]]. rewrite N. subst rest.
    cbn [bind bind_w fst snd call_response r_status r_headers r_body run_gen].
    unfold call_response. cbn [fst snd r_status r_headers r_body run_gen].
    rewrite tail_translated by reflexivity. reflexivity.
  - rewrite N. reflexivity.
Qed.
Print Assumptions wsgi_middleware_translated.
(* METHOD-END py_wsgi *)
