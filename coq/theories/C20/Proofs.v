(* C20 — proofs about the middleware relay. *)
From Coq Require Import List NArith Bool Arith Lia.
From Baize Require Import Lib.Wire Lib.Order C02.Model Resp.Model C05.Proofs C20.Model.
Import ListNotations.

(* ---------- header store ---------- *)

Lemma bytes_eqb_refl a : bytes_eqb a a = true.
Proof. apply bytes_eqb_eq. reflexivity. Qed.

Lemma bytes_eqb_neq a b : a <> b -> bytes_eqb a b = false.
Proof. intros H. destruct (bytes_eqb a b) eqn:E; [|reflexivity]. apply bytes_eqb_eq in E. contradiction. Qed.

Lemma hget_hput_same k v h : hget k (hput k v h) = Some v.
Proof.
  induction h as [|[k' v'] r IH]; cbn [hput hget]; [rewrite bytes_eqb_refl; reflexivity|].
  destruct (bytes_eqb k' k) eqn:E; cbn [hget]; [rewrite bytes_eqb_refl; reflexivity|]. rewrite E. exact IH.
Qed.

Lemma hget_hput_other k k' v h : k' <> k -> hget k' (hput k v h) = hget k' h.
Proof.
  intros Hne. induction h as [|[k0 v0] r IH]; cbn [hput hget].
  - rewrite bytes_eqb_neq by congruence. reflexivity.
  - destruct (bytes_eqb k0 k) eqn:E; cbn [hget].
    + apply bytes_eqb_eq in E. subst k0. rewrite (bytes_eqb_neq k k') by congruence. reflexivity.
    + destruct (bytes_eqb k0 k'); [reflexivity|exact IH].
Qed.

Lemma hget_absent k h : ~ In k (map fst h) -> hget k h = None.
Proof.
  induction h as [|[k' v'] r IH]; cbn [hget map In fst]; [reflexivity|]. intros H.
  rewrite bytes_eqb_neq by (intros ->; apply H; left; reflexivity). apply IH. intros Hx. apply H. right; exact Hx.
Qed.

Lemma hput_absent k v h : ~ In k (map fst h) -> hput k v h = h ++ [(k, v)].
Proof.
  induction h as [|[k' v'] r IH]; cbn [hput map In fst app]; [reflexivity|]. intros H.
  rewrite bytes_eqb_neq by (intros ->; apply H; left; reflexivity). f_equal. apply IH. intros Hx. apply H. right; exact Hx.
Qed.

Definition lower_names (hs : list header) : list header := map (fun h => (lower (fst h), snd h)) hs.

(* Headers(items) for items whose lower-cased names are pairwise distinct: nothing is folded *)
Lemma hinit_distinct hs :
  NoDup (map (fun h => lower (fst h)) hs) -> hinit hs = lower_names hs.
Proof.
  unfold hinit, lower_names.
  assert (G : forall done todo,
            NoDup (map (fun h => lower (fst h)) (done ++ todo)) ->
            fold_left (fun st kv =>
                 let k := lower (fst kv) in
                 match hget k st with
                 | Some old => hput k (old ++ lit ", " ++ snd kv) st
                 | None => hput k (snd kv) st
                 end) todo (map (fun h => (lower (fst h), snd h)) done)
            = map (fun h => (lower (fst h), snd h)) (done ++ todo)).
  { intros done todo. revert done. induction todo as [|[k v] r IH]; intros done Hn; cbn [fold_left].
    - rewrite app_nil_r. reflexivity.
    - assert (Habs : ~ In (lower k) (map fst (map (fun h : bytes * list N => (lower (fst h), snd h)) done))).
      { rewrite map_map. cbn [fst]. rewrite map_app in Hn. cbn [map fst] in Hn.
        apply NoDup_remove_2 in Hn. intros Hx. apply Hn. apply in_or_app. left. exact Hx. }
      change (fold_left ?f r (?g ?st (k, v))) with (fold_left f r (g st (k, v))).
      match goal with |- fold_left ?f r ?x = _ =>
        replace x with (map (fun h : bytes * list N => (lower (fst h), snd h)) done ++ [(lower k, v)]) end.
      2:{ cbn zeta. cbn [fst snd]. rewrite (hget_absent _ _ Habs), (hput_absent _ _ _ Habs). reflexivity. }
      replace (map (fun h : bytes * list N => (lower (fst h), snd h)) done ++ [(lower k, v)])
        with (map (fun h : bytes * list N => (lower (fst h), snd h)) (done ++ [(k, v)])) by (rewrite map_app; reflexivity).
      rewrite IH; rewrite <- app_assoc; [reflexivity|exact Hn]. }
  intros Hn. apply (G [] hs). exact Hn.
Qed.

Lemma lower_names_idem hs : lower_names (lower_names hs) = lower_names hs.
Proof.
  unfold lower_names. rewrite map_map. apply map_ext. intros [k v]. cbn [fst snd]. rewrite lower_idem. reflexivity.
Qed.

Lemma lower_names_keys hs :
  map (fun h => lower (fst h)) (lower_names hs) = map (fun h => lower (fst h)) hs.
Proof.
  unfold lower_names. rewrite map_map. apply map_ext. intros [k v]. cbn [fst snd]. apply lower_idem.
Qed.

(* ---------- identity middlewares ---------- *)

Definition no_zero_copy (t : trace) : Prop :=
  Forall (fun e => match e with Chunk _ => True | ZeroCopyMsg _ => False end) (t_body t).

Lemma relay_bytes_list asgi (l : list emitted) :
  (asgi = true -> Forall (fun e => match e with Chunk _ => True | ZeroCopyMsg _ => False end) l) ->
  flat_map (fun e => match e with
                     | Chunk d => d
                     | ZeroCopyMsg d => if asgi then [] else d
                     end) l
  = flat_map (fun e => match e with Chunk d => d | ZeroCopyMsg d => d end) l.
Proof.
  intros H. induction l as [|e r IH]; [reflexivity|]. cbn [flat_map].
  assert (Hr : asgi = true -> Forall (fun e => match e with Chunk _ => True | ZeroCopyMsg _ => False end) r).
  { intros Ha. specialize (H Ha). inversion H; assumption. }
  rewrite (IH Hr). f_equal. destruct e as [d|d]; [reflexivity|].
  destruct asgi; [|reflexivity]. specialize (H eq_refl). inversion H as [|? ? He _]. destruct He.
Qed.

Lemma relay_body asgi a t :
  (asgi = true -> no_zero_copy t) -> body_bytes (relay asgi a t) = body_bytes t.
Proof.
  intros H. unfold body_bytes, relay. cbn [t_body flat_map]. rewrite app_nil_r.
  apply relay_bytes_list. exact H.
Qed.

Lemma relay_no_zero_copy asgi a t : no_zero_copy (relay asgi a t).
Proof. unfold no_zero_copy, relay. cbn [t_body]. constructor; [exact I|constructor]. Qed.

Theorem identity_transparent_proof asgi (n : nat) : forall t,
  NoDup (map (fun h => lower (fst h)) (t_headers t)) ->
  (asgi = true -> no_zero_copy t) ->
  t_status (stack asgi (repeat Identity n) t) = t_status t /\
  body_bytes (stack asgi (repeat Identity n) t) = body_bytes t /\
  t_headers (stack asgi (repeat Identity n) t) =
    match n with O => t_headers t | S _ => lower_names (t_headers t) end.
Proof.
  induction n as [|n IH]; intros t Hn Hz; [repeat split|].
  unfold stack in *. cbn [repeat fold_left].
  assert (Hh1 : t_headers (relay asgi Identity t) = lower_names (t_headers t)).
  { cbn [relay t_headers apply_action]. apply hinit_distinct. exact Hn. }
  destruct (IH (relay asgi Identity t)) as (A & B & C).
  - rewrite Hh1, lower_names_keys. exact Hn.
  - intros _. apply relay_no_zero_copy.
  - split; [rewrite A; reflexivity|]. split; [rewrite B; apply relay_body; exact Hz|].
    rewrite C, Hh1. destruct n; [reflexivity|apply lower_names_idem].
Qed.

(* ---------- a middleware that edits one header ---------- *)

Theorem edit_one_header_proof asgi k v t :
  has_ctl k = false -> has_ctl v = false ->
  let id := relay asgi Identity t in
  let ed := relay asgi (SetHeader k v) t in
  t_status ed = t_status id /\ t_body ed = t_body id /\
  hget (lower k) (t_headers ed) = Some v /\
  (forall k', k' <> lower k -> hget k' (t_headers ed) = hget k' (t_headers id)).
Proof.
  intros Hk Hv. cbn zeta. cbn [relay t_status t_body t_headers apply_action].
  unfold hset. rewrite Hk, Hv. cbn [orb].
  repeat split.
  - apply hget_hput_same.
  - intros k' Hne. apply hget_hput_other. exact Hne.
Qed.

(* a rejected edit (CR/LF/NUL) leaves the response as the identity relay made it *)
Lemma rejected_edit asgi k v t :
  has_ctl k || has_ctl v = true -> relay asgi (SetHeader k v) t = relay asgi Identity t.
Proof. intros H. unfold relay. cbn [apply_action]. unfold hset. rewrite H. reflexivity. Qed.

(* ---------- the two recorded findings, as facts about the faithful model ---------- *)

Definition two_cookies : trace :=
  {| t_status := 200; t_headers := [(lit "Set-Cookie", lit "a=1"); (lit "Set-Cookie", lit "b=2")];
     t_body := [Chunk (lit "c")] |}.

Theorem duplicate_headers_refuted_proof :
  t_headers (relay false Identity two_cookies) = [(lit "set-cookie", lit "a=1, b=2")] /\
  t_headers (relay true Identity two_cookies) = [(lit "set-cookie", lit "a=1, b=2")].
Proof. split; vm_compute; reflexivity. Qed.

Definition zero_copy_file : trace :=
  {| t_status := 200; t_headers := [(lit "content-length", lit "3")]; t_body := [ZeroCopyMsg (lit "abc")] |}.

Theorem zero_copy_refuted_proof :
  body_bytes zero_copy_file = lit "abc" /\ body_bytes (relay true Identity zero_copy_file) = [] /\
  body_bytes (relay false Identity zero_copy_file) = lit "abc".
Proof. repeat split; vm_compute; reflexivity. Qed.

(* ---------- non-vacuity ---------- *)

Example ex_stack :
  stack false [Identity; SetHeader (lit "X-Added") (lit "1"); Identity]
        {| t_status := 201; t_headers := [(lit "Content-Type", lit "t/p"); (lit "X-B", lit "2")];
           t_body := [Chunk (lit "a"); Chunk (lit "b")] |}
  = {| t_status := 201;
       t_headers := [(lit "content-type", lit "t/p"); (lit "x-b", lit "2"); (lit "x-added", lit "1")];
       t_body := [Chunk (lit "ab")] |}.
Proof. vm_compute. reflexivity. Qed.
