(* C20 — Middleware is transparent to what it does not change.  Statements only.
   A trace is what an application emitted: status, header list, body events. *)
From Coq Require Import List NArith Bool Arith.
From Baize Require Import Lib.Wire C02.Model Resp.Model C20.Model C20.Proofs C20.Acts C20.ActsProofs.
Import ListNotations.

(* Any number of identity middlewares, either interface: same status, same body
   bytes, and — when the header names are pairwise distinct ignoring case — the same
   header list with lower-cased names.  (ASGI: the inner application does not use
   the zero-copy extension; see zero_copy_refuted.) *)
Theorem identity_transparent : forall (asgi : bool) (n : nat) (t : trace),
  NoDup (map (fun h => lower (fst h)) (t_headers t)) ->
  (asgi = true -> no_zero_copy t) ->
  t_status (stack asgi (repeat Identity n) t) = t_status t /\
  body_bytes (stack asgi (repeat Identity n) t) = body_bytes t /\
  t_headers (stack asgi (repeat Identity n) t) =
    match n with O => t_headers t | S _ => lower_names (t_headers t) end.
Proof. exact identity_transparent_proof. Qed.

(* A middleware that sets one header changes that header and nothing else. *)
Theorem edit_one_header : forall (asgi : bool) (k v : bytes) (t : trace),
  has_ctl k = false -> has_ctl v = false ->
  let id := relay asgi Identity t in
  let ed := relay asgi (SetHeader k v) t in
  t_status ed = t_status id /\ t_body ed = t_body id /\
  hget (lower k) (t_headers ed) = Some v /\
  (forall k', k' <> lower k -> hget k' (t_headers ed) = hget k' (t_headers id)).
Proof. exact edit_one_header_proof. Qed.

(* Known finding: repeated headers do not stay separate. *)
Theorem duplicate_headers_refuted :
  t_headers (relay false Identity two_cookies) = [(lit "set-cookie", lit "a=1, b=2")] /\
  t_headers (relay true Identity two_cookies) = [(lit "set-cookie", lit "a=1, b=2")].
Proof. exact duplicate_headers_refuted_proof. Qed.

(* Known finding: behind an ASGI middleware a zero-copy body is lost. *)
Theorem zero_copy_refuted :
  body_bytes zero_copy_file = lit "abc" /\ body_bytes (relay true Identity zero_copy_file) = [] /\
  body_bytes (relay false Identity zero_copy_file) = lit "abc".
Proof. exact zero_copy_refuted_proof. Qed.

(* ---- failures: an application is the list of actions it performs (C20/Acts.v) ---- *)

(* WSGI, any stack of identity middlewares, EVERY application behaviour that calls
   start_response without exc_info once, first: items, empty items, replacing the
   response through exc_info at any point, failing at any point.  A conforming
   server delivers the same outcome (completed / aborted after the same bytes /
   failed before anything went out) with the same status, body and — for distinct
   header names — headers. *)
Theorem wsgi_failures_transparent : forall (n : nat) (l : list wact),
  ok_w l = true -> Forall distinct_names (starts_w l) ->
  serve_w (stack_w (repeat Identity n) l) = match n with O => serve_w l | S _ => lower_outcome (serve_w l) end.
Proof. exact wsgi_stack_transparent_proof. Qed.

(* the relay before the repair (fixed defect): a response replaced through exc_info
   after the first item was not honoured / the failure was swallowed *)
Theorem wsgi_relay_orig_refuted :
  serve_w late_restart = Aborted 200 [(lit "Content-Type", lit "text/plain")] (lit "part1") /\
  serve_w (mw_w_orig Identity late_restart) = Completed 200 [(lit "content-type", lit "text/plain")] (lit "part1error page") /\
  serve_w restart_after_empty_item = Completed 500 [(lit "Content-Type", lit "text/plain")] (lit "error page") /\
  serve_w (mw_w_orig Identity restart_after_empty_item) = Completed 200 [(lit "content-type", lit "text/plain")] (lit "error page") /\
  ok_w late_restart = true /\ ok_w restart_after_empty_item = true.
Proof. exact wsgi_relay_orig_refuted_proof. Qed.

(* ASGI: an application that sends its start, then body events, and does not fail *)
Theorem asgi_relay_transparent : forall (l : list aact),
  ok_a l = true -> Forall distinct_names (match l with MStart _ hs :: _ => [hs] | _ => [] end) ->
  serve_a (mw_a Identity l) = lower_outcome (serve_a l).
Proof. exact asgi_relay_transparent_proof. Qed.

(* ASGI: wherever the inner application fails, behind a middleware nothing is sent *)
Theorem asgi_failure_surfaces_early : forall (a : action) (l : list aact),
  In MRaise l -> serve_a (mw_a a l) = Raised.
Proof. exact asgi_failure_surfaces_early_proof. Qed.

(* Known finding: so a failure after the response start is not relayed as such. *)
Theorem asgi_late_failure_refuted :
  serve_a late_failure_a = Aborted 200 [(lit "content-type", lit "text/plain")] (lit "part1") /\
  serve_a (mw_a Identity late_failure_a) = Raised.
Proof. exact asgi_late_failure_refuted_proof. Qed.

Print Assumptions identity_transparent.
Print Assumptions edit_one_header.
Print Assumptions duplicate_headers_refuted.
Print Assumptions zero_copy_refuted.
Print Assumptions wsgi_failures_transparent.
Print Assumptions wsgi_relay_orig_refuted.
Print Assumptions asgi_relay_transparent.
Print Assumptions asgi_failure_surfaces_early.
Print Assumptions asgi_late_failure_refuted.
