(* C20 — Middleware is transparent to what it does not change.  Statements only.
   A trace is what an application emitted: status, header list, body events. *)
From Coq Require Import List NArith Bool Arith.
From Baize Require Import Lib.Wire C02.Model Resp.Model C20.Model C20.Proofs.
Import ListNotations.

(* Any number of identity middlewares, either interface: same status, same body
   bytes, and — when the header names are pairwise distinct ignoring case — the same
   header list with lower-cased names.  (ASGI: the inner application does not use
   the zero-copy extension; see zero_copy_refuted.) *)
Theorem identity_transparent : forall (asgi : bool) (n : nat) (t : trace),
  NoDup (map (fun h => lower (fst h)) (t_headers t)) ->
  (asgi = true -> no_zero_copy t) ->
  t_status (stack asgi (repeat Identity n) t) = t_status t /\
  body_bytes (stack asgi (repeat Identity n) t) = body_bytes t /\
  t_headers (stack asgi (repeat Identity n) t) =
    match n with O => t_headers t | S _ => lower_names (t_headers t) end.
Proof. exact identity_transparent_proof. Qed.

(* A middleware that sets one header changes that header and nothing else. *)
Theorem edit_one_header : forall (asgi : bool) (k v : bytes) (t : trace),
  has_ctl k = false -> has_ctl v = false ->
  let id := relay asgi Identity t in
  let ed := relay asgi (SetHeader k v) t in
  t_status ed = t_status id /\ t_body ed = t_body id /\
  hget (lower k) (t_headers ed) = Some v /\
  (forall k', k' <> lower k -> hget k' (t_headers ed) = hget k' (t_headers id)).
Proof. exact edit_one_header_proof. Qed.

(* Known finding: repeated headers do not stay separate. *)
Theorem duplicate_headers_refuted :
  t_headers (relay false Identity two_cookies) = [(lit "set-cookie", lit "a=1, b=2")] /\
  t_headers (relay true Identity two_cookies) = [(lit "set-cookie", lit "a=1, b=2")].
Proof. exact duplicate_headers_refuted_proof. Qed.

(* Known finding: behind an ASGI middleware a zero-copy body is lost. *)
Theorem zero_copy_refuted :
  body_bytes zero_copy_file = lit "abc" /\ body_bytes (relay true Identity zero_copy_file) = [] /\
  body_bytes (relay false Identity zero_copy_file) = lit "abc".
Proof. exact zero_copy_refuted_proof. Qed.

Print Assumptions identity_transparent.
Print Assumptions edit_one_header.
Print Assumptions duplicate_headers_refuted.
Print Assumptions zero_copy_refuted.
