(* C20 — the middleware relay at the level of what an application DOES, so that
   failures are covered: an application is the list of actions it performs against
   the gateway (calls of start_response with and without exc_info, items yielded,
   the point where it raises; resp. messages sent and the point where it raises).
   [server_w]/[server_a] say what a conforming server delivers for such a list
   (PEP 3333: a start_response call carrying exc_info replaces status and headers as
   long as no body byte has gone out, and re-raises afterwards; the headers go out
   with the first non-empty item).  [mw_w]/[mw_a] are the middleware
   (baize/wsgi/middleware.py NextResponse.from_app + ensure_next + the re-rendering
   by StreamingResponse.__call__; baize/asgi/middleware.py NextResponse.from_app +
   CachedStream) as a transformer of action lists. *)
From Coq Require Import List NArith Bool Arith.
From Baize Require Import Lib.Wire Lib.Order C02.Model Resp.Model C20.Model.
Import ListNotations.

(* what the client of a conforming server gets *)
Inductive outcome :=
| Completed (st : nat) (hs : list header) (body : bytes)
| Aborted (st : nat) (hs : list header) (body : bytes)   (* headers and [body] went out, then the application failed *)
| Raised.                                                (* the application failed before anything went out *)

(* ---------- WSGI ---------- *)

Inductive wact :=
| IStart (st : nat) (hs : list header)      (* start_response(status, headers) *)
| IRestart (st : nat) (hs : list header)    (* start_response(status, headers, exc_info) *)
| IYield (d : bytes)
| IRaise.

Record wsrv := { w_start : option (nat * list header); w_sent : bool; w_body : bytes }.

Definition w_fail (s : wsrv) : outcome :=
  match w_sent s, w_start s with
  | true, Some (st, hs) => Aborted st hs (w_body s)
  | _, _ => Raised
  end.

Fixpoint server_w (s : wsrv) (l : list wact) : outcome :=
  match l with
  | [] => match w_start s with Some (st, hs) => Completed st hs (w_body s) | None => Raised end
  | IStart st hs :: r =>
      match w_start s with
      | Some _ => w_fail s                      (* called twice without exc_info: the server raises into the application *)
      | None => server_w {| w_start := Some (st, hs); w_sent := w_sent s; w_body := w_body s |} r
      end
  | IRestart st hs :: r =>
      if w_sent s then w_fail s                 (* headers already sent: exc_info is re-raised *)
      else server_w {| w_start := Some (st, hs); w_sent := false; w_body := w_body s |} r
  | IYield [] :: r => server_w s r
  | IYield d :: r =>
      match w_start s with
      | None => Raised                          (* body before start_response *)
      | Some _ => server_w {| w_start := w_start s; w_sent := true; w_body := w_body s ++ d |} r
      end
  | IRaise :: _ => w_fail s
  end.

Definition w0 : wsrv := {| w_start := None; w_sent := false; w_body := [] |}.
Definition serve_w (l : list wact) : outcome := server_w w0 l.

(* from_app: until it returns, the captured start_response accepts every call and keeps
   the last one; ensure_next runs the application up to its first NON-EMPTY item (until
   then the response may still be replaced through exc_info) *)
Fixpoint capture (cap : nat * list header) (l : list wact) : option ((nat * list header) * bytes * list wact) :=
  match l with
  | [] => Some (cap, [], [])                    (* next(filter(None, iterator), b"") *)
  | IStart st hs :: r => capture (st, hs) r
  | IRestart st hs :: r => capture (st, hs) r
  | IYield [] :: r => capture cap r
  | IYield d :: r => Some (cap, d, r)
  | IRaise :: _ => None
  end.

(* the rest of the application runs while the outer response is being iterated: status
   and headers are already on their way, so a start_response call carrying exc_info
   re-raises the error; a call without exc_info only overwrites the captured variables *)
Fixpoint tail_acts (l : list wact) : list wact :=
  match l with
  | [] => []
  | IYield d :: r => IYield d :: tail_acts r
  | IRaise :: _ => [IRaise]
  | IRestart _ _ :: _ => [IRaise]
  | IStart _ _ :: r => tail_acts r
  end.

Definition mw_w (a : action) (l : list wact) : list wact :=
  match capture (200, []) l with
  | None => [IRaise]
  | Some ((st, hs), first, rest) => IStart st (apply_action a (hinit hs)) :: IYield first :: tail_acts rest
  end.

(* the relay as it was before the repair: the first item, empty or not, ends the capture,
   and the captured start_response never raises *)
Fixpoint capture_orig (cap : nat * list header) (l : list wact) : option ((nat * list header) * bytes * list wact) :=
  match l with
  | [] => Some (cap, [], [])
  | IStart st hs :: r => capture_orig (st, hs) r
  | IRestart st hs :: r => capture_orig (st, hs) r
  | IYield d :: r => Some (cap, d, r)
  | IRaise :: _ => None
  end.

Fixpoint tail_acts_orig (l : list wact) : list wact :=
  match l with
  | [] => []
  | IYield d :: r => IYield d :: tail_acts_orig r
  | IRaise :: _ => [IRaise]
  | _ :: r => tail_acts_orig r
  end.

Definition mw_w_orig (a : action) (l : list wact) : list wact :=
  match capture_orig (200, []) l with
  | None => [IRaise]
  | Some ((st, hs), first, rest) => IStart st (apply_action a (hinit hs)) :: IYield first :: tail_acts_orig rest
  end.

Definition stack_w (acts : list action) (l : list wact) : list wact :=
  fold_left (fun l a => mw_w a l) acts l.

(* ---------- ASGI ---------- *)

Inductive aact :=
| MStart (st : nat) (hs : list header)
| MBody (d : bytes)
| MZero (d : bytes)                 (* zerocopysend: what a server reads from the descriptor *)
| MRaise.

Record asrv := { a_start : option (nat * list header); a_body : bytes }.

Fixpoint server_a (s : asrv) (l : list aact) : outcome :=
  match l with
  | [] => match a_start s with Some (st, hs) => Completed st hs (a_body s) | None => Raised end
  | MStart st hs :: r =>
      match a_start s with
      | Some (st0, hs0) => Aborted st0 hs0 (a_body s)   (* a second start event is a protocol error of the application *)
      | None => server_a {| a_start := Some (st, hs); a_body := a_body s |} r
      end
  | MBody d :: r | MZero d :: r =>
      match a_start s with
      | None => Raised
      | Some _ => server_a {| a_start := a_start s; a_body := a_body s ++ d |} r
      end
  | MRaise :: _ => match a_start s with Some (st, hs) => Aborted st hs (a_body s) | None => Raised end
  end.

Definition serve_a (l : list aact) : outcome := server_a {| a_start := None; a_body := [] |} l.

(* from_app awaits the whole inner application: its send() keeps the last start event
   and spools the http.response.body events (and nothing else) *)
Fixpoint collect_a (cap : nat * list header) (body : bytes) (l : list aact) : option ((nat * list header) * bytes) :=
  match l with
  | [] => Some (cap, body)
  | MStart st hs :: r => collect_a (st, hs) body r
  | MBody d :: r => collect_a cap (body ++ d) r
  | MZero _ :: r => collect_a cap body r
  | MRaise :: _ => None
  end.

Definition mw_a (a : action) (l : list aact) : list aact :=
  match collect_a (200, []) [] l with
  | None => [MRaise]
  | Some ((st, hs), body) => [MStart st (apply_action a (hinit hs)); MBody body; MBody []]
  end.

Definition stack_a (acts : list action) (l : list aact) : list aact :=
  fold_left (fun l a => mw_a a l) acts l.

(* ---------- the shapes of application behaviour the transparency theorems speak about ---------- *)

(* start_response is called without exc_info exactly once, first (a second such call is an
   error of the application under PEP 3333); everything else is free: items, empty items,
   replacing the response through exc_info at any point, failing at any point *)
Fixpoint no_start (l : list wact) : bool :=
  match l with
  | [] => true
  | IStart _ _ :: _ => false
  | _ :: r => no_start r
  end.

Definition ok_w (l : list wact) : bool :=
  match l with IStart _ _ :: r => no_start r | _ => false end.

Fixpoint bodies_a (l : list aact) : bool :=
  match l with
  | [] => true
  | MBody _ :: r => bodies_a r
  | _ => false
  end.

Definition ok_a (l : list aact) : bool :=
  match l with MStart _ _ :: r => bodies_a r | _ => false end.

Definition distinct_names (hs : list header) : Prop := NoDup (map (fun h => lower (fst h)) hs).

Definition starts_w (l : list wact) : list (list header) :=
  flat_map (fun a => match a with IStart _ hs => [hs] | IRestart _ hs => [hs] | _ => [] end) l.
