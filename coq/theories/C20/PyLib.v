(* C20 — what the Gallina text that tools/py2coq_c20.py emits for baize/wsgi/middleware.py is made of.

   The inner application is the list of things it does, as PYTHON sees them ([pact]: a call of the start_response it was
   handed, with the status STRING, the header list and whether exc_info is given; an item of its iterable; raising).  The
   variables of from_app that its nested start_response closes over (status_code, headers, relayed) are the record [cells],
   threaded explicitly; the closure itself is a function cells -> .. -> outcome cells (the translation of the nested def).
   A [world] is the closure together with the current cells: the heap the application's suspended iterator runs against.

   [next_filter_none], [run_it], [run_gen] are the meaning of "iterate the application's iterable": they run the actions in
   order, every start_response action through the closure.  [call_response] is StreamingResponse.__call__ on the
   NextResponse (start_response(status, headers) once, then the items of the body), as C20/Acts.v has it. *)
From Coq Require Import List NArith Bool Arith.
From Baize Require Import Lib.Wire Lib.PyStr C02.Model Resp.Model C20.Model C20.Acts.
Import ListNotations.

Inductive outcome (A : Type) :=
| Ret (a : A)
| Raise.
Arguments Ret {A} a.
Arguments Raise {A}.

Definition bind {A B : Type} (x : outcome A) (f : A -> outcome B) : outcome B :=
  match x with Ret a => f a | Raise => Raise end.

Inductive pact :=
| PStart (status : bytes) (hs : list header) (exc_info : bool)   (* start_response(status, hs[, exc_info]) *)
| PYield (d : bytes)
| PRaise.

Record cells := { c_status_code : nat; c_headers : hstore; c_relayed : bool }.

Definition set_status_code (v : nat) (c : cells) : cells :=
  {| c_status_code := v; c_headers := c_headers c; c_relayed := c_relayed c |}.
Definition set_headers (v : hstore) (c : cells) : cells :=
  {| c_status_code := c_status_code c; c_headers := v; c_relayed := c_relayed c |}.
Definition set_relayed (v : bool) (c : cells) : cells :=
  {| c_status_code := c_status_code c; c_headers := c_headers c; c_relayed := v |}.

Definition sr_t := cells -> bytes -> list header -> bool -> outcome cells.
Definition world := (sr_t * cells)%type.

(* x[0] of the result of str.split: that list is never empty *)
Definition index0 (l : list bytes) : bytes := hd [] l.

(* next(filter(None, iterator), default): the state of the iterator afterwards is part of the result *)
Fixpoint next_filter_none (sr : sr_t) (c : cells) (it : list pact) (default : bytes)
  : outcome (cells * bytes * list pact) :=
  match it with
  | [] => Ret (c, default, [])
  | PStart s hs e :: r =>
      match sr c s hs e with
      | Raise => Raise
      | Ret c' => next_filter_none sr c' r default
      end
  | PYield [] :: r => next_filter_none sr c r default
  | PYield d :: r => Ret (c, d, r)
  | PRaise :: _ => Raise
  end.

(* next(iterator, default): the first item, empty or not *)
Fixpoint next_item (sr : sr_t) (c : cells) (it : list pact) (default : bytes)
  : outcome (cells * bytes * list pact) :=
  match it with
  | [] => Ret (c, default, [])
  | PStart s hs e :: r =>
      match sr c s hs e with
      | Raise => Raise
      | Ret c' => next_item sr c' r default
      end
  | PYield d :: r => Ret (c, d, r)
  | PRaise :: _ => Raise
  end.

(* a generator function whose body is  yield e .. ; yield from <iterator> *)
Inductive gen :=
| GYield (d : bytes) (k : gen)
| GFrom (it : list pact)
| GEnd.

(* iterating, seen from the server: the items, the point of failure *)
Fixpoint run_it (sr : sr_t) (c : cells) (it : list pact) : list wact :=
  match it with
  | [] => []
  | PStart s hs e :: r =>
      match sr c s hs e with
      | Raise => [IRaise]
      | Ret c' => run_it sr c' r
      end
  | PYield d :: r => IYield d :: run_it sr c r
  | PRaise :: _ => [IRaise]
  end.

Fixpoint run_gen (w : world) (g : gen) : list wact :=
  match g with
  | GYield d k => IYield d :: run_gen w k
  | GFrom it => run_it (fst w) (snd w) it
  | GEnd => []
  end.

Record response := NextResponse { r_body : gen; r_status : nat; r_headers : hstore }.

Definition request := unit.
Definition NextRequest : request := tt.

(* yield from response(environ, start_response) *)
Definition call_response (w : world) (r : response) : list wact :=
  IStart (r_status r) (r_headers r) :: run_gen w (r_body r).

Definition bind_w {A : Type} (x : outcome A) (f : A -> list wact) : list wact :=
  match x with Ret a => f a | Raise => [IRaise] end.

Definition handler_t := request -> (request -> outcome (response * world)) -> outcome (response * world).

(* the handlers the model speaks about: response = next_call(request); [response.headers[k] = v;] return response *)
Definition handler_of (a : action) : handler_t :=
  fun rq next_call =>
    bind (next_call rq) (fun rw =>
      Ret (NextResponse (r_body (fst rw)) (r_status (fst rw)) (apply_action a (r_headers (fst rw))), snd rw)).

(* the action as the model has it: the status already a number *)
Definition wact_of (py_int : bytes -> nat) (a : pact) : wact :=
  match a with
  | PStart s hs false => IStart (py_int (index0 (split [32%N] s))) hs
  | PStart s hs true => IRestart (py_int (index0 (split [32%N] s))) hs
  | PYield d => IYield d
  | PRaise => IRaise
  end.
