(* C20 — proofs about the relay at the level of application actions (C20/Acts.v). *)
From Coq Require Import List NArith Bool Arith Lia.
From Baize Require Import Lib.Wire Lib.Order C02.Model Resp.Model C20.Model C20.Proofs C20.Acts.
Import ListNotations.

Definition lower_outcome (o : outcome) : outcome :=
  match o with
  | Completed st hs b => Completed st (lower_names hs) b
  | Aborted st hs b => Aborted st (lower_names hs) b
  | Raised => Raised
  end.

Definition set_headers (hs : list header) (o : outcome) : outcome :=
  match o with
  | Completed st _ b => Completed st hs b
  | Aborted st _ b => Aborted st hs b
  | Raised => Raised
  end.

(* ---------- WSGI ---------- *)

(* once a non-empty item has gone out: the relayed tail behaves like the application's own
   tail (a response replaced through exc_info is re-raised on both sides) *)
Lemma tail_sent rest : no_start rest = true -> forall st hs hs' b,
  server_w {| w_start := Some (st, hs'); w_sent := true; w_body := b |} (tail_acts rest)
  = set_headers hs' (server_w {| w_start := Some (st, hs); w_sent := true; w_body := b |} rest).
Proof.
  induction rest as [|a r IH]; intros Hp st hs hs' b.
  - reflexivity.
  - destruct a as [st1 hs1|st1 hs1|d|]; cbn [no_start] in Hp; try discriminate.
    + reflexivity.
    + cbn [tail_acts]. destruct d as [|x d]; cbn [server_w w_start w_sent w_body]; apply IH; exact Hp.
    + reflexivity.
Qed.

Lemma sent_outcome rest : forall st hs b,
  exists b', let o := server_w {| w_start := Some (st, hs); w_sent := true; w_body := b |} rest in
             o = Completed st hs b' \/ o = Aborted st hs b'.
Proof.
  induction rest as [|a r IH]; intros st hs b.
  - exists b. left. reflexivity.
  - destruct a as [st1 hs1|st1 hs1|d|].
    + exists b. right. reflexivity.
    + exists b. right. reflexivity.
    + destruct d as [|x d]; cbn [server_w w_start w_sent w_body]; apply IH.
    + exists b. right. reflexivity.
Qed.

(* before the first non-empty item: the server's view and the capture agree on which start counts *)
Lemma pre_capture r : no_start r = true -> forall cap,
  match capture cap r with
  | None => server_w {| w_start := Some cap; w_sent := false; w_body := [] |} r = Raised
  | Some (cap', first, rest) =>
      no_start rest = true /\ (first = [] -> rest = []) /\
      server_w {| w_start := Some cap; w_sent := false; w_body := [] |} r
      = server_w {| w_start := Some cap'; w_sent := false; w_body := [] |} (IYield first :: rest)
  end.
Proof.
  induction r as [|a r IH]; intros Hp cap.
  - cbn [capture]. split; [reflexivity|]. split; [reflexivity|]. destruct cap. reflexivity.
  - destruct a as [st1 hs1|st1 hs1|d|]; cbn [no_start] in Hp; try discriminate.
    + cbn [capture server_w w_sent w_body]. apply IH. exact Hp.
    + destruct d as [|x d].
      * cbn [capture server_w]. apply IH. exact Hp.
      * cbn [capture]. split; [exact Hp|]. split; [discriminate|reflexivity].
    + cbn [capture server_w]. reflexivity.
Qed.

Lemma In_starts_w_cons a l hs : In hs (starts_w l) -> In hs (starts_w (a :: l)).
Proof. intros H. unfold starts_w. cbn [flat_map]. apply in_or_app. right. exact H. Qed.

Lemma capture_start r : forall cap cap' first rest,
  capture cap r = Some (cap', first, rest) -> cap' = cap \/ In (snd cap') (starts_w r).
Proof.
  induction r as [|a r IH]; intros cap cap' first rest H; cbn [capture] in H.
  - inversion H. left. reflexivity.
  - destruct a as [st1 hs1|st1 hs1|d|].
    + destruct (IH _ _ _ _ H) as [->|Hin]; right; [left; reflexivity|apply In_starts_w_cons; exact Hin].
    + destruct (IH _ _ _ _ H) as [->|Hin]; right; [left; reflexivity|apply In_starts_w_cons; exact Hin].
    + destruct d as [|x d].
      * destruct (IH _ _ _ _ H) as [->|Hin]; [left; reflexivity|right; apply In_starts_w_cons; exact Hin].
      * inversion H. left. reflexivity.
    + discriminate.
Qed.

Lemma captured_distinct st hs r cap' first rest :
  Forall distinct_names (starts_w (IStart st hs :: r)) ->
  capture (st, hs) r = Some (cap', first, rest) -> distinct_names (snd cap').
Proof.
  intros Hd Ec. rewrite Forall_forall in Hd. apply Hd.
  destruct (capture_start _ _ _ _ _ Ec) as [E|Hin].
  - subst cap'. left. reflexivity.
  - apply In_starts_w_cons. exact Hin.
Qed.

Theorem wsgi_relay_transparent_proof l :
  ok_w l = true -> Forall distinct_names (starts_w l) ->
  serve_w (mw_w Identity l) = lower_outcome (serve_w l).
Proof.
  destruct l as [|a r]; [discriminate|]. destruct a as [st hs| | |]; try discriminate.
  cbn [ok_w]. intros Hp Hd. unfold mw_w, serve_w, w0. cbn [capture server_w w_start w_sent w_body].
  pose proof (pre_capture r Hp (st, hs)) as Hc.
  destruct (capture (st, hs) r) as [[[cap' first] rest]|] eqn:Ec.
  - destruct Hc as [Hpost [Hempty Hs]]. rewrite Hs.
    pose proof (captured_distinct _ _ _ _ _ _ Hd Ec) as Hdist. destruct cap' as [st' hs']. cbn [snd] in Hdist.
    cbn [apply_action server_w w_start w_sent w_body].
    rewrite (hinit_distinct hs' Hdist).
    destruct first as [|x first]; cbn [server_w w_start w_sent w_body].
    + rewrite (Hempty eq_refl). reflexivity.
    + rewrite (tail_sent rest Hpost st' hs' (lower_names hs') ([] ++ x :: first)).
      destruct (sent_outcome rest st' hs' ([] ++ x :: first)) as [b' Ho]. cbn zeta in Ho.
      destruct Ho as [Ho|Ho]; rewrite Ho; reflexivity.
  - rewrite Hc. reflexivity.
Qed.

(* the relayed application is again of the shape the theorem speaks about, so stacks compose *)
Lemma no_start_tail_acts rest : no_start (tail_acts rest) = true.
Proof.
  induction rest as [|a r IH]; [reflexivity|]. destruct a; cbn [tail_acts no_start]; first [exact IH | reflexivity].
Qed.

Lemma starts_tail_acts rest : starts_w (tail_acts rest) = [].
Proof.
  induction rest as [|a r IH]; [reflexivity|].
  destruct a; cbn [tail_acts]; unfold starts_w in *; cbn [flat_map app]; first [exact IH | reflexivity].
Qed.

Lemma distinct_lower_names hs : distinct_names hs -> distinct_names (lower_names hs).
Proof. unfold distinct_names. rewrite lower_names_keys. exact (fun H => H). Qed.

Lemma mw_w_ok l : ok_w l = true -> Forall distinct_names (starts_w l) ->
  (mw_w Identity l = [IRaise]) \/
  (ok_w (mw_w Identity l) = true /\ Forall distinct_names (starts_w (mw_w Identity l))).
Proof.
  destruct l as [|a r]; [discriminate|]. destruct a as [st hs| | |]; try discriminate.
  cbn [ok_w]. intros Hp Hd. unfold mw_w. cbn [capture].
  destruct (capture (st, hs) r) as [[[cap' first] rest]|] eqn:Ec; [|left; reflexivity].
  right. pose proof (captured_distinct _ _ _ _ _ _ Hd Ec) as Hdist. destruct cap' as [st' hs']. cbn [snd] in Hdist. split.
  - cbn [ok_w no_start]. apply no_start_tail_acts.
  - unfold starts_w. cbn [flat_map app]. fold (starts_w (tail_acts rest)). rewrite starts_tail_acts.
    constructor; [|constructor]. cbn [apply_action].
    rewrite (hinit_distinct hs' Hdist). apply distinct_lower_names. exact Hdist.
Qed.

Lemma lower_outcome_idem o : lower_outcome (lower_outcome o) = lower_outcome o.
Proof. destruct o; cbn [lower_outcome]; rewrite ?lower_names_idem; reflexivity. Qed.

Lemma mw_w_raise_fixed : mw_w Identity [IRaise] = [IRaise].
Proof. reflexivity. Qed.

Lemma stack_w_raise n : stack_w (repeat Identity n) [IRaise] = [IRaise].
Proof. induction n as [|n IH]; [reflexivity|]. unfold stack_w in *. cbn [repeat fold_left]. rewrite mw_w_raise_fixed. exact IH. Qed.

Theorem wsgi_stack_transparent_proof (n : nat) : forall l,
  ok_w l = true -> Forall distinct_names (starts_w l) ->
  serve_w (stack_w (repeat Identity n) l) = match n with O => serve_w l | S _ => lower_outcome (serve_w l) end.
Proof.
  induction n as [|n IH]; intros l Hok Hd; [reflexivity|].
  unfold stack_w. cbn [repeat fold_left]. fold (stack_w (repeat Identity n) (mw_w Identity l)).
  pose proof (wsgi_relay_transparent_proof l Hok Hd) as H1.
  destruct (mw_w_ok l Hok Hd) as [Er|[Hok' Hd']].
  - rewrite Er in *. rewrite stack_w_raise. destruct n; exact H1.
  - rewrite (IH _ Hok' Hd'). destruct n; [exact H1|]. rewrite H1. apply lower_outcome_idem.
Qed.

(* the defect repaired by the fix: before it, once the first item had been taken — empty or
   not — a response replaced through exc_info was no longer honoured, and a failure
   reported that way after body bytes was swallowed *)
Definition late_restart : list wact :=
  [IStart 200 [(lit "Content-Type", lit "text/plain")]; IYield (lit "part1");
   IRestart 500 [(lit "Content-Type", lit "text/plain")]; IYield (lit "error page")].

Definition restart_after_empty_item : list wact :=
  [IStart 200 [(lit "Content-Type", lit "text/plain")]; IYield [];
   IRestart 500 [(lit "Content-Type", lit "text/plain")]; IYield (lit "error page")].

Theorem wsgi_relay_orig_refuted_proof :
  serve_w late_restart = Aborted 200 [(lit "Content-Type", lit "text/plain")] (lit "part1") /\
  serve_w (mw_w_orig Identity late_restart) = Completed 200 [(lit "content-type", lit "text/plain")] (lit "part1error page") /\
  serve_w restart_after_empty_item = Completed 500 [(lit "Content-Type", lit "text/plain")] (lit "error page") /\
  serve_w (mw_w_orig Identity restart_after_empty_item) = Completed 200 [(lit "content-type", lit "text/plain")] (lit "error page") /\
  ok_w late_restart = true /\ ok_w restart_after_empty_item = true.
Proof. repeat split; vm_compute; reflexivity. Qed.

Example ex_late_restart_repaired :
  serve_w (mw_w Identity late_restart) = Aborted 200 [(lit "content-type", lit "text/plain")] (lit "part1") /\
  serve_w (mw_w Identity restart_after_empty_item) = Completed 500 [(lit "content-type", lit "text/plain")] (lit "error page").
Proof. split; vm_compute; reflexivity. Qed.

(* ---------- ASGI ---------- *)

Lemma collect_bodies r : bodies_a r = true -> forall cap body,
  exists rest, collect_a cap body r = Some (cap, body ++ rest) /\
               forall st hs b0, server_a {| a_start := Some (st, hs); a_body := b0 |} r = Completed st hs (b0 ++ rest).
Proof.
  induction r as [|a r IH]; intros Hb cap body.
  - exists []. split; [cbn [collect_a]; rewrite app_nil_r; reflexivity|]. intros st hs b0. cbn [server_a a_start a_body]. rewrite app_nil_r. reflexivity.
  - destruct a as [st1 hs1|d|d|]; cbn [bodies_a] in Hb; try discriminate.
    destruct (IH Hb cap (body ++ d)) as [rest [Hc Hs]]. exists (d ++ rest). split.
    + cbn [collect_a]. rewrite Hc, <- app_assoc. reflexivity.
    + intros st hs b0. cbn [server_a a_start a_body]. rewrite Hs, <- app_assoc. reflexivity.
Qed.

Theorem asgi_relay_transparent_proof l :
  ok_a l = true -> Forall distinct_names (match l with MStart _ hs :: _ => [hs] | _ => [] end) ->
  serve_a (mw_a Identity l) = lower_outcome (serve_a l).
Proof.
  destruct l as [|a r]; [discriminate|]. destruct a as [st hs| | |]; try discriminate.
  cbn [ok_a]. intros Hb Hd. inversion Hd as [|? ? Hdist _]. subst.
  unfold mw_a, serve_a. cbn [collect_a server_a a_start a_body].
  destruct (collect_bodies r Hb (st, hs) []) as [rest [Hc Hs]]. rewrite Hc, Hs.
  cbn [apply_action server_a a_start a_body lower_outcome]. rewrite (hinit_distinct hs Hdist).
  cbn [app]. rewrite app_nil_r. reflexivity.
Qed.

(* whatever the inner application had already sent, behind a middleware its failure
   surfaces before anything is sent *)
Lemma collect_raise l : In MRaise l -> forall cap body, collect_a cap body l = None.
Proof.
  induction l as [|a r IH]; intros Hin cap body; [destruct Hin|].
  destruct a as [st1 hs1|d|d|]; cbn [collect_a]; try reflexivity;
    (destruct Hin as [E|Hin]; [discriminate|apply IH; exact Hin]).
Qed.

Theorem asgi_failure_surfaces_early_proof a l : In MRaise l -> serve_a (mw_a a l) = Raised.
Proof. intros Hin. unfold mw_a. rewrite (collect_raise l Hin). reflexivity. Qed.

Definition late_failure_a : list aact :=
  [MStart 200 [(lit "content-type", lit "text/plain")]; MBody (lit "part1"); MRaise].

(* known finding: the ASGI relay buffers the whole inner response, so a failure after the
   response start is seen by the client as a failure before it *)
Theorem asgi_late_failure_refuted_proof :
  serve_a late_failure_a = Aborted 200 [(lit "content-type", lit "text/plain")] (lit "part1") /\
  serve_a (mw_a Identity late_failure_a) = Raised.
Proof. split; vm_compute; reflexivity. Qed.
