(* C20 — what the Gallina text that tools/py2coq_c20.py emits for baize/asgi/middleware.py is made of.

   The inner application is the list of what it does ([aevent]: awaiting send(message) / raising); a message is the dict as
   PYTHON sees it: "type" (always there), and the keys "status", "headers", "body", "more_body", each there or not.  The
   variables of from_app its nested send closes over are the record [acells]: status_code, headers and body, the
   CachedStream.  CachedStream itself (a SpooledTemporaryFile with a flag) is NOT translated: [push] / [push_eof] /
   [read_all] say what its methods do — push raises RuntimeError after push_eof, otherwise appends at the end; push_eof
   rewinds; reading, as NextResponse's rendering does until the first empty read, gives the whole buffer after push_eof
   and NOTHING before it (the file position is still at the end). *)
From Coq Require Import List NArith Bool Arith.
From Baize Require Import Lib.Wire Lib.PyStr C02.Model Resp.Model C20.Model C20.Acts C20.PyLib.
Import ListNotations.

Record amsg := AMsg { m_type : bytes; m_status : option nat; m_headers : option (list header);
                      m_body : option bytes; m_more_body : option bool }.

Inductive aevent :=
| ASend (m : amsg)
| ARaise.

(* message["status"]: KeyError when the key is missing *)
Definition item_status (m : amsg) : outcome nat :=
  match m_status m with Some n => Ret n | None => Raise end.
(* message.get(key, default) *)
Definition get_headers (m : amsg) (d : list header) : list header := match m_headers m with Some x => x | None => d end.
Definition get_body (m : amsg) (d : bytes) : bytes := match m_body m with Some x => x | None => d end.
Definition get_more_body (m : amsg) (d : bool) : bool := match m_more_body m with Some x => x | None => d end.

(* bytes.decode("latin-1"): byte n is code point n *)
Definition decode_latin1 (b : bytes) : bytes := b.

Record stream := { s_buf : bytes; s_eof : bool }.
Definition CachedStream : stream := {| s_buf := []; s_eof := false |}.
Definition push (chunk : bytes) (s : stream) : outcome stream :=
  if s_eof s then Raise else Ret {| s_buf := s_buf s ++ chunk; s_eof := false |}.
Definition push_eof (s : stream) : stream := {| s_buf := s_buf s; s_eof := true |}.
Definition read_all (s : stream) : bytes := if s_eof s then s_buf s else [].

Record acells := { a_status_code : nat; a_headers : hstore; a_body : stream }.
Definition aset_status_code (v : nat) (c : acells) : acells :=
  {| a_status_code := v; a_headers := a_headers c; a_body := a_body c |}.
Definition aset_headers (v : hstore) (c : acells) : acells :=
  {| a_status_code := a_status_code c; a_headers := v; a_body := a_body c |}.
Definition aset_body (v : stream) (c : acells) : acells :=
  {| a_status_code := a_status_code c; a_headers := a_headers c; a_body := v |}.

Definition send_t := acells -> amsg -> outcome acells.

(* await app(request, request._receive, send) *)
Fixpoint run_app (send : send_t) (c : acells) (l : list aevent) : outcome acells :=
  match l with
  | [] => Ret c
  | ASend m :: r => match send c m with Raise => Raise | Ret c' => run_app send c' r end
  | ARaise :: _ => Raise
  end.

Record aresponse := ANextResponse { ar_body : stream; ar_status : nat; ar_headers : hstore }.

(* await response(scope, receive, send): the start event, the body as read from the stream, the closing empty event *)
Definition call_response_a (r : aresponse) : list aact :=
  [MStart (ar_status r) (ar_headers r); MBody (read_all (ar_body r)); MBody []].

Definition bind_a {A : Type} (x : outcome A) (f : A -> list aact) : list aact :=
  match x with Ret a => f a | Raise => [MRaise] end.

Definition ahandler_t := request -> (request -> outcome aresponse) -> outcome aresponse.

Definition ahandler_of (a : action) : ahandler_t :=
  fun rq next_call =>
    bind (next_call rq) (fun r => Ret (ANextResponse (ar_body r) (ar_status r) (apply_action a (ar_headers r)))).

Definition t_start : bytes := lit "http.response.start".
Definition t_body : bytes := lit "http.response.body".

(* the event as the model has it; a start message without "status" makes send raise KeyError into the application *)
Definition aact_of (e : aevent) : aact :=
  match e with
  | ARaise => MRaise
  | ASend m =>
      if str_eqb (m_type m) t_start then
        match m_status m with Some st => MStart st (get_headers m []) | None => MRaise end
      else if str_eqb (m_type m) t_body then MBody (get_body m [])
      else MZero []
  end.

(* the applications for which the model speaks: no body event after one with more_body false, and the stream is closed at
   the end unless nothing was written.  [eof]: push_eof has happened; [empty]: nothing has been written *)
Fixpoint wf_a (eof empty : bool) (l : list aevent) : bool :=
  match l with
  | [] => eof || empty
  | ARaise :: _ => true
  | ASend m :: r =>
      if str_eqb (m_type m) t_start then
        match m_status m with Some _ => wf_a eof empty r | None => true end
      else if str_eqb (m_type m) t_body then
        negb eof && wf_a (negb (get_more_body m false))
                         (empty && match get_body m [] with [] => true | _ => false end) r
      else wf_a eof empty r
  end.
