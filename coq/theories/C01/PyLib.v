(* C01/PyLib — the Python str operations that tools/py2coq_c01.py emits calls to (besides those of Lib/PyStr.v), as
   total Gallina functions.  Text is a list of code points (list N), a Python int is Z.

   Every function states the Python expression it stands for; py2coq_c01.py refuses (fails closed) every other shape.
   The functions are compared with the interpreter's own str methods by evaluation on every run of a check that uses
   the translated functions (tools/py2coq_c01.py: pylib_check; all words up to length 4 over the hostile alphabet
   semicolon, double quote, backslash, =, space, a, A, U+2003, every index from -6 to 6).  No proofs in this file (facts: C01/Translated.v). *)
From Coq Require Import List NArith ZArith Bool.
From Baize Require Import Lib.PyStr.
Import ListNotations.
Local Open Scope Z_scope.

(* a slice bound i of a sequence of length n, as CPython normalises it (PySlice_AdjustIndices, step 1): a negative
   bound counts from the end, then the bound is clamped to 0 .. n *)
Definition clamp (i n : Z) : nat := Z.to_nat (if i <? 0 then Z.max 0 (i + n) else Z.min i n).

(* s[lo:]   s[:hi]   s[lo:hi]    (lo, hi any int) *)
Definition slice_from (lo : Z) (s : str) : str := skipn (clamp lo (len s)) s.
Definition slice_to (hi : Z) (s : str) : str := firstn (clamp hi (len s)) s.
Definition slice (lo hi : Z) (s : str) : str :=
  let a := clamp lo (len s) in
  let b := clamp hi (len s) in
  firstn (b - a) (skipn a s).

(* s[k]  as a str of one character, for -len(s) <= k < len(s) (the translator only lets s[k] be read where a test
   len(s) >= n with -n <= k < n has succeeded; [] outside, where Python raises IndexError) *)
Definition char_at (k : Z) (s : str) : str :=
  let i := if k <? 0 then k + len s else k in
  if (0 <=? i) && (i <? len s) then firstn 1 (skipn (Z.to_nat i) s) else [].

(* s.find(c)   s.find(c, start)    for c a str of ONE character, start any int; -1 when there is none *)
Fixpoint find_char_aux (c : N) (s : str) (i : Z) : Z :=
  match s with
  | [] => -1
  | x :: r => if N.eqb x c then i else find_char_aux c r (i + 1)
  end.

Definition find_char (c : N) (s : str) (start : Z) : Z :=
  let st := if start <? 0 then Z.max 0 (start + len s) else start in
  find_char_aux c (skipn (Z.to_nat st) s) st.

(* s.count(c)  for c a str of ONE character;  s.count(ab)  for ab a str of TWO characters (non-overlapping, left to
   right);  s.count(x, lo, hi) is the count in s[lo:hi] *)
Definition count1 (c : N) (s : str) : Z := Z.of_nat (length (filter (N.eqb c) s)).

Fixpoint count2_nat (a b : N) (s : str) : nat :=
  match s with
  | x :: ((y :: r) as t) => if N.eqb x a && N.eqb y b then S (count2_nat a b r) else count2_nat a b t
  | _ => O
  end.
Definition count2 (a b : N) (s : str) : Z := Z.of_nat (count2_nat a b s).

(* s.replace(ab, t)   for ab a str of TWO characters, t any str (all occurrences, non-overlapping, left to right) *)
Fixpoint replace2 (a b : N) (by_ : str) (s : str) : str :=
  match s with
  | x :: ((y :: r) as t) => if N.eqb x a && N.eqb y b then by_ ++ replace2 a b by_ r else x :: replace2 a b by_ t
  | _ => s
  end.

(* d[k] = v on a dict with str keys is PyStr.dict_set.  A generator that has been run to its end is the list of the
   values it yields; an iterator over it is the list of the values still to come: it.__next__() / next(it) takes the
   head (StopIteration on []), `for x in it` goes through the rest. *)

(* `yield y` followed by the rest of the generator's run (None = a loop ran out of fuel) *)
Definition yield_cons (y : str) (rest : option (list str)) : option (list str) :=
  match rest with Some ys => Some (y :: ys) | None => None end.
