(* C01 — decode_framing: for every well-formed body and every chunking the decoder
   delivers exactly the header block and the bytes of every part.

   Structure:
     1. strings: starts_with / has_sub / search
     2. the matchers on the delimiter and on the blank line
     3. last_newline_from (the hold-back cut)
     4. one next_event step preserves the invariant  "buffer ++ future = what remains
        of the body"  (PREAMBLE, PART, DATA, EPILOGUE)
     5. drain, the chunks, the theorem. *)
From Coq Require Import List NArith Bool Arith Lia.
From Baize Require Import Lib.Wire Lib.Order C01.Model C01.Spec.
Import ListNotations.

(* ================================================================ 1. strings *)

Lemma starts_with_app p s : starts_with p (p ++ s) = true.
Proof.
  induction p as [|x p IH]; cbn [starts_with app]; [reflexivity|].
  rewrite N.eqb_refl, IH. reflexivity.
Qed.

Lemma starts_with_true p : forall s, starts_with p s = true -> exists r, s = p ++ r.
Proof.
  induction p as [|x p IH]; intros s H.
  - exists s. reflexivity.
  - destruct s as [|y s]; cbn [starts_with] in H; [discriminate|].
    apply andb_true_iff in H as [E H]. apply N.eqb_eq in E. subst y.
    destruct (IH s H) as [r ->]. exists r. reflexivity.
Qed.

Lemma starts_with_len p s : starts_with p s = true -> length p <= length s.
Proof.
  intros H. destruct (starts_with_true p s H) as [r ->]. rewrite app_length. lia.
Qed.

(* monotone: a match stays a match when bytes are appended *)
Lemma starts_with_mono p : forall s y, starts_with p s = true -> starts_with p (s ++ y) = true.
Proof.
  intros s y H. destruct (starts_with_true p s H) as [r ->]. rewrite <- app_assoc. apply starts_with_app.
Qed.

(* local: only the first |p| bytes matter *)
Lemma starts_with_local p : forall s y z, length p <= length s -> starts_with p (s ++ y) = starts_with p (s ++ z).
Proof.
  induction p as [|x p IH]; intros s y z L; [reflexivity|].
  destruct s as [|a s]; cbn [length] in L; [lia|].
  cbn [app starts_with]. rewrite (IH s y z) by lia. reflexivity.
Qed.

(* a byte that does not occur in p cannot be crossed by a match of p *)
Lemma starts_with_cross k p : ~ In k p -> forall u v, starts_with p (u ++ k :: v) = true -> starts_with p u = true.
Proof.
  induction p as [|x p IH]; intros NI u v H; [reflexivity|].
  destruct u as [|a u]; cbn [app starts_with] in *.
  - apply andb_true_iff in H as [E _]. apply N.eqb_eq in E. subst. exfalso. apply NI. left. reflexivity.
  - apply andb_true_iff in H as [E H]. rewrite E. cbn [andb].
    apply (IH (fun I => NI (or_intror I)) u v H).
Qed.

Lemma has_sub_cons n x s : has_sub n (x :: s) = starts_with n (x :: s) || has_sub n s.
Proof. reflexivity. Qed.

Lemma has_sub_false_skipn n : forall s j, has_sub n s = false -> starts_with n (skipn j s) = false.
Proof.
  induction s as [|x s IH]; intros j H.
  - destruct j; cbn [skipn]; cbn [has_sub] in H; apply orb_false_iff in H as [H _]; exact H.
  - rewrite has_sub_cons in H. apply orb_false_iff in H as [H1 H2].
    destruct j as [|j]; cbn [skipn]; [exact H1|]. apply IH. exact H2.
Qed.

Lemma has_sub_false_suffix n : forall s j, has_sub n s = false -> has_sub n (skipn j s) = false.
Proof.
  induction s as [|x s IH]; intros j H.
  - destruct j; exact H.
  - destruct j as [|j]; cbn [skipn]; [exact H|].
    rewrite has_sub_cons in H. apply orb_false_iff in H as [_ H2]. apply IH. exact H2.
Qed.

Lemma has_sub_app_mid n : forall x y, has_sub n (x ++ n ++ y) = true.
Proof.
  induction x as [|a x IH]; intros y.
  - cbn [app]. destruct (n ++ y) eqn:E.
    + destruct n; [reflexivity|discriminate].
    + rewrite has_sub_cons, <- E, starts_with_app. reflexivity.
  - cbn [app]. rewrite has_sub_cons, IH. apply orb_true_r.
Qed.

Lemma has_sub_false_prefix n : forall x y, has_sub n (x ++ y) = false -> has_sub n x = false.
Proof.
  induction x as [|a x IH]; intros y H.
  - cbn [app] in H. cbn [has_sub]. rewrite orb_false_r.
    destruct (starts_with n []) eqn:E; [|reflexivity].
    assert (E2 := starts_with_mono n [] y E). cbn [app] in E2.
    destruct y; cbn [has_sub] in H; rewrite E2 in H; discriminate.
  - cbn [app] in H. rewrite has_sub_cons in *. apply orb_false_iff in H as [H1 H2].
    rewrite (IH y H2), orb_false_r.
    destruct (starts_with n (a :: x)) eqn:E; [|reflexivity].
    assert (E2 := starts_with_mono n (a :: x) y E). cbn [app] in E2. congruence.
Qed.

Lemma has_sub_short n s : length s < length n -> has_sub n s = false.
Proof.
  induction s as [|x s IH]; intros L.
  - cbn [has_sub]. rewrite orb_false_r. destruct (starts_with n []) eqn:E; [|reflexivity].
    apply starts_with_len in E. cbn [length] in *. lia.
  - rewrite has_sub_cons, IH by (cbn [length] in L; lia). rewrite orb_false_r.
    destruct (starts_with n (x :: s)) eqn:E; [|reflexivity].
    apply starts_with_len in E. lia.
Qed.

(* ---- search ---- *)

Lemma search_none {A} (m : bytes -> option A) : forall s i,
  (forall j, j <= length s -> m (skipn j s) = None) -> search m s i = None.
Proof.
  induction s as [|x s IH]; intros i H; cbn [search].
  - assert (H0 := H 0 (Nat.le_0_l _)). cbn [skipn] in H0. rewrite H0. reflexivity.
  - assert (H0 := H 0 (Nat.le_0_l _)). cbn [skipn] in H0. rewrite H0.
    apply IH. intros j L. apply (H (S j)). cbn [length]. lia.
Qed.

Lemma search_none_inv {A} (m : bytes -> option A) : forall s i,
  search m s i = None -> forall j, j <= length s -> m (skipn j s) = None.
Proof.
  induction s as [|x s IH]; intros i H j L; cbn [search] in H.
  - cbn [length] in L. assert (j = 0) by lia. subst. cbn [skipn].
    destruct (m []); [discriminate|reflexivity].
  - destruct (m (x :: s)) eqn:E; [discriminate|].
    destruct j as [|j]; cbn [skipn]; [exact E|].
    apply (IH _ H). cbn [length] in L. lia.
Qed.

Lemma search_some {A} (m : bytes -> option A) : forall s i p a,
  (forall j, j < p -> m (skipn j s) = None) -> m (skipn p s) = Some a -> p <= length s ->
  search m s i = Some (i + p, a).
Proof.
  induction s as [|x s IH]; intros i p a H Hp L; cbn [search].
  - cbn [length] in L. assert (p = 0) by lia. subst. cbn [skipn] in Hp. rewrite Hp.
    rewrite Nat.add_0_r. reflexivity.
  - destruct p as [|p].
    + cbn [skipn] in Hp. rewrite Hp, Nat.add_0_r. reflexivity.
    + assert (H0 := H 0). cbn [skipn] in H0. rewrite H0 by lia.
      rewrite (IH (S i) p a).
      * f_equal. f_equal. lia.
      * intros j Lj. apply (H (S j)). lia.
      * exact Hp.
      * cbn [length] in L. lia.
Qed.

Lemma skipn_app_le {A} (x y : list A) j : j <= length x -> skipn j (x ++ y) = skipn j x ++ y.
Proof.
  intros L. rewrite skipn_app. replace (j - length x) with 0 by lia. reflexivity.
Qed.

Lemma skipn_app_ge {A} (x y : list A) j : length x <= j -> skipn j (x ++ y) = skipn (j - length x) y.
Proof.
  intros L. rewrite skipn_app, skipn_all2 by lia. reflexivity.
Qed.

Lemma skipn_app_exact {A} (x y : list A) : skipn (length x) (x ++ y) = y.
Proof. rewrite skipn_app_ge by lia. rewrite Nat.sub_diag. reflexivity. Qed.

Lemma firstn_app_exact {A} (x y : list A) : firstn (length x) (x ++ y) = x.
Proof.
  rewrite firstn_app, Nat.sub_diag, firstn_all. cbn [firstn]. apply app_nil_r.
Qed.

Lemma firstn_app_le {A} (x y : list A) j : j <= length x -> firstn j (x ++ y) = firstn j x.
Proof.
  intros L. rewrite firstn_app. replace (j - length x) with 0 by lia. cbn [firstn]. apply app_nil_r.
Qed.

Lemma skipn_skipn' {A} : forall a b (l : list A), skipn a (skipn b l) = skipn (b + a) l.
Proof.
  intros a b. induction b as [|b IH]; intros l; [reflexivity|].
  destruct l as [|x l]; cbn [skipn plus]; [destruct a; reflexivity|]. apply IH.
Qed.

(* splitting  buf ++ fut = x ++ y  at the boundary of x *)
Lemma app_split {A} (buf fut x y : list A) :
  buf ++ fut = x ++ y ->
  (exists m, x = buf ++ m /\ fut = m ++ y) \/ (exists m, buf = x ++ m /\ y = m ++ fut /\ m <> []).
Proof.
  intros H. destruct (app_eq_app _ _ _ _ H) as [l [[E1 E2]|[E1 E2]]].
  - destruct l as [|a l].
    + left. exists []. rewrite app_nil_r in E1. subst. split; [rewrite app_nil_r; reflexivity|reflexivity].
    + right. exists (a :: l). repeat split; try assumption. discriminate.
  - left. exists l. split; assumption.
Qed.

(* ================================================================ 2. the matchers *)

Definition not_nl (c : N) : Prop := c <> CR /\ c <> LF.

Lemma no_crlf_forall s : no_crlf s = true -> forall c, In c s -> not_nl c.
Proof.
  unfold no_crlf. rewrite forallb_forall. intros H c I. specialize (H c I).
  apply andb_true_iff in H as [H1 H2]. apply negb_true_iff in H1, H2.
  apply N.eqb_neq in H1, H2. split; assumption.
Qed.

Lemma dashes_not_nl b : no_crlf b = true -> forall c, In c (dashes b) -> not_nl c.
Proof.
  intros H c [E|[E|I]]; [subst; split; discriminate|subst; split; discriminate|].
  apply (no_crlf_forall b H c I).
Qed.

Lemma lb_len_cons_none c s : not_nl c -> lb_len (c :: s) = None.
Proof.
  intros [H1 H2]. unfold lb_len. cbn [starts_with].
  apply N.eqb_neq in H1, H2. rewrite N.eqb_sym in H1. rewrite N.eqb_sym in H2.
  rewrite H1, H2. reflexivity.
Qed.

Lemma lb_len_nil : lb_len [] = None.
Proof. reflexivity. Qed.

Lemma lb_len_le2 s l : lb_len s = Some l -> l <= 2.
Proof.
  unfold lb_len. destruct (starts_with [CR; LF] s); [intros H; injection H; lia|].
  destruct (starts_with [LF] s); [intros H; injection H; lia|].
  destruct (starts_with [CR] s); [intros H; injection H; lia|discriminate].
Qed.

Lemma lb_len_crlf s : lb_len (CR :: LF :: s) = Some 2.
Proof. reflexivity. Qed.

Lemma lb_len_lf s : lb_len (LF :: s) = Some 1.
Proof. reflexivity. Qed.

Lemma starts_with_dashes_nl b c s : ~ not_nl c -> starts_with (dashes b) (c :: s) = false.
Proof.
  intros H. unfold dashes. cbn [starts_with].
  destruct (N.eqb DASH c) eqn:E; [|reflexivity].
  apply N.eqb_eq in E. subst c. exfalso. apply H. split; discriminate.
Qed.

Lemma starts_with_dashes_cr b s : starts_with (dashes b) (CR :: s) = false.
Proof. reflexivity. Qed.
Lemma starts_with_dashes_lf b s : starts_with (dashes b) (LF :: s) = false.
Proof. reflexivity. Qed.

(* the body of match_delim *)
Definition try_at (dd s : bytes) (l : nat) : option (nat * bool) :=
  if starts_with dd (skipn l s) then
    match tail_match (skipn (l + length dd) s) with
    | Some (t, closing) => Some (l + length dd + t, closing)
    | None => None
    end
  else None.

Lemma match_delim_unfold opt dd s :
  match_delim opt dd s =
  match lb_len s with
  | Some l => match try_at dd s l with Some r => Some r | None => if opt then try_at dd s 0 else None end
  | None => if opt then try_at dd s 0 else None
  end.
Proof. reflexivity. Qed.

Lemma try_at_some dd s l len cl :
  try_at dd s l = Some (len, cl) ->
  starts_with dd (skipn l s) = true /\
  exists tl, tail_match (skipn (l + length dd) s) = Some (tl, cl) /\ len = l + length dd + tl.
Proof.
  unfold try_at. destruct (starts_with dd (skipn l s)); [|discriminate].
  destruct (tail_match (skipn (l + length dd) s)) as [[tl c]|]; [|discriminate].
  intros H. injection H as <- <-. split; [reflexivity|]. exists tl. split; reflexivity.
Qed.

(* a match of the delimiter pattern contains "--boundary" at offset <= 2, followed by a matching tail *)
Lemma match_delim_some opt dd s len cl :
  match_delim opt dd s = Some (len, cl) ->
  exists l, l <= 2 /\ starts_with dd (skipn l s) = true /\
            exists tl, tail_match (skipn (l + length dd) s) = Some (tl, cl) /\ len = l + length dd + tl.
Proof.
  rewrite match_delim_unfold. intros H.
  assert (T0 : try_at dd s 0 = Some (len, cl) ->
          exists l, l <= 2 /\ starts_with dd (skipn l s) = true /\
            exists tl, tail_match (skipn (l + length dd) s) = Some (tl, cl) /\ len = l + length dd + tl).
  { intros T. exists 0. split; [lia|]. apply try_at_some. exact T. }
  destruct (lb_len s) as [l|] eqn:EL.
  - destruct (try_at dd s l) as [r|] eqn:ET.
    + injection H as ->. exists l. split; [apply (lb_len_le2 s l EL)|]. apply try_at_some. exact ET.
    + destruct opt; [apply T0; exact H|discriminate].
  - destruct opt; [apply T0; exact H|discriminate].
Qed.

(* ---- the tail of a delimiter ---- *)

Inductive tail_form : bytes -> Prop :=
| TFnext A' : tail_form (CR :: LF :: A')
| TFclose e : tail_form (DASH :: DASH :: CR :: LF :: e).

Lemma after_delim_form b ps epi : tail_form (after_delim b ps epi).
Proof.
  destruct ps as [|[h c] r]; cbn [after_delim app CRLF].
  - apply TFclose.
  - apply TFnext.
Qed.

Lemma tail_match_nil : tail_match [] = None. Proof. reflexivity. Qed.
Lemma tail_match_dash : tail_match [DASH] = None. Proof. reflexivity. Qed.

(* what the part of the tail that is already in the buffer matches *)
Lemma tail_cases A t f :
  t ++ f = A -> tail_form A ->
  (tail_match t = None /\ (t = [] \/ t = [DASH]))
  \/ (exists tl A', tail_match t = Some (tl, false) /\ tl <= length t /\ A = CR :: LF :: A' /\
                    (skipn tl A = A' \/ skipn tl A = LF :: A'))
  \/ (exists tl, tail_match t = Some (tl, true) /\ tl <= length t).
Proof.
  intros E F. destruct F as [A'|e].
  - destruct t as [|a t]; [left; split; [reflexivity|left; reflexivity]|].
    cbn [app] in E. injection E as -> E.
    destruct t as [|a' t].
    + right. left. exists 1, A'. repeat split; [cbn; lia|right; reflexivity].
    + cbn [app] in E. injection E as -> E.
      right. left. exists 2, A'. repeat split; [cbn [length]; lia|left; reflexivity].
  - destruct t as [|a t]; [left; split; [reflexivity|left; reflexivity]|].
    cbn [app] in E. injection E as -> E.
    destruct t as [|a t]; [left; split; [reflexivity|right; reflexivity]|].
    cbn [app] in E. injection E as -> E.
    destruct t as [|a t]; [right; right; exists 2; split; [reflexivity|cbn; lia]|].
    cbn [app] in E. injection E as -> E.
    destruct t as [|a t]; [right; right; exists 3; split; [reflexivity|cbn; lia]|].
    cbn [app] in E. injection E as -> E.
    right; right; exists 4; split; [reflexivity|cbn [length]; lia].
Qed.

(* ---- where "--boundary" can occur in  x ++ lbs ++ dd ++ t ---- *)

Section Delim.
  Variable b : bytes.
  Hypothesis Hb : no_crlf b = true.
  Local Notation dd := (dashes b).

  Lemma cr_notin_dd : ~ In CR dd.
  Proof. intros I. destruct (dashes_not_nl b Hb CR I) as [H _]. apply H. reflexivity. Qed.

  Lemma dd_length : length dd = S (S (length b)).
  Proof. reflexivity. Qed.

  (* no occurrence before the line break that precedes the delimiter *)
  Lemma no_occ x z q :
    has_sub dd x = false -> q < length x + 2 ->
    starts_with dd (skipn q (x ++ CR :: LF :: z)) = false.
  Proof.
    intros Hx Lq.
    destruct (Nat.lt_ge_cases q (length x)) as [L|L].
    - rewrite skipn_app_le by lia.
      destruct (starts_with dd (skipn q x ++ CR :: LF :: z)) eqn:E; [|reflexivity].
      apply (starts_with_cross CR dd cr_notin_dd) in E.
      rewrite (has_sub_false_skipn dd x q Hx) in E. discriminate.
    - rewrite skipn_app_ge by lia.
      assert (Q : q - length x = 0 \/ q - length x = 1) by lia.
      destruct Q as [-> | ->]; reflexivity.
  Qed.

  Variable x : bytes.
  Hypothesis Hx : has_sub dd x = false.

  Variable lbs : bytes.
  Variable opt : bool.
  Hypothesis Hl : lbs = CRLF \/ (lbs = [] /\ x = [] /\ opt = true).

  (* every occurrence starts at or after the true one *)
  Lemma occ_ge t q : starts_with dd (skipn q (x ++ lbs ++ dd ++ t)) = true -> length x + length lbs <= q.
  Proof.
    intros H. destruct Hl as [-> | [-> [-> _]]]; [|cbn; lia].
    destruct (Nat.lt_ge_cases q (length x + 2)) as [L|L]; [|cbn [length CRLF]; lia].
    cbn [CRLF app] in H. rewrite (no_occ x _ q Hx L) in H. discriminate.
  Qed.

  (* the pattern at the true position *)
  Lemma match_at_true t :
    match_delim opt dd (lbs ++ dd ++ t) =
    match tail_match t with
    | Some (tl, cl) => Some (length lbs + length dd + tl, cl)
    | None => None
    end.
  Proof.
    rewrite match_delim_unfold.
    destruct Hl as [-> | [-> [_ ->]]].
    - cbn [CRLF app]. rewrite lb_len_crlf. unfold try_at at 1. cbn [skipn].
      rewrite starts_with_app.
      replace (skipn (2 + length dd) (CR :: LF :: dd ++ t)) with t
        by (cbn [plus skipn]; rewrite skipn_app_exact; reflexivity).
      destruct (tail_match t) as [[tl cl]|]; [reflexivity|].
      unfold try_at. cbn [skipn]. rewrite starts_with_dashes_cr. destruct opt; reflexivity.
    - cbn [app]. unfold dashes at 1. cbn [app]. rewrite lb_len_cons_none by (split; discriminate).
      fold (dashes b). unfold try_at. cbn [skipn plus]. rewrite starts_with_app, skipn_app_exact.
      destruct (tail_match t) as [[tl cl]|]; reflexivity.
  Qed.

  Lemma before_true_none t j :
    j < length x -> match_delim opt dd (skipn j (x ++ lbs ++ dd ++ t)) = None.
  Proof.
    intros L. destruct (match_delim opt dd (skipn j (x ++ lbs ++ dd ++ t))) as [[len cl]|] eqn:E; [|reflexivity].
    apply match_delim_some in E as [l [Ll [S _]]].
    rewrite skipn_skipn' in S. apply occ_ge in S.
    destruct Hl as [-> | [_ [-> _]]]; [cbn [length CRLF] in S|cbn [length] in L]; lia.
  Qed.

  Lemma search_true t tl cl :
    tail_match t = Some (tl, cl) ->
    search (match_delim opt dd) (x ++ lbs ++ dd ++ t) 0 = Some (length x, (length lbs + length dd + tl, cl)).
  Proof.
    intros T.
    apply (search_some (match_delim opt dd) _ 0 (length x)).
    - intros j L. apply before_true_none. exact L.
    - rewrite skipn_app_exact, match_at_true, T. reflexivity.
    - rewrite app_length. lia.
  Qed.

  Lemma search_incomplete t :
    t = [] \/ t = [DASH] ->
    search (match_delim opt dd) (x ++ lbs ++ dd ++ t) 0 = None.
  Proof.
    intros Ht. apply search_none. intros j _.
    destruct (match_delim opt dd (skipn j (x ++ lbs ++ dd ++ t))) as [[len cl]|] eqn:E; [|reflexivity].
    exfalso.
    apply match_delim_some in E as [l [Ll [S [tl [T _]]]]].
    rewrite skipn_skipn' in S, T.
    assert (G := occ_ge t _ S).
    (* the tail examined is a suffix of t *)
    rewrite !app_assoc in T. rewrite skipn_app_ge in T by (rewrite !app_length; lia).
    destruct Ht as [-> | ->].
    - rewrite skipn_nil in T. discriminate.
    - match type of T with tail_match (skipn ?k _) = _ => destruct k as [|[|n]] end;
        cbn [skipn] in T; discriminate.
  Qed.

End Delim.

(* ---- the blank line ---- *)

Lemma blank_len_local s y z : 4 <= length s -> blank_len (s ++ y) = blank_len (s ++ z).
Proof.
  intros L. unfold blank_len.
  rewrite (starts_with_local [CR; LF; CR; LF] s y z) by (cbn; lia).
  rewrite (starts_with_local [CR; CR] s y z) by (cbn; lia).
  rewrite (starts_with_local [LF; LF] s y z) by (cbn; lia).
  reflexivity.
Qed.

Lemma blank_len_mono s y l : blank_len s = Some l -> blank_len (s ++ y) = Some l.
Proof.
  unfold blank_len.
  destruct (starts_with [CR; LF; CR; LF] s) eqn:E1.
  { intros H. rewrite (starts_with_mono _ _ y E1). exact H. }
  destruct (starts_with [CR; CR] s) eqn:E2.
  { intros H. destruct (starts_with_true _ _ E2) as [r ->]. exact H. }
  destruct (starts_with [LF; LF] s) eqn:E3; [|discriminate].
  intros H. destruct (starts_with_true _ _ E3) as [r ->]. exact H.
Qed.

Lemma no_blank_search s : no_blank s = true -> search blank_len s 0 = None.
Proof. unfold no_blank. destruct (search blank_len s 0); [discriminate|reflexivity]. Qed.

(* a prefix of a string without blank line has none *)
Lemma search_blank_prefix x y i : search blank_len (x ++ y) 0 = None -> search blank_len x i = None.
Proof.
  intros H. apply search_none. intros j L.
  assert (H2 := search_none_inv blank_len _ _ H j). rewrite app_length in H2.
  specialize (H2 ltac:(lia)). rewrite skipn_app_le in H2 by lia.
  destruct (blank_len (skipn j x)) eqn:E; [|reflexivity].
  rewrite (blank_len_mono _ y _ E) in H2. discriminate.
Qed.

(* the first blank line of  u ++ CRLFCRLF ++ m  when u ++ CRLFCR has none *)
Lemma search_blank_found u m :
  search blank_len (u ++ [CR; LF; CR]) 0 = None ->
  search blank_len (u ++ [CR; LF; CR; LF] ++ m) 0 = Some (length u, 4).
Proof.
  intros H.
  apply (search_some blank_len _ 0 (length u) 4).
  - intros j L.
    assert (H2 := search_none_inv blank_len _ _ H j). rewrite app_length in H2.
    specialize (H2 ltac:(lia)). rewrite skipn_app_le in H2 by lia.
    rewrite skipn_app_le by lia.
    replace ([CR; LF; CR; LF] ++ m) with ([CR; LF; CR] ++ (LF :: m)) by reflexivity.
    rewrite app_assoc.
    rewrite <- (app_nil_r (skipn j u ++ [CR; LF; CR])) in H2.
    rewrite <- H2. apply blank_len_local.
    rewrite app_length, skipn_length. cbn [length]. lia.
  - rewrite skipn_app_exact. reflexivity.
  - rewrite app_length. lia.
Qed.

Lemma search_none_tail {A} (m : bytes -> option A) a s i : search m (a :: s) i = None -> search m s 0 = None.
Proof.
  intros H. apply search_none. intros j L.
  apply (search_none_inv m _ _ H (S j)). cbn [length]. lia.
Qed.

(* ================================================================ 3. the hold-back cut *)

Lemma rindex_from_lt c st : forall s i j, rindex_from c st s i = Some j -> j < i + length s.
Proof.
  induction s as [|a s IH]; intros i j H; cbn [rindex_from] in H; [discriminate|].
  destruct (rindex_from c st s (S i)) as [j'|] eqn:E.
  - injection H as <-. apply IH in E. cbn [length]. lia.
  - destruct (N.eqb a c && Nat.leb st i); [|discriminate]. injection H as <-. cbn [length]. lia.
Qed.

Lemma rindex_from_absent c st : forall s i, ~ In c s -> rindex_from c st s i = None.
Proof.
  induction s as [|a s IH]; intros i NI; cbn [rindex_from]; [reflexivity|].
  rewrite IH by (intros I; apply NI; right; exact I).
  destruct (N.eqb a c) eqn:E; [|reflexivity].
  apply N.eqb_eq in E. subst. exfalso. apply NI. left. reflexivity.
Qed.

Lemma rindex_from_exact c st y : ~ In c y -> forall x i, st <= i + length x ->
  rindex_from c st (x ++ c :: y) i = Some (i + length x).
Proof.
  intros NI. induction x as [|a x IH]; intros i L.
  - cbn [app rindex_from]. rewrite (rindex_from_absent c st y (S i) NI).
    rewrite N.eqb_refl. cbn [length] in *. rewrite Nat.add_0_r in *.
    apply Nat.leb_le in L. rewrite L. reflexivity.
  - cbn [app rindex_from]. rewrite (IH (S i)) by (cbn [length] in L; lia).
    f_equal. cbn [length]. lia.
Qed.

Lemma lnf_le st s : last_newline_from st s <= length s.
Proof.
  unfold last_newline_from.
  destruct (rindex_from LF st s 0) as [j|] eqn:E; [apply rindex_from_lt in E|]; lia.
Qed.

(* a CR with no CR after it, inside the window: the cut is not after it *)
Lemma lnf_cr st x y : ~ In CR y -> st <= length x -> last_newline_from st (x ++ CR :: y) <= length x.
Proof.
  intros NI L. unfold last_newline_from.
  rewrite (rindex_from_exact CR st y NI x 0) by lia. lia.
Qed.

(* ================================================================ 4. one step of the decoder *)

Lemma has_sub_true_occ n : forall s, has_sub n s = true ->
  exists q, q <= length s /\ starts_with n (skipn q s) = true.
Proof.
  induction s as [|a s IH]; intros H.
  - cbn [has_sub] in H. rewrite orb_false_r in H. exists 0. split; [lia|exact H].
  - rewrite has_sub_cons in H. apply orb_true_iff in H as [H|H].
    + exists 0. split; [lia|exact H].
    + destruct (IH H) as [q [L Sq]]. exists (S q). split; [cbn [length]; lia|exact Sq].
Qed.

Lemma search_some_inv {A} (m : bytes -> option A) : forall s i p a,
  search m s i = Some (p, a) -> exists j, j <= length s /\ m (skipn j s) = Some a.
Proof.
  induction s as [|x s IH]; intros i p a H; cbn [search] in H.
  - destruct (m []) eqn:E; [|discriminate]. injection H as _ <-. exists 0. split; [lia|exact E].
  - destruct (m (x :: s)) eqn:E.
    + injection H as _ <-. exists 0. split; [lia|exact E].
    + destruct (IH _ _ _ H) as [j [L M]]. exists (S j). split; [cbn [length]; lia|exact M].
Qed.

Lemma occ_has_sub n s q : starts_with n (skipn q s) = true -> has_sub n s = true.
Proof.
  intros H. destruct (has_sub n s) eqn:E; [reflexivity|].
  rewrite (has_sub_false_skipn n s q E) in H. discriminate.
Qed.

Lemma search_delim_has_sub opt dd s p a :
  search (match_delim opt dd) s 0 = Some (p, a) -> has_sub dd s = true.
Proof.
  intros H. apply search_some_inv in H as [j [_ M]]. destruct a as [len cl].
  apply match_delim_some in M as [l [_ [S _]]]. rewrite skipn_skipn' in S.
  apply (occ_has_sub _ _ _ S).
Qed.

Lemma firstn_agree {A} (buf fut x y : list A) n :
  buf ++ fut = x ++ y -> n <= length buf -> n <= length x -> firstn n buf = firstn n x.
Proof.
  intros E L1 L2. rewrite <- (firstn_app_le buf fut n L1), E. apply firstn_app_le. exact L2.
Qed.

Lemma skipn_agree {A} (buf fut x y : list A) n :
  buf ++ fut = x ++ y -> n <= length buf -> n <= length x -> skipn n buf ++ fut = skipn n x ++ y.
Proof.
  intros E L1 L2. rewrite <- (skipn_app_le buf fut n L1), E. apply skipn_app_le. exact L2.
Qed.

Lemma in_firstn {A} (a : A) : forall n l, In a (firstn n l) -> In a l.
Proof.
  induction n as [|n IH]; intros l I; [destruct I|].
  destruct l as [|x l]; [destruct I|]. cbn [firstn] in I. destruct I as [->|I]; [left; reflexivity|right; apply IH; exact I].
Qed.

Lemma tail_form_not_short A : tail_form A -> A <> [] /\ A <> [DASH].
Proof. intros [A'|e]; split; discriminate. Qed.

Section Steps.
  Variable b : bytes.
  Variable utf8 : bool.
  Variable epi : bytes.
  Hypothesis Hb : no_crlf b = true.
  Local Notation dd := (dashes b).

  Definition rem_data (c' : bytes) (r : list part) : bytes := c' ++ CRLF ++ dd ++ after_delim b r epi.

  Lemma after_delim_cons h c r :
    after_delim b ((h, c) :: r) epi = CR :: LF :: h ++ [CR; LF; CR; LF] ++ rem_data c r.
  Proof. reflexivity. Qed.

  Lemma after_delim_nil : after_delim b [] epi = DASH :: DASH :: CR :: LF :: epi.
  Proof. reflexivity. Qed.

  (* the buffer holds a "--boundary": then it holds everything up to the true one *)
  Lemma buffer_has_delim opt x lbs A buf fut :
    has_sub dd x = false ->
    (lbs = CRLF \/ (lbs = [] /\ x = [] /\ opt = true)) ->
    buf ++ fut = x ++ lbs ++ dd ++ A ->
    has_sub dd buf = true ->
    exists t, buf = x ++ lbs ++ dd ++ t /\ A = t ++ fut.
  Proof.
    intros Hx Hl E Hs.
    destruct (has_sub_true_occ _ _ Hs) as [q [Lq S]].
    assert (Ld := starts_with_len _ _ S). rewrite skipn_length in Ld.
    assert (S2 := starts_with_mono _ _ fut S). rewrite <- skipn_app_le in S2 by lia.
    rewrite E in S2. apply (occ_ge b Hb x Hx lbs opt Hl) in S2.
    replace (x ++ lbs ++ dd ++ A) with ((x ++ lbs ++ dd) ++ A) in E by (rewrite <- !app_assoc; reflexivity).
    destruct (app_split _ _ _ _ E) as [[m [E1 E2]]|[m [E1 [E2 _]]]].
    - assert (length (x ++ lbs ++ dd) = length buf + length m) by (rewrite E1, app_length; reflexivity).
      rewrite !app_length in H.
      destruct m; [|cbn [length] in H; lia].
      exists []. rewrite app_nil_r in E1. split; [rewrite !app_nil_r; symmetry; exact E1|symmetry; exact E2].
    - exists m. split; [rewrite E1, <- !app_assoc; reflexivity|exact E2].
  Qed.

  (* ---------------- the invariant ---------------- *)

  Definition parts_ok (ps : list part) : Prop := forallb (part_ok b utf8) ps = true.

  Inductive Inv : dstate -> bytes -> option (event * bytes) -> list part -> Prop :=
  | InvPre W pre lbs ps :
      has_sub dd pre = false -> (lbs = CRLF \/ (lbs = [] /\ pre = [])) ->
      W = pre ++ lbs ++ dd ++ after_delim b ps epi ->
      Inv PREAMBLE W None ps
  | InvPart W s h c r :
      (s = [] \/ s = [LF]) -> W = (s ++ h) ++ [CR; LF; CR; LF] ++ rem_data c r ->
      Inv PART W None ((h, c) :: r)
  | InvData W acc c' h c r :
      acc ++ c' = c -> W = rem_data c' r ->
      Inv DATA W (Some (part_event utf8 h, acc)) ((h, c) :: r)
  | InvEpi W : Inv EPILOGUE W None [].

  Definition is_cont (ev : event) : bool :=
    match ev with EPreamble _ | EField _ _ | EFile _ _ _ | EData _ _ => true | _ => false end.

  Definition expected (ps : list part) : list pitem := map (done utf8) ps.

  (* what one next_event call does under the invariant *)
  Definition step_post (d : decoder) (fut : bytes) (cur : option (event * bytes)) (ps : list part)
             (ev : event) (d' : decoder) : Prop :=
    d_complete d' = false /\
    ((ev = ENeed /\ d' = d /\ (fut = [] -> d_state d = EPILOGUE)) \/
     (is_cont ev = true /\ length (d_buf d') < length (d_buf d) /\
      exists cur' ps', parts_ok ps' /\ Inv (d_state d') (d_buf d' ++ fut) cur' ps' /\
        forall tail out, collect tail cur' = expected ps' ++ out ->
                         collect (ev :: tail) cur = expected ps ++ out)).

  Lemma parts_ok_cons h c r : parts_ok ((h, c) :: r) ->
    hdr_ok utf8 h = true /\ has_sub dd c = false /\ parts_ok r.
  Proof.
    unfold parts_ok. cbn [forallb]. intros H. apply andb_true_iff in H as [H1 H2].
    unfold part_ok in H1. cbn [fst snd] in H1. apply andb_true_iff in H1 as [H1 H3].
    apply negb_true_iff in H3. repeat split; assumption.
  Qed.

  Lemma hdr_ok_parts h : hdr_ok utf8 h = true ->
    no_blank (LF :: h ++ [CR; LF; CR]) = true /\ head_not_sptab h = true /\
    parse_part utf8 h = PEvent (part_event utf8 h) /\ is_part_event (part_event utf8 h) = true.
  Proof.
    unfold hdr_ok. intros H. apply andb_true_iff in H as [H H3]. apply andb_true_iff in H as [H1 H2].
    repeat split; try assumption.
    - unfold part_event. destruct (parse_part utf8 h); try discriminate. reflexivity.
    - unfold part_event, parse_part in *.
      destruct (parse_headers utf8 h); [|discriminate].
      destruct (hget k_content_disposition l); [|discriminate].
      destruct (hget k_filename (snd (parse_header b0))); reflexivity.
  Qed.

  (* ---------------- PREAMBLE and DATA share the delimiter search ---------------- *)

  (* outcome of the search when the buffer is a prefix of  x ++ lbs ++ dd ++ A *)
  Lemma delim_search_cases opt x lbs A buf fut :
    has_sub dd x = false ->
    (lbs = CRLF \/ (lbs = [] /\ x = [] /\ opt = true)) ->
    tail_form A ->
    buf ++ fut = x ++ lbs ++ dd ++ A ->
    (search_delim opt dd buf = None /\ fut <> [] /\
       (has_sub dd buf = true -> exists t, buf = x ++ lbs ++ dd ++ t /\ (t = [] \/ t = [DASH])))
    \/ (exists e A', search_delim opt dd buf = Some (length x, e, false) /\ e <= length buf /\ length x < e /\
                     A = CR :: LF :: A' /\ (skipn e buf ++ fut = A' \/ skipn e buf ++ fut = LF :: A') /\
                     has_sub dd buf = true)
    \/ (exists e, search_delim opt dd buf = Some (length x, e, true) /\ e <= length buf /\ length x < e /\
                  (exists e', A = DASH :: DASH :: CR :: LF :: e') /\ has_sub dd buf = true).
  Proof.
    intros Hx Hl F E. unfold search_delim.
    destruct (has_sub dd buf) eqn:Hs.
    - destruct (buffer_has_delim opt x lbs A buf fut Hx Hl E Hs) as [t [Eb Et]].
      destruct (tail_cases A t fut (eq_sym Et) F) as [[T Ht]|[[tl [A' [T [Lt [EA Sk]]]]]|[tl [T Lt]]]].
      + left. rewrite Eb, (search_incomplete b Hb x Hx lbs opt Hl t Ht). split; [reflexivity|]. split.
        * intros ->. rewrite app_nil_r in Et. subst t. destruct (tail_form_not_short A F) as [N1 N2].
          destruct Ht; contradiction.
        * intros _. exists t. split; [reflexivity|exact Ht].
      + right. left. exists (length x + (length lbs + length dd + tl)), A'.
        rewrite Eb at 1. rewrite (search_true b Hb x Hx lbs opt Hl t tl false T).
        split; [reflexivity|].
        assert (Lb : length buf = length x + length lbs + length dd + length t)
          by (rewrite Eb, !app_length; lia).
        split; [lia|]. split; [unfold dashes; cbn [length]; lia|]. split; [exact EA|].
        assert (Sk2 : skipn (length x + (length lbs + length dd + tl)) buf ++ fut = skipn tl A).
        { rewrite <- skipn_app_le by lia. rewrite E.
          replace (x ++ lbs ++ dd ++ A) with ((x ++ lbs ++ dd) ++ A) by (rewrite <- !app_assoc; reflexivity).
          rewrite skipn_app_ge by (rewrite !app_length; lia).
          f_equal. rewrite !app_length. lia. }
        rewrite Sk2. split; [exact Sk|reflexivity].
      + right. right. exists (length x + (length lbs + length dd + tl)).
        rewrite Eb at 1. rewrite (search_true b Hb x Hx lbs opt Hl t tl true T).
        split; [reflexivity|].
        assert (Lb : length buf = length x + length lbs + length dd + length t)
          by (rewrite Eb, !app_length; lia).
        split; [lia|]. split; [unfold dashes; cbn [length]; lia|].
        destruct F as [A'|e'].
        * exfalso. destruct t as [|a t]; [discriminate|]. cbn [app] in Et. injection Et as <- Et.
          destruct t as [|a t]; [discriminate|]. cbn [app] in Et. injection Et as <- Et. discriminate.
        * split; [exists e'; reflexivity|reflexivity].
    - left. destruct (search (match_delim opt dd) buf 0) as [[p a]|] eqn:Es.
      + apply search_delim_has_sub in Es. congruence.
      + split; [reflexivity|]. split; [|discriminate].
        intros ->. rewrite app_nil_r in E. rewrite E in Hs.
        rewrite app_assoc, has_sub_app_mid in Hs. discriminate.
  Qed.

  (* ---------------- the hold-back cut never passes the true delimiter ---------------- *)

  (* hold-back safety, windowed search (no "--boundary" in the buffer) *)
  Lemma data_cut_window c' A buf fut :
    buf ++ fut = c' ++ CRLF ++ dd ++ A ->
    has_sub dd buf = false ->
    last_newline_from (length buf - (length b + 3)) buf <= length c'.
  Proof.
    intros E Hs.
    destruct (app_split buf fut c' (CRLF ++ dd ++ A) E) as [[m [E1 E2]]|[m [E1 [E2 Nm]]]].
    - assert (L := lnf_le (length buf - (length b + 3)) buf).
      assert (length c' = length buf + length m) by (rewrite E1, app_length; reflexivity). lia.
    - replace (CRLF ++ dd ++ A) with ((CRLF ++ dd) ++ A) in E2 by (rewrite <- app_assoc; reflexivity).
      destruct (app_split m fut (CRLF ++ dd) A (eq_sym E2)) as [[m2 [F1 F2]]|[m3 [F1 _]]].
      + destruct m as [|a y]; [contradiction|].
        cbn [CRLF app] in F1. injection F1 as <- F1.
        destruct m2 as [|a2 m2].
        * exfalso. rewrite app_nil_r in F1. subst y. rewrite E1 in Hs.
          replace (c' ++ CR :: LF :: dd) with ((c' ++ [CR; LF]) ++ dd ++ []) in Hs
            by (rewrite <- app_assoc, app_nil_r; reflexivity).
          rewrite has_sub_app_mid in Hs. discriminate.
        * assert (Ly : S (length dd) = length y + S (length m2)).
          { change (S (length dd)) with (length (LF :: dd)). rewrite F1, app_length. reflexivity. }
          rewrite E1. apply lnf_cr.
          -- intros I. assert (I2 : In CR (LF :: dd)) by (rewrite F1; apply in_or_app; left; exact I).
             destruct I2 as [I2|I2]; [discriminate|]. apply (cr_notin_dd b Hb I2).
          -- rewrite app_length. cbn [length]. rewrite (dd_length b) in Ly. lia.
      + exfalso. rewrite E1, F1 in Hs.
        replace (c' ++ (CRLF ++ dd) ++ m3) with ((c' ++ CRLF) ++ dd ++ m3) in Hs
          by (rewrite <- !app_assoc; reflexivity).
        rewrite has_sub_app_mid in Hs. discriminate.
  Qed.

  (* hold-back safety when "--boundary" is in the buffer but its tail is not yet: the pending
     delimiter found is the true one, the cut is exactly the end of the content *)
  Lemma match_pending_some s : match_pending dd s = Some tt ->
    exists l, l <= 2 /\ starts_with dd (skipn l s) = true.
  Proof.
    unfold match_pending. destruct (lb_len s) as [l|] eqn:El; [|discriminate].
    destruct (starts_with dd (skipn l s)) eqn:Es; [|discriminate].
    intros _. exists l. split; [apply (lb_len_le2 s l El)|exact Es].
  Qed.

  Lemma data_cut_incomplete c' t :
    has_sub dd c' = false ->
    t = [] \/ t = [DASH] ->
    pending_cut b (c' ++ CRLF ++ dd ++ t) = length c'.
  Proof.
    intros Hc Ht. unfold pending_cut.
    rewrite (search_some (match_pending dd) _ 0 (length c') tt); [reflexivity| | |].
    - intros j L. destruct (match_pending dd (skipn j (c' ++ CRLF ++ dd ++ t))) as [[]|] eqn:E; [|reflexivity].
      exfalso. apply match_pending_some in E as [l [Ll Hs]]. rewrite skipn_skipn' in Hs.
      apply (occ_ge b Hb c' Hc CRLF false (or_introl eq_refl)) in Hs. cbn [length CRLF] in Hs. lia.
    - rewrite skipn_app_exact. unfold match_pending. cbn [CRLF app]. rewrite lb_len_crlf.
      cbn [skipn plus]. rewrite starts_with_app, skipn_app_exact.
      destruct Ht as [-> | ->]; reflexivity.
    - rewrite app_length. lia.
  Qed.

  (* ---------------- next_event, state by state ---------------- *)

  Definition mk (buf : bytes) (st : dstate) : decoder := {| d_buf := buf; d_state := st; d_complete := false |}.

  Definition data_out (d : decoder) (r : data_result) : event * decoder :=
    match r with
    | More data rest => (match data with [] => ENeed | _ => EData data true end, with_buf d rest DATA)
    | EndPart data rest closing => (EData data false, with_buf d rest (if closing then EPILOGUE else PART))
    end.

  Lemma next_event_data buf : next_event b utf8 (mk buf DATA) = data_out (mk buf DATA) (data_step b buf).
  Proof.
    unfold next_event. cbn [d_state d_buf d_complete mk].
    destruct (data_step b buf) as [data rest|data rest cl]; cbn [data_out]; [|reflexivity].
    destruct data; reflexivity.
  Qed.

  Lemma expected_cons h c r out : expected ((h, c) :: r) ++ out = PDone (part_event utf8 h) c :: expected r ++ out.
  Proof. reflexivity. Qed.

  (* DATA, more_data = True: any cut that does not pass the end of the content *)
  Lemma more_post buf fut acc c' h r cut :
    parts_ok ((h, acc ++ c') :: r) ->
    buf ++ fut = rem_data c' r ->
    cut <= length c' -> cut <= length buf -> fut <> [] ->
    let o := data_out (mk buf DATA) (More (firstn cut buf) (skipn cut buf)) in
    step_post (mk buf DATA) fut (Some (part_event utf8 h, acc)) ((h, acc ++ c') :: r) (fst o) (snd o).
  Proof.
    intros Hok E L1 L2 Nf. cbn [data_out fst snd]. unfold step_post.
    split; [reflexivity|].
    destruct (firstn cut buf) as [|a data'] eqn:Ef.
    - left. split; [reflexivity|]. split.
      + unfold with_buf, mk. cbn [d_complete]. f_equal.
        assert (cut = 0 \/ buf = []) as [-> | ->].
        { destruct cut; [left; reflexivity|]. destruct buf; [right; reflexivity|discriminate]. }
        * reflexivity.
        * apply skipn_nil.
      + intros ->. contradiction.
    - right. split; [reflexivity|]. cbn [with_buf d_buf mk d_state].
      assert (Lc : 0 < cut) by (destruct cut; [discriminate|lia]).
      split; [rewrite skipn_length; lia|].
      exists (Some (part_event utf8 h, acc ++ firstn cut c')), ((h, acc ++ c') :: r).
      split; [exact Hok|]. split.
      + apply (InvData _ (acc ++ firstn cut c') (skipn cut c')).
        * rewrite <- app_assoc, firstn_skipn. reflexivity.
        * unfold rem_data in *. apply (skipn_agree buf fut c' _ cut E L2 L1).
      + intros tail out Ht. rewrite <- Ef.
        rewrite (firstn_agree buf fut c' _ cut E L2 L1).
        cbn [collect]. exact Ht.
  Qed.

  Lemma step_data buf fut cur ps :
    parts_ok ps -> Inv DATA (buf ++ fut) cur ps ->
    step_post (mk buf DATA) fut cur ps (fst (next_event b utf8 (mk buf DATA))) (snd (next_event b utf8 (mk buf DATA))).
  Proof.
    intros Hok HI. rewrite next_event_data.
    inversion HI as [| |W acc c' h c r Ec EW|]; subst.
    destruct (parts_ok_cons _ _ _ Hok) as [Hh [Hc Hr]].
    assert (Hc' : has_sub dd c' = false).
    { rewrite <- (skipn_app_exact acc c'). apply has_sub_false_suffix. exact Hc. }
    unfold rem_data in EW.
    destruct (delim_search_cases false c' CRLF (after_delim b r epi) buf fut Hc' (or_introl eq_refl)
                (after_delim_form b r epi) EW)
      as [[Hn [Nf Hh']]|[[e [A' [Hs [Le [Lx [EA [Sk Hsub]]]]]]]|[e [Hs [Le [Lx [[e' EA] Hsub]]]]]]].
    - (* no complete delimiter in the buffer *)
      unfold data_step. rewrite Hn.
      destruct (has_sub dd buf) eqn:Hsub; cbn [negb].
      + destruct (Hh' eq_refl) as [t [Eb Ht]].
        apply more_post; try assumption.
        * rewrite Eb, (data_cut_incomplete c' t Hc' Ht). lia.
        * rewrite Eb at 1. rewrite (data_cut_incomplete c' t Hc' Ht). rewrite Eb, app_length. lia.
      + apply more_post; try assumption.
        * apply (data_cut_window c' _ buf fut EW Hsub).
        * apply lnf_le.
    - (* the delimiter of the next part *)
      unfold data_step. rewrite Hsub, Hs. cbn [negb data_out fst snd].
      unfold step_post. split; [reflexivity|]. right. split; [reflexivity|].
      cbn [with_buf d_buf d_state mk].
      split; [rewrite skipn_length; lia|].
      destruct r as [|[h2 c2] r2]; [rewrite after_delim_nil in EA; discriminate|].
      rewrite after_delim_cons in EA. injection EA as EA.
      exists None, ((h2, c2) :: r2). split; [exact Hr|]. split.
      + destruct Sk as [Sk|Sk]; rewrite Sk, <- EA.
        * apply (InvPart _ [] h2 c2 r2); [left; reflexivity|reflexivity].
        * apply (InvPart _ [LF] h2 c2 r2); [right; reflexivity|reflexivity].
      + intros tail out Ht.
        rewrite (firstn_agree buf fut c' _ (length c') EW) by lia.
        rewrite firstn_all. cbn [collect]. rewrite Ht. reflexivity.
    - (* the closing delimiter *)
      unfold data_step. rewrite Hsub, Hs. cbn [negb data_out fst snd].
      unfold step_post. split; [reflexivity|]. right. split; [reflexivity|].
      cbn [with_buf d_buf d_state mk].
      split; [rewrite skipn_length; lia|].
      destruct r as [|[h2 c2] r2]; [|rewrite after_delim_cons in EA; discriminate].
      exists None, []. split; [reflexivity|]. split; [apply InvEpi|].
      intros tail out Ht.
      rewrite (firstn_agree buf fut c' _ (length c') EW) by lia.
      rewrite firstn_all. cbn [collect]. rewrite Ht. reflexivity.
  Qed.

  Lemma step_preamble buf fut cur ps :
    parts_ok ps -> Inv PREAMBLE (buf ++ fut) cur ps ->
    step_post (mk buf PREAMBLE) fut cur ps (fst (next_event b utf8 (mk buf PREAMBLE)))
              (snd (next_event b utf8 (mk buf PREAMBLE))).
  Proof.
    intros Hok HI.
    inversion HI as [W pre lbs ps' Hpre Hl EW| | |]; subst.
    assert (Hl' : lbs = CRLF \/ (lbs = [] /\ pre = [] /\ true = true)).
    { destruct Hl as [Hl|[Hl1 Hl2]]; [left; exact Hl|right; repeat split; assumption]. }
    destruct (delim_search_cases true pre lbs (after_delim b ps epi) buf fut Hpre Hl'
                (after_delim_form b ps epi) EW)
      as [[Hn [Nf _]]|[[e [A' [Hs [Le [Lx [EA [Sk _]]]]]]]|[e [Hs [Le [Lx [[e' EA] _]]]]]]];
      unfold next_event; cbn [d_state d_buf d_complete mk]; rewrite ?Hn, ?Hs; cbn [fst snd];
      unfold step_post.
    - split; [reflexivity|]. left. split; [reflexivity|]. split; [reflexivity|]. intros ->. contradiction.
    - split; [reflexivity|]. right. split; [reflexivity|].
      cbn [with_buf d_buf d_state mk].
      split; [rewrite skipn_length; lia|].
      destruct ps as [|[h2 c2] r2]; [rewrite after_delim_nil in EA; discriminate|].
      rewrite after_delim_cons in EA. injection EA as EA.
      exists None, ((h2, c2) :: r2). split; [exact Hok|]. split.
      + destruct Sk as [Sk|Sk]; rewrite Sk, <- EA.
        * apply (InvPart _ [] h2 c2 r2); [left; reflexivity|reflexivity].
        * apply (InvPart _ [LF] h2 c2 r2); [right; reflexivity|reflexivity].
      + intros tail out Ht. cbn [collect]. exact Ht.
    - split; [reflexivity|]. right. split; [reflexivity|].
      cbn [with_buf d_buf d_state mk].
      split; [rewrite skipn_length; lia|].
      destruct ps as [|[h2 c2] r2]; [|rewrite after_delim_cons in EA; discriminate].
      exists None, []. split; [reflexivity|]. split; [apply InvEpi|].
      intros tail out Ht. cbn [collect]. exact Ht.
  Qed.

  (* ---------------- PART ---------------- *)

  Lemma blank_search_cases u Z buf fut :
    search blank_len (u ++ [CR; LF; CR]) 0 = None ->
    buf ++ fut = u ++ [CR; LF; CR; LF] ++ Z ->
    (search_blank buf = None /\ fut <> [])
    \/ (search_blank buf = Some (length u, length u + 4) /\ length u + 4 <= length buf /\
        skipn (length u + 4) buf ++ fut = Z /\ firstn (length u) buf = u).
  Proof.
    intros Hn E. unfold search_blank.
    assert (found : forall m, buf = u ++ [CR; LF; CR; LF] ++ m -> Z = m ++ fut ->
       search blank_len buf 0 = Some (length u, 4) /\ length u + 4 <= length buf /\
        skipn (length u + 4) buf ++ fut = Z /\ firstn (length u) buf = u).
    { intros m -> ->. split; [apply search_blank_found; exact Hn|].
      split; [rewrite !app_length; cbn [length]; lia|]. split.
      - rewrite app_assoc. rewrite skipn_app_ge by (rewrite app_length; cbn [length]; lia).
        rewrite app_length. cbn [length]. replace (length u + 4 - (length u + 4)) with 0 by lia. reflexivity.
      - apply firstn_app_exact. }
    rewrite app_assoc in E.
    destruct (app_split buf fut (u ++ [CR; LF; CR; LF]) Z E) as [[m [E1 E2]]|[m [E1 [E2 _]]]].
    - destruct m as [|a m] using rev_ind.
      + right. rewrite app_nil_r in E1. cbn [app] in E2. subst fut.
        destruct (found [] ltac:(rewrite app_nil_r; symmetry; exact E1) eq_refl) as [F1 F2].
        rewrite F1. split; [reflexivity|exact F2].
      + left. clear IHm.
        replace (u ++ [CR; LF; CR; LF]) with ((u ++ [CR; LF; CR]) ++ [LF]) in E1
          by (rewrite <- app_assoc; reflexivity).
        rewrite app_assoc in E1. apply app_inj_tail in E1 as [E1 _].
        rewrite E1 in Hn. rewrite (search_blank_prefix buf m 0 Hn).
        split; [reflexivity|]. rewrite E2. intros N. destruct m; discriminate.
    - right. rewrite <- app_assoc in E1.
      destruct (found m E1 E2) as [F1 F2]. rewrite F1. split; [reflexivity|exact F2].
  Qed.

  (* a stray LF in front of the header block (a CRLF of the delimiter split by a chunk edge) is not seen *)
  Lemma parse_part_stray h : head_not_sptab h = true -> parse_part utf8 (LF :: h) = parse_part utf8 h.
  Proof.
    intros Hh. unfold parse_part, parse_headers, header_items.
    assert (E : fold_left (header_line utf8) (splitlines (unfold_continuations (LF :: h))) (Some []) =
                fold_left (header_line utf8) (splitlines (unfold_continuations h)) (Some [])).
    { destruct h as [|y r].
      - reflexivity.
      - cbn [head_not_sptab] in Hh. apply negb_true_iff in Hh.
        change (unfold_continuations (LF :: y :: r)) with
          (if is_sptab y then SP :: unfold_continuations r else LF :: unfold_continuations (y :: r)).
        rewrite Hh. reflexivity. }
    rewrite E. reflexivity.
  Qed.

  Lemma wrap_cont ev (c : bool) (d' : decoder) : is_cont ev = true ->
    match ev with
    | ENeed => if c then (EMalformed, d') else (ENeed, d')
    | _ => (ev, d')
    end = (ev, d').
  Proof. destruct ev; try discriminate; reflexivity. Qed.

  Lemma step_part buf fut cur ps :
    parts_ok ps -> Inv PART (buf ++ fut) cur ps ->
    step_post (mk buf PART) fut cur ps (fst (next_event b utf8 (mk buf PART))) (snd (next_event b utf8 (mk buf PART))).
  Proof.
    intros Hok HI.
    inversion HI as [|W s h c r Hs EW| |]; subst.
    destruct (parts_ok_cons _ _ _ Hok) as [Hh [Hc Hr]].
    destruct (hdr_ok_parts h Hh) as [Hnb [Hsp [Hpp Hpe]]].
    assert (Hcont : is_cont (part_event utf8 h) = true) by (destruct (part_event utf8 h); try discriminate; reflexivity).
    assert (Hn : search blank_len ((s ++ h) ++ [CR; LF; CR]) 0 = None).
    { apply no_blank_search in Hnb. destruct Hs as [-> | ->]; cbn [app].
      - apply (search_none_tail blank_len LF _ 0 Hnb).
      - exact Hnb. }
    assert (Hp : parse_part utf8 (s ++ h) = PEvent (part_event utf8 h)).
    { destruct Hs as [-> | ->]; cbn [app]; [exact Hpp|]. rewrite parse_part_stray by exact Hsp. exact Hpp. }
    destruct (blank_search_cases (s ++ h) (rem_data c r) buf fut Hn EW) as [[Sn Nf]|[Sf [Le [Sk Fi]]]];
      unfold next_event; cbn [d_state d_buf d_complete mk]; rewrite ?Sn, ?Sf; cbn [fst snd]; unfold step_post.
    - split; [reflexivity|]. left. split; [reflexivity|]. split; [reflexivity|]. intros ->. contradiction.
    - rewrite Fi, Hp. cbn [d_complete mk]. rewrite (wrap_cont _ false _ Hcont). cbn [fst snd].
      split; [reflexivity|]. right. split; [exact Hcont|].
      cbn [with_buf d_buf d_state mk].
      split; [rewrite skipn_length; lia|].
      exists (Some (part_event utf8 h, [])), ((h, c) :: r). split; [exact Hok|]. split.
      + rewrite Sk. apply (InvData _ [] c h c r); reflexivity.
      + intros tail out Ht. destruct (part_event utf8 h); try discriminate Hpe; cbn [collect app]; exact Ht.
  Qed.

  Lemma step_ok d fut cur ps :
    d_complete d = false -> parts_ok ps -> Inv (d_state d) (d_buf d ++ fut) cur ps ->
    step_post d fut cur ps (fst (next_event b utf8 d)) (snd (next_event b utf8 d)).
  Proof.
    destruct d as [buf st cpl]. cbn [d_complete d_state d_buf]. intros -> Hok HI.
    change {| d_buf := buf; d_state := st; d_complete := false |} with (mk buf st).
    destruct st.
    - apply step_preamble; assumption.
    - apply step_part; assumption.
    - apply step_data; assumption.
    - unfold step_post. cbn. split; [reflexivity|]. left. repeat split; reflexivity.
    - inversion HI.
  Qed.

End Steps.

(* ================================================================ 5. drain, the chunks, the theorem *)

Section Run.
  Variable b : bytes.
  Variable utf8 : bool.
  Variable epi : bytes.
  Hypothesis Hb : no_crlf b = true.

  Local Notation Inv := (Inv b utf8 epi).
  Local Notation parts_ok := (parts_ok b utf8).
  Local Notation expected := (expected utf8).

  Lemma drain_cont k d ev d' :
    next_event b utf8 d = (ev, d') -> is_cont ev = true ->
    drain (S k) b utf8 d = (ev :: fst (drain k b utf8 d'), snd (drain k b utf8 d')).
  Proof.
    intros En Hc. cbn [drain]. rewrite En.
    destruct ev; try discriminate; destruct (drain k b utf8 d'); reflexivity.
  Qed.

  Lemma drain_need k d d' : next_event b utf8 d = (ENeed, d') -> drain (S k) b utf8 d = ([], d').
  Proof. intros En. cbn [drain]. rewrite En. reflexivity. Qed.

  Lemma drain_ok : forall fuel d fut cur ps,
    length (d_buf d) < fuel -> d_complete d = false -> parts_ok ps ->
    Inv (d_state d) (d_buf d ++ fut) cur ps ->
    exists cur' ps',
      d_complete (snd (drain fuel b utf8 d)) = false /\ parts_ok ps' /\
      Inv (d_state (snd (drain fuel b utf8 d))) (d_buf (snd (drain fuel b utf8 d)) ++ fut) cur' ps' /\
      existsb is_malformed (fst (drain fuel b utf8 d)) = false /\
      (forall tail out, collect tail cur' = expected ps' ++ out ->
                        collect (fst (drain fuel b utf8 d) ++ tail) cur = expected ps ++ out) /\
      (fut = [] -> d_state (snd (drain fuel b utf8 d)) = EPILOGUE).
  Proof.
    induction fuel as [|k IH]; intros d fut cur ps Lf Hc Hok HI; [lia|].
    assert (P := step_ok b utf8 epi Hb d fut cur ps Hc Hok HI).
    destruct (next_event b utf8 d) as [ev d'] eqn:En. cbn [fst snd] in P.
    destruct P as [Hc' [[-> [-> Hprog]]|[Hcont [Ll [cur' [ps' [Hok' [HI' Hcol]]]]]]]].
    - rewrite (drain_need k d d En). cbn [fst snd].
      exists cur, ps. repeat split; try assumption.
      intros tail out Ht. exact Ht.
    - rewrite (drain_cont k d ev d' En Hcont). cbn [fst snd].
      destruct (IH d' fut cur' ps' ltac:(lia) Hc' Hok' HI') as [cur2 [ps2 [C2 [Ok2 [I2 [M2 [Col2 Pr2]]]]]]].
      exists cur2, ps2. repeat split; try assumption.
      + cbn [existsb]. rewrite M2. destruct ev; try discriminate; reflexivity.
      + intros tail out Ht. cbn [app]. apply Hcol. apply Col2. exact Ht.
  Qed.

  Fixpoint final_dec (d : decoder) (chunks : list bytes) : decoder :=
    match chunks with
    | [] => d
    | c :: r => final_dec (snd (step_chunk b utf8 d (Some c))) r
    end.

  Lemma chunk_events_cons d c r :
    chunk_events b utf8 d (c :: r) =
    fst (step_chunk b utf8 d (Some c)) ++ chunk_events b utf8 (snd (step_chunk b utf8 d (Some c))) r.
  Proof. cbn [chunk_events]. destruct (step_chunk b utf8 d (Some c)). reflexivity. Qed.

  Lemma inv_epilogue W cur ps : Inv EPILOGUE W cur ps -> cur = None /\ ps = [].
  Proof. intros H. inversion H. split; reflexivity. Qed.

  Lemma chunks_ok : forall chunks d cur ps,
    d_complete d = false -> parts_ok ps ->
    Inv (d_state d) (d_buf d ++ concat chunks) cur ps ->
    (chunks = [] -> d_state d = EPILOGUE) ->
    d_complete (final_dec d chunks) = false /\ d_state (final_dec d chunks) = EPILOGUE /\
    existsb is_malformed (chunk_events b utf8 d chunks) = false /\
    forall tail, collect (chunk_events b utf8 d chunks ++ tail) cur = expected ps ++ collect tail None.
  Proof.
    induction chunks as [|c r IH]; intros d cur ps Hc Hok HI He.
    - cbn [final_dec chunk_events existsb app]. specialize (He eq_refl). rewrite He in HI.
      destruct (inv_epilogue _ _ _ HI) as [-> ->]. repeat split; try assumption. 
    - cbn [concat] in HI. cbn [final_dec]. rewrite chunk_events_cons.
      change (step_chunk b utf8 d (Some c)) with
        (drain (drain_fuel (receive d (Some c))) b utf8 (receive d (Some c))).
      set (d1 := receive d (Some c)).
      assert (B1 : d_buf d1 = d_buf d ++ c) by reflexivity.
      assert (S1 : d_state d1 = d_state d) by reflexivity.
      assert (C1 : d_complete d1 = false) by exact Hc.
      assert (I1 : Inv (d_state d1) (d_buf d1 ++ concat r) cur ps).
      { rewrite S1, B1, <- app_assoc. exact HI. }
      destruct (drain_ok (drain_fuel d1) d1 (concat r) cur ps ltac:(unfold drain_fuel; lia) C1 Hok I1)
        as [cur2 [ps2 [C2 [Ok2 [I2 [M2 [Col2 Pr2]]]]]]].
      assert (He2 : r = [] -> d_state (snd (drain (drain_fuel d1) b utf8 d1)) = EPILOGUE).
      { intros ->. apply Pr2. reflexivity. }
      destruct (IH _ cur2 ps2 C2 Ok2 I2 He2) as [Cf [Sf [Mf Colf]]].
      repeat split; try assumption.
      + rewrite existsb_app, M2, Mf. reflexivity.
      + intros tail. rewrite <- app_assoc. apply Col2. apply Colf.
  Qed.

  Lemma run_chunks_events : forall chunks d,
    existsb is_malformed (chunk_events b utf8 d chunks) = false ->
    all_events (run_chunks b utf8 d chunks) =
    chunk_events b utf8 d chunks ++ fst (step_chunk b utf8 (final_dec d chunks) None).
  Proof.
    induction chunks as [|c r IH]; intros d Hm.
    - cbn [run_chunks all_events flat_map chunk_events final_dec app]. apply app_nil_r.
    - rewrite chunk_events_cons in *. cbn [run_chunks final_dec].
      destruct (step_chunk b utf8 d (Some c)) as [evs d2]. cbn [fst snd] in *.
      rewrite existsb_app in Hm. apply orb_false_iff in Hm as [Hm1 Hm2].
      rewrite Hm1. unfold all_events in *. cbn [flat_map fst]. rewrite (IH d2 Hm2), app_assoc. reflexivity.
  Qed.

  Lemma end_of_input d :
    d_state d = EPILOGUE -> d_complete d = false ->
    fst (step_chunk b utf8 d None) = [EEpilogue (d_buf d)].
  Proof.
    intros Hs Hc. unfold step_chunk, drain_fuel.
    replace (2 * length (d_buf (receive d None)) + 4) with (S (2 * length (d_buf (receive d None)) + 3)) by lia.
    cbn [drain]. unfold next_event. cbn [receive d_state d_buf d_complete]. rewrite Hs. reflexivity.
  Qed.

End Run.

Theorem decode_framing_proof : decode_framing_statement.
Proof.
  intros b utf8 pre first_crlf ps epi chunks Hwf Hbody.
  unfold wf_form in Hwf.
  apply andb_true_iff in Hwf as [Hwf Hps]. apply andb_true_iff in Hwf as [Hwf Hfc].
  apply andb_true_iff in Hwf as [Hb Hpre]. apply negb_true_iff in Hpre.
  assert (HI : Inv b utf8 epi (d_state new_decoder) (d_buf new_decoder ++ concat chunks) None ps).
  { cbn [new_decoder d_state d_buf app]. rewrite Hbody. unfold encode_body.
    apply (InvPre b utf8 epi _ pre (if first_crlf then CRLF else []) ps Hpre); [|reflexivity].
    destruct first_crlf; [left; reflexivity|]. right. split; [reflexivity|].
    destruct pre; [reflexivity|discriminate]. }
  assert (He : chunks = [] -> d_state new_decoder = EPILOGUE).
  { intros ->. exfalso. cbn [concat] in Hbody. unfold encode_body in Hbody.
    destruct pre; [|discriminate]. destruct first_crlf; discriminate. }
  destruct (chunks_ok b utf8 epi Hb chunks new_decoder None ps eq_refl Hps HI He) as [Cf [Sf [Mf Col]]].
  split.
  - rewrite (run_chunks_events b utf8 chunks new_decoder Mf).
    rewrite (end_of_input b utf8 _ Sf Cf). rewrite Col. reflexivity.
  - rewrite <- (app_nil_r (chunk_events b utf8 new_decoder chunks)), Col. cbn [collect]. apply app_nil_r.
Qed.

(* the two key lemmas, in the form of DESIGN.md *)

(* hold-back safety: while the buffer holds no "--boundary", the cut of the windowed search never passes
   the end of the content, whatever the future bytes are *)
Lemma hold_back_safety b c A buf fut :
  no_crlf b = true ->
  buf ++ fut = c ++ CRLF ++ dashes b ++ A ->
  has_sub (dashes b) buf = false ->
  last_newline_from (length buf - (length b + 3)) buf <= length c.
Proof. intros Hb. apply data_cut_window. exact Hb. Qed.


(* leftmost = true: content free of "--boundary" makes the leftmost match of the delimiter pattern the real one *)
Lemma leftmost_is_true b c t tl cl :
  no_crlf b = true -> has_sub (dashes b) c = false -> tail_match t = Some (tl, cl) ->
  search_delim false (dashes b) (c ++ CRLF ++ dashes b ++ t) = Some (length c, length c + (2 + length (dashes b) + tl), cl).
Proof.
  intros Hb Hc T. unfold search_delim.
  rewrite (search_true b Hb c Hc CRLF false (or_introl eq_refl) t tl cl T). reflexivity.
Qed.

(* hold-back safety, second case (repair 0030): "--boundary" has arrived but the rest of the delimiter
   line has not — the pending delimiter found is the true one and the cut is the end of the content *)
Lemma pending_is_true b c t :
  no_crlf b = true -> has_sub (dashes b) c = false -> t = [] \/ t = [DASH] ->
  pending_cut b (c ++ CRLF ++ dashes b ++ t) = length c.
Proof. intros Hb. apply data_cut_incomplete. exact Hb. Qed.
