From Coq Require Import List NArith Bool Arith Lia.
From Baize Require Import Lib.Wire Lib.Order C01.Model C01.Spec.
Import ListNotations.

(* C01 — the helper fold over an event sequence whose parts are all complete. *)

Notation PD := (fun p : event * bytes => PDone (fst p) (snd p)).

(* ---------- helper_events over a concatenation ---------- *)

Lemma helper_events_app : forall utf8 mp mm a h b,
  helper_events utf8 mp mm h (a ++ b) =
  match helper_events utf8 mp mm h a with
  | inl h' => helper_events utf8 mp mm h' b
  | inr o => inr o
  end.
Proof.
  intros utf8 mp mm a. induction a as [|ev a IH]; intros h b.
  - reflexivity.
  - cbn [app helper_events].
    destruct (helper_event utf8 mp mm h ev) as [h1|o].
    + apply IH.
    + reflexivity.
Qed.

Lemma parse_stream_aux_events : forall b utf8 mp mm chunks d h,
  parse_stream_aux b utf8 mp mm d h chunks =
  match helper_events utf8 mp mm h (chunk_events b utf8 d chunks) with
  | inl h' => HItems (h_items h')
  | inr o => o
  end.
Proof.
  intros b utf8 mp mm chunks. induction chunks as [|c r IH]; intros d h.
  - reflexivity.
  - cbn [parse_stream_aux chunk_events].
    destruct (step_chunk b utf8 d (Some c)) as [evs d2].
    rewrite helper_events_app.
    destruct (helper_events utf8 mp mm h evs) as [h1|o].
    + apply IH.
    + reflexivity.
Qed.

(* ---------- collect's accumulator against the helper's state ---------- *)

Definition rel (cur : option (event * bytes)) (h : hstate) : Prop :=
  match cur with
  | None => h_file h = None /\ h_data h = []
  | Some (EField n _, acc) => h_file h = None /\ h_data h = acc /\ h_name h = n
  | Some (EFile n fn hs, acc) => h_file h = Some (fn, hs, acc) /\ h_data h = [] /\ h_name h = n
  | Some _ => False
  end.

Definition pending (cur : option (event * bytes)) : nat :=
  match cur with
  | Some (EField _ _, acc) => length acc
  | _ => 0
  end.

Definition mem_inv (mm : option nat) (cur : option (event * bytes)) (h : hstate)
  (dones : list (event * bytes)) : Prop :=
  match mm with
  | Some m => h_mem h + field_bytes dones <= m + pending cur
  | None => True
  end.

Lemma field_bytes_cons : forall p dones,
  field_bytes (p :: dones) = (if is_field (fst p) then length (snd p) else 0) + field_bytes dones.
Proof. reflexivity. Qed.

(* an open part ends up at the head of the completed parts, its content extended *)
Lemma collect_some_head : forall evs hev acc dones,
  collect evs (Some (hev, acc)) = map PD dones ->
  exists rest dones', dones = (hev, acc ++ rest) :: dones'.
Proof.
  induction evs as [|ev r IH]; intros hev acc dones Hc.
  - cbn in Hc. destruct dones; discriminate.
  - destruct ev as [pre|n hs|n fn hs|d more|epi| |]; cbn [collect app] in Hc.
    + eauto.
    + destruct dones; discriminate.
    + destruct dones; discriminate.
    + destruct more.
      * apply IH in Hc. destruct Hc as (rest & dones' & ->).
        exists (d ++ rest), dones'. now rewrite app_assoc.
      * destruct dones as [|[e c] dones']; [discriminate|].
        cbn in Hc. injection Hc as <- <- _.
        eauto.
    + destruct dones; discriminate.
    + eauto.
    + destruct dones; discriminate.
Qed.

Lemma collect_field_bound : forall evs n hs acc dones,
  collect evs (Some (EField n hs, acc)) = map PD dones ->
  length acc <= field_bytes dones.
Proof.
  intros evs n hs acc dones Hc.
  apply collect_some_head in Hc. destruct Hc as (rest & dones' & ->).
  rewrite field_bytes_cons. cbn [fst snd is_field]. rewrite app_length. lia.
Qed.

(* ---------- single steps of the helper ---------- *)

Lemma he_field_data : forall utf8 mp mm h d more,
  h_file h = None ->
  match mm with Some m => h_mem h + length d <= m | None => True end ->
  (more = false -> S (h_parts h) <= mp) ->
  helper_event utf8 mp mm h (EData d more) =
  inl (if more then
         {| h_name := h_name h; h_data := h_data h ++ d; h_file := None;
            h_parts := h_parts h; h_mem := h_mem h + length d; h_items := h_items h |}
       else
         {| h_name := h_name h; h_data := []; h_file := None; h_parts := S (h_parts h);
            h_mem := h_mem h + length d;
            h_items := h_items h ++ [IText (h_name h) (safe_decode utf8 (h_data h ++ d))] |}).
Proof.
  intros utf8 mp mm h d more Hf Hm Hp.
  unfold helper_event. rewrite Hf.
  assert (Hchk : match mm with Some m => Nat.ltb m (h_mem h + length d) | None => false end = false).
  { destruct mm as [m|]; [|reflexivity]. apply Nat.ltb_ge. exact Hm. }
  rewrite Hchk.
  destruct more; [reflexivity|].
  cbn [h_file h_parts h_name h_data h_mem h_items].
  assert (Hp' : Nat.ltb mp (S (h_parts h)) = false) by (apply Nat.ltb_ge; auto).
  rewrite Hp'. reflexivity.
Qed.

Lemma he_file_data : forall utf8 mp mm h fn hs w d more,
  h_file h = Some (fn, hs, w) ->
  (more = false -> S (h_parts h) <= mp) ->
  helper_event utf8 mp mm h (EData d more) =
  inl (if more then
         {| h_name := h_name h; h_data := h_data h; h_file := Some (fn, hs, w ++ d);
            h_parts := h_parts h; h_mem := h_mem h; h_items := h_items h |}
       else
         {| h_name := h_name h; h_data := h_data h; h_file := None; h_parts := S (h_parts h);
            h_mem := h_mem h;
            h_items := h_items h ++ [IFile (h_name h) fn hs (w ++ d)] |}).
Proof.
  intros utf8 mp mm h fn hs w d more Hf Hp.
  unfold helper_event. rewrite Hf.
  destruct more; [reflexivity|].
  cbn [h_file h_parts h_name h_data h_mem h_items].
  assert (Hp' : Nat.ltb mp (S (h_parts h)) = false) by (apply Nat.ltb_ge; auto).
  rewrite Hp'. reflexivity.
Qed.

(* ---------- the core ---------- *)

Lemma helper_events_collect : forall utf8 mp mm evs cur h dones,
  rel cur h ->
  collect evs cur = map PD dones ->
  h_parts h + length dones <= mp ->
  mem_inv mm cur h dones ->
  exists h', helper_events utf8 mp mm h evs = inl h' /\
             h_items h' = h_items h ++ map (fun p => item_of utf8 (fst p) (snd p)) dones.
Proof.
  intros utf8 mp mm evs. induction evs as [|ev r IH]; intros cur h dones Hrel Hc Hp Hm.
  - (* end of the events *)
    destruct cur as [[hev acc]|]; cbn [collect] in Hc.
    + destruct dones; discriminate.
    + destruct dones; [|discriminate].
      exists h. split; [reflexivity|]. cbn [map]. now rewrite app_nil_r.
  - destruct ev as [pre|n hs|n fn hs|d more|epi| |].
    + (* EPreamble *)
      cbn [collect] in Hc. cbn [helper_events helper_event]. eapply IH; eauto.
    + (* EField *)
      destruct cur as [[hev acc]|]; cbn [collect app] in Hc.
      { destruct dones; discriminate. }
      cbn [helper_events helper_event].
      destruct Hrel as [Hf Hd].
      eapply IH in Hc.
      * destruct Hc as (h' & He & Hi). exists h'. split; [exact He|]. exact Hi.
      * cbn [rel h_file h_data h_name]. auto.
      * cbn [h_parts]. exact Hp.
      * unfold mem_inv in *. destruct mm as [m|]; [|exact I].
        cbn [h_mem pending length] in *. lia.
    + (* EFile *)
      destruct cur as [[hev acc]|]; cbn [collect app] in Hc.
      { destruct dones; discriminate. }
      cbn [helper_events helper_event].
      destruct Hrel as [Hf Hd].
      eapply IH in Hc.
      * destruct Hc as (h' & He & Hi). exists h'. split; [exact He|]. exact Hi.
      * cbn [rel h_file h_data h_name]. auto.
      * cbn [h_parts]. exact Hp.
      * unfold mem_inv in *. destruct mm as [m|]; [|exact I].
        cbn [h_mem pending] in *. lia.
    + (* EData *)
      destruct cur as [[hev acc]|]; cbn [collect] in Hc.
      2:{ destruct dones; discriminate. }
      destruct hev as [?|n hs|n fn hs|?|?| |]; cbn [rel] in Hrel; try contradiction.
      * (* a field is open *)
        destruct Hrel as (Hf & Hd & Hn).
        assert (Hb : length acc + length d <= field_bytes dones /\
                     (more = false -> 1 <= length dones)).
        { destruct more.
          - apply collect_field_bound in Hc. rewrite app_length in Hc.
            split; [exact Hc|discriminate].
          - destruct dones as [|[e c] dones']; [discriminate|].
            cbn [map fst snd] in Hc. injection Hc as <- <- _.
            rewrite field_bytes_cons. cbn [fst snd is_field length]. rewrite app_length.
            split; [lia|intros _; lia]. }
        destruct Hb as [Hb Hl].
        cbn [helper_events].
        rewrite he_field_data.
        2: exact Hf.
        2:{ unfold mem_inv in Hm. destruct mm as [m|]; [|exact I].
            cbn [pending] in Hm. lia. }
        2:{ intros E. specialize (Hl E). lia. }
        destruct more.
        -- eapply IH in Hc.
           ++ destruct Hc as (h' & He & Hi). exists h'. split; [exact He|exact Hi].
           ++ cbn [rel h_file h_data h_name]. rewrite Hd. auto.
           ++ cbn [h_parts]. exact Hp.
           ++ unfold mem_inv in *. destruct mm as [m|]; [|exact I].
              cbn [h_mem pending] in *. rewrite app_length. lia.
        -- destruct dones as [|[e c] dones']; [discriminate|].
           cbn [map fst snd] in Hc. injection Hc as <- <- Hc.
           eapply IH in Hc.
           ++ destruct Hc as (h' & He & Hi). exists h'. split; [exact He|].
              rewrite Hi. cbn [h_items map fst snd item_of].
              rewrite <- app_assoc. cbn [app]. rewrite Hd, Hn. reflexivity.
           ++ cbn [rel h_file h_data]. auto.
           ++ cbn [h_parts length] in *. lia.
           ++ unfold mem_inv in *. destruct mm as [m|]; [|exact I].
              rewrite field_bytes_cons in Hm.
              cbn [h_mem pending fst snd is_field] in *. rewrite app_length in Hm. lia.
      * (* a file is open *)
        destruct Hrel as (Hf & Hd & Hn).
        assert (Hl : more = false -> 1 <= length dones).
        { intros ->. destruct dones; [discriminate|]. cbn [length]. lia. }
        cbn [helper_events].
        erewrite he_file_data.
        2: exact Hf.
        2:{ intros E. specialize (Hl E). lia. }
        destruct more.
        -- eapply IH in Hc.
           ++ destruct Hc as (h' & He & Hi). exists h'. split; [exact He|exact Hi].
           ++ cbn [rel h_file h_data h_name]. auto.
           ++ cbn [h_parts]. exact Hp.
           ++ unfold mem_inv in *. destruct mm as [m|]; [|exact I].
              cbn [h_mem pending] in *. lia.
        -- destruct dones as [|[e c] dones']; [discriminate|].
           cbn [map fst snd] in Hc. injection Hc as <- <- Hc.
           eapply IH in Hc.
           ++ destruct Hc as (h' & He & Hi). exists h'. split; [exact He|].
              rewrite Hi. cbn [h_items map fst snd item_of].
              rewrite <- app_assoc. cbn [app]. rewrite Hn. reflexivity.
           ++ cbn [rel h_file h_data]. auto.
           ++ cbn [h_parts length] in *. lia.
           ++ unfold mem_inv in *. destruct mm as [m|]; [|exact I].
              rewrite field_bytes_cons in Hm.
              cbn [h_mem pending fst snd is_field] in *. lia.
    + (* EEpilogue *)
      destruct cur as [[hev acc]|]; cbn [collect app] in Hc; destruct dones; discriminate.
    + (* ENeed *)
      cbn [collect] in Hc. cbn [helper_events helper_event]. eapply IH; eauto.
    + (* EMalformed *)
      destruct cur as [[hev acc]|]; cbn [collect app] in Hc; destruct dones; discriminate.
Qed.

(* ---------- the statement of Spec.v ---------- *)

Theorem helper_of_collect_proof : helper_of_collect_statement.
Proof.
  unfold helper_of_collect_statement.
  intros b utf8 max_parts max_mem chunks dones Hc _ Hp Hm.
  unfold parse_stream. rewrite parse_stream_aux_events.
  destruct (helper_events_collect utf8 max_parts max_mem
              (chunk_events b utf8 new_decoder chunks) None h_init dones) as (h' & He & Hi).
  - cbn. auto.
  - exact Hc.
  - cbn [h_init h_parts]. lia.
  - unfold mem_inv, mem_ok in *. destruct max_mem as [m|]; [|exact I].
    cbn [h_init h_mem pending]. lia.
  - rewrite He, Hi. reflexivity.
Qed.
