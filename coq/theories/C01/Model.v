(* C01 / C15 — model of the streaming multipart decoder (baize/multipart.py), of
   parse_header (baize/utils.py), of Headers (baize/datastructures.py) and of the
   stream helpers parse_stream / parse_async_stream (baize/multipart_helper.py; the
   two copies are each compared against this one model).  Bytes and text are lists
   of N (byte values, resp. code points).

   The matchers are written with explicit equality tests ([starts_with] on constant
   strings) instead of pattern matching on numerals: the same functions, in the form
   that the proofs can take apart.  Fidelity is established by the correspondence
   check, not by resemblance to the Python text. *)
From Coq Require Import List NArith Bool Arith.
From Baize Require Import Lib.Wire Lib.Order.
Import ListNotations.

Definition bytes := list N.
Definition CR : N := 13%N.
Definition LF : N := 10%N.
Definition DASH : N := 45%N.
Definition SP : N := 32%N.
Definition COLON : N := 58%N.
Definition SEMI : N := 59%N.
Definition EQUALS : N := 61%N.
Definition DQUOTE : N := 34%N.
Definition BSLASH : N := 92%N.
Definition CRLF : bytes := [CR; LF].

(* ---------- searching ---------- *)

Fixpoint starts_with (p s : bytes) : bool :=
  match p, s with
  | [], _ => true
  | x :: p', y :: s' => N.eqb x y && starts_with p' s'
  | _ :: _, [] => false
  end.

(* buffer.find(needle) != -1 *)
Fixpoint has_sub (needle s : bytes) : bool :=
  starts_with needle s || match s with [] => false | _ :: r => has_sub needle r end.

(* re.search with a pattern given as an anchored matcher: leftmost position at which
   the matcher succeeds, with the matcher's result *)
Fixpoint search {A : Type} (m : bytes -> option A) (s : bytes) (i : nat) : option (nat * A) :=
  match m s with
  | Some a => Some (i, a)
  | None => match s with
            | [] => None
            | _ :: r => search m r (S i)
            end
  end.

(* (?:\r\n|\n|\r) at the front: length of the match, alternatives in the pattern's order *)
Definition lb_len (s : bytes) : option nat :=
  if starts_with [CR; LF] s then Some 2
  else if starts_with [LF] s then Some 1
  else if starts_with [CR] s then Some 1
  else None.

(* [^\S\n\r] in a bytes pattern: space, TAB, VT, FF *)
Definition is_hws (c : N) : bool := N.eqb c 32 || N.eqb c 9 || N.eqb c 11 || N.eqb c 12.

Fixpoint skip_hws (s : bytes) : nat :=
  match s with
  | c :: r => if is_hws c then S (skip_hws r) else 0
  | [] => 0
  end.

(* what follows "--boundary":  (--[^\S\n\r]*LB?|[^\S\n\r]*LB) ; returns the length
   matched and whether it is the closing delimiter *)
Definition tail_match (s : bytes) : option (nat * bool) :=
  if starts_with [DASH; DASH] s then
    let r := skipn 2 s in
    let h := skip_hws r in
    Some (2 + h + match lb_len (skipn h r) with Some l => l | None => 0 end, true)
  else
    let h := skip_hws s in
    match lb_len (skipn h s) with
    | Some l => Some (h + l, false)
    | None => None
    end.

(* "--" ++ boundary *)
Definition dashes (b : bytes) : bytes := DASH :: DASH :: b.

(* the delimiter pattern anchored at the front of [s]: LB (optional when [opt_lb]:
   preamble_re), dd = "--boundary", tail.  Result: length matched, closing? *)
Definition match_delim (opt_lb : bool) (dd s : bytes) : option (nat * bool) :=
  let try_at (l : nat) :=
    if starts_with dd (skipn l s) then
      match tail_match (skipn (l + length dd) s) with
      | Some (t, closing) => Some (l + length dd + t, closing)
      | None => None
      end
    else None in
  match lb_len s with
  | Some l =>
      match try_at l with
      | Some r => Some r
      | None => if opt_lb then try_at 0 else None
      end
  | None => if opt_lb then try_at 0 else None
  end.

(* pattern.search(buffer): (match.start(), match.end(), group 1 starts with "--") *)
Definition search_delim (opt_lb : bool) (dd s : bytes) : option (nat * nat * bool) :=
  match search (match_delim opt_lb dd) s 0 with
  | Some (p, (len, closing)) => Some (p, p + len, closing)
  | None => None
  end.

(* BLANK_LINE_RE = (?:\r\n\r\n|\r\r|\n\n) *)
Definition blank_len (s : bytes) : option nat :=
  if starts_with [CR; LF; CR; LF] s then Some 4
  else if starts_with [CR; CR] s then Some 2
  else if starts_with [LF; LF] s then Some 2
  else None.

Definition search_blank (s : bytes) : option (nat * nat) :=
  match search blank_len s 0 with
  | Some (p, l) => Some (p, p + l)
  | None => None
  end.

(* buffer.rindex(c, start), None when absent; [i] is the index of the head of [s] *)
Fixpoint rindex_from (c : N) (start : nat) (s : bytes) (i : nat) : option nat :=
  match s with
  | [] => None
  | x :: r =>
      match rindex_from c start r (S i) with
      | Some j => Some j
      | None => if N.eqb x c && Nat.leb start i then Some i else None
      end
  end.

Definition last_newline_from (start : nat) (s : bytes) : nat :=
  let nl := match rindex_from LF start s 0 with Some j => j | None => length s end in
  let cr := match rindex_from CR start s 0 with Some j => j | None => length s end in
  Nat.min nl cr.

(* ---------- the DATA state ---------- *)

Inductive data_result :=
| More (data rest : bytes)                       (* Data(data, more_data=True) if data is non-empty, buffer := rest *)
| EndPart (data rest : bytes) (closing : bool).  (* Data(data, more_data=False), buffer := rest *)

(* what may follow "--boundary" in a delimiter line that is still incomplete when the buffer
   ends: the first dash of the closing "--", or padding (horizontal white space) *)
Definition pending_tail (s : bytes) : bool := bytes_eqb s [DASH] || forallb is_hws s.

(* pending_boundary_re (a line break, "--boundary", then a single dash or padding, then the
   end of the buffer), anchored at the front of [s] *)
Definition match_pending (dd s : bytes) : option unit :=
  match lb_len s with
  | Some l => if starts_with dd (skipn l s) && pending_tail (skipn (l + length dd) s) then Some tt else None
  | None => None
  end.

(* last_newline(max(0, len(buffer) - len(boundary) - 3)) *)
Definition window_cut (b buf : bytes) : nat := last_newline_from (length buf - (length b + 3)) buf.

(* the cut when no complete delimiter is in the buffer although "--boundary" occurs in it *)
Definition pending_cut (b buf : bytes) : nat :=
  match search (match_pending (dashes b)) buf 0 with
  | Some (p, _) => p
  | None => window_cut b buf
  end.

(* the repaired DATA state (planned repair 0030) *)
Definition data_step (b buf : bytes) : data_result :=
  if negb (has_sub (dashes b) buf) then
    let cut := window_cut b buf in
    More (firstn cut buf) (skipn cut buf)
  else
    match search_delim false (dashes b) buf with
    | Some (s, e, closing) => EndPart (firstn s buf) (skipn e buf) closing
    | None =>
        let cut := pending_cut b buf in
        More (firstn cut buf) (skipn cut buf)
    end.

(* the first, insufficient repair (0024): windowed search only while "--boundary" is absent *)
Definition data_step_0024 (b buf : bytes) : data_result :=
  if negb (has_sub (dashes b) buf) then
    let cut := last_newline_from (length buf - (length b + 3)) buf in
    More (firstn cut buf) (skipn cut buf)
  else
    match search_delim false (dashes b) buf with
    | Some (s, e, closing) => EndPart (firstn s buf) (skipn e buf) closing
    | None =>
        let cut := last_newline_from 0 buf in
        More (firstn cut buf) (skipn cut buf)
    end.

(* the unrepaired DATA state: the whole buffer is searched for the line break *)
Definition data_step_orig (b buf : bytes) : data_result :=
  if negb (has_sub (dashes b) buf) then
    let cut := last_newline_from 0 buf in
    More (firstn cut buf) (skipn cut buf)
  else
    match search_delim false (dashes b) buf with
    | Some (s, e, closing) => EndPart (firstn s buf) (skipn e buf) closing
    | None =>
        let cut := last_newline_from 0 buf in
        More (firstn cut buf) (skipn cut buf)
    end.

(* ---------- text helpers for the header code ---------- *)

Definition is_bspace (c : N) : bool :=          (* bytes.strip() *)
  N.eqb c 32 || (N.leb 9 c && N.leb c 13).

Definition is_uspace (c : N) : bool :=          (* str.strip(): str.isspace *)
  (N.leb 9 c && N.leb c 13) || (N.leb 28 c && N.leb c 32) || N.eqb c 133 || N.eqb c 160 ||
  N.eqb c 5760 || (N.leb 8192 c && N.leb c 8202) || N.eqb c 8232 || N.eqb c 8233 ||
  N.eqb c 8239 || N.eqb c 8287 || N.eqb c 12288.

Fixpoint lstrip (sp : N -> bool) (s : bytes) : bytes :=
  match s with
  | c :: r => if sp c then lstrip sp r else s
  | [] => []
  end.

Definition strip (sp : N -> bool) (s : bytes) : bytes := rev (lstrip sp (rev (lstrip sp s))).

(* str.lower() on Latin-1 text (code points above U+00FF are left alone: the cases keep
   header and parameter names within Latin-1) *)
Definition lower_c (c : N) : N :=
  if (N.leb 65 c && N.leb c 90)%bool then (c + 32)%N
  else if (N.leb 192 c && N.leb c 222 && negb (N.eqb c 215))%bool then (c + 32)%N
  else c.
Definition lower (s : bytes) : bytes := map lower_c s.

(* strict UTF-8 decoding; None = UnicodeDecodeError *)
Definition cont (c : N) : bool := N.leb 128 c && N.leb c 191.

Fixpoint utf8_decode (fuel : nat) (s : bytes) : option bytes :=
  match fuel with
  | O => match s with [] => Some [] | _ => None end
  | S k =>
      match s with
      | [] => Some []
      | a :: r =>
          if N.ltb a 128 then option_map (cons a) (utf8_decode k r)
          else if N.leb 194 a && N.leb a 223 then
            match r with
            | b1 :: r' => if cont b1 then option_map (cons ((a - 192) * 64 + (b1 - 128))%N) (utf8_decode k r') else None
            | _ => None
            end
          else if N.leb 224 a && N.leb a 239 then
            match r with
            | b1 :: b2 :: r' =>
                if cont b1 && cont b2
                   && negb (N.eqb a 224 && N.ltb b1 160)          (* overlong *)
                   && negb (N.eqb a 237 && N.leb 160 b1)          (* surrogates *)
                then option_map (cons ((a - 224) * 4096 + (b1 - 128) * 64 + (b2 - 128))%N) (utf8_decode k r')
                else None
            | _ => None
            end
          else if N.leb 240 a && N.leb a 244 then
            match r with
            | b1 :: b2 :: b3 :: r' =>
                if cont b1 && cont b2 && cont b3
                   && negb (N.eqb a 240 && N.ltb b1 144)          (* overlong *)
                   && negb (N.eqb a 244 && N.leb 144 b1)          (* above U+10FFFF *)
                then option_map (cons ((a - 240) * 262144 + (b1 - 128) * 4096 + (b2 - 128) * 64 + (b3 - 128))%N)
                                (utf8_decode k r')
                else None
            | _ => None
            end
          else None
      end
  end.

(* safe_decode(src, charset): charset is utf-8 (flag true) or latin-1 *)
Definition safe_decode (utf8 : bool) (s : bytes) : bytes :=
  if utf8 then match utf8_decode (length s) s with Some t => t | None => s end else s.

(* s.partition(c): None when c does not occur *)
Fixpoint split_at_first (c : N) (s : bytes) : option (bytes * bytes) :=
  match s with
  | [] => None
  | x :: r => if N.eqb x c then Some ([], r)
              else match split_at_first c r with
                   | Some (a, b) => Some (x :: a, b)
                   | None => None
                   end
  end.

(* bytes.splitlines(): break at \r\n, \n, \r; no trailing empty line.  [cur] is the
   current line, reversed *)
Fixpoint splitlines_aux (s cur : bytes) : list bytes :=
  match s with
  | [] => match cur with [] => [] | _ => [rev cur] end
  | c :: r =>
      if N.eqb c CR then
        match r with
        | y :: r' => if N.eqb y LF then rev cur :: splitlines_aux r' [] else rev cur :: splitlines_aux r []
        | [] => [rev cur]
        end
      else if N.eqb c LF then rev cur :: splitlines_aux r []
      else splitlines_aux r (c :: cur)
  end.
Definition splitlines (s : bytes) : list bytes := splitlines_aux s [].

Definition is_sptab (c : N) : bool := N.eqb c 32 || N.eqb c 9.

(* HEADER_CONTINUATION_RE.sub(b" ", data): a line break followed by space or TAB becomes one space *)
Fixpoint unfold_continuations (s : bytes) : bytes :=
  match s with
  | [] => []
  | c :: r =>
      if N.eqb c CR then
        match r with
        | y :: r' =>
            if N.eqb y LF then
              match r' with
              | z :: r'' => if is_sptab z then SP :: unfold_continuations r'' else c :: unfold_continuations r
              | [] => c :: unfold_continuations r
              end
            else if is_sptab y then SP :: unfold_continuations r'
            else c :: unfold_continuations r
        | [] => [c]
        end
      else if N.eqb c LF then
        match r with
        | y :: r' => if is_sptab y then SP :: unfold_continuations r' else c :: unfold_continuations r
        | [] => [c]
        end
      else c :: unfold_continuations r
  end.

(* ---------- Headers(list): lower-cased names, duplicates folded with ", " ---------- *)

Definition header := (bytes * bytes)%type.

Fixpoint hget (k : bytes) (h : list header) : option bytes :=
  match h with
  | [] => None
  | (k', v) :: r => if bytes_eqb k' k then Some v else hget k r
  end.

Fixpoint hput (k v : bytes) (h : list header) : list header :=
  match h with
  | [] => [(k, v)]
  | (k', v') :: r => if bytes_eqb k' k then (k, v) :: r else (k', v') :: hput k v r
  end.

Definition headers_add (st : list header) (kv : header) : list header :=
  let k := lower (fst kv) in
  match hget k st with
  | Some old => hput k (old ++ [44%N; 32%N] ++ snd kv) st
  | None => hput k (snd kv) st
  end.

Definition headers_of (items : list header) : list header := fold_left headers_add items [].

(* one line of _parse_headers; None = MalformedMultipart (a line without colon) *)
Definition header_line (utf8 : bool) (acc : option (list header)) (line : bytes) : option (list header) :=
  match acc with
  | None => None
  | Some hs =>
      match strip is_bspace line with
      | [] => Some hs
      | l => match split_at_first COLON (safe_decode utf8 l) with
             | Some (n, v) => Some (hs ++ [(strip is_uspace n, strip is_uspace v)])
             | None => None
             end
      end
  end.

(* the (name, value) list of _parse_headers, before Headers() folds it *)
Definition header_items (utf8 : bool) (block : bytes) : option (list header) :=
  fold_left (header_line utf8) (splitlines (unfold_continuations block)) (Some []).

Definition parse_headers (utf8 : bool) (block : bytes) : option (list header) :=
  option_map headers_of (header_items utf8 block).

(* ---------- parse_header (utils.py) ---------- *)

Fixpoint count_sub2 (a b : N) (s : bytes) : nat :=     (* s.count(bytes [a;b]) , non-overlapping *)
  match s with
  | x :: ((y :: r) as t) => if N.eqb x a && N.eqb y b then S (count_sub2 a b r) else count_sub2 a b t
  | _ => 0
  end.

Definition count_c (c : N) (s : bytes) : nat := length (filter (N.eqb c) s).

(* s.find(";", from) *)
Fixpoint find_from (c : N) (s : bytes) (i from : nat) : option nat :=
  match s with
  | [] => None
  | x :: r => if N.eqb x c && Nat.leb from i then Some i else find_from c r (S i) from
  end.

(* the inner while of _parseparam: advance [end] while the quotes before it are unbalanced *)
Fixpoint param_end (fuel : nat) (s : bytes) (e : option nat) : option nat :=
  match fuel with
  | O => e
  | S k =>
      match e with
      | Some n =>
          if Nat.ltb 0 n &&
             Nat.odd (count_c DQUOTE (firstn n s) - count_sub2 BSLASH DQUOTE (firstn n s))
          then param_end k s (find_from SEMI s 0 (S n))
          else e
      | None => None
      end
  end.

Fixpoint parseparam (fuel : nat) (s : bytes) : list bytes :=
  match fuel with
  | O => []
  | S k =>
      match s with
      | [] => []
      | c :: s1 =>
          if N.eqb c SEMI then
            let e := match param_end (length s1) s1 (find_from SEMI s1 0 0) with
                     | Some n => n
                     | None => length s1
                     end in
            strip is_uspace (firstn e s1) :: parseparam k (skipn e s1)
          else []
      end
  end.

Fixpoint replace2 (a b : N) (by_ : bytes) (s : bytes) : bytes :=   (* s.replace(bytes [a;b], by_) *)
  match s with
  | x :: ((y :: r) as t) => if N.eqb x a && N.eqb y b then by_ ++ replace2 a b by_ r else x :: replace2 a b by_ t
  | _ => s
  end.

Definition unquote_value (v : bytes) : bytes :=
  match v with
  | q :: r =>
      if N.eqb q DQUOTE then
        match rev r with
        | q' :: mid => if N.eqb q' DQUOTE
                       then replace2 BSLASH DQUOTE [DQUOTE] (replace2 BSLASH BSLASH [BSLASH] (rev mid))
                       else v
        | [] => v
        end
      else v
  | [] => v
  end.

Definition param_add (d : list header) (p : bytes) : list header :=
  match split_at_first EQUALS p with
  | Some (n, v) => hput (lower (strip is_uspace n)) (unquote_value (strip is_uspace v)) d
  | None => d
  end.

(* parse_header(line) = (key, options); later duplicates of an option win *)
Definition parse_header (line : bytes) : bytes * list header :=
  match parseparam (S (S (length line))) (SEMI :: line) with
  | [] => ([], [])
  | key :: ps => (key, fold_left param_add ps [])
  end.

(* ---------- the decoder ---------- *)

Inductive dstate := PREAMBLE | PART | DATA | EPILOGUE | COMPLETE.

Record decoder := { d_buf : bytes; d_state : dstate; d_complete : bool }.

Inductive event :=
| EPreamble (data : bytes)
| EField (name : option bytes) (headers : list header)
| EFile (name : option bytes) (filename : bytes) (headers : list header)
| EData (data : bytes) (more : bool)
| EEpilogue (data : bytes)
| ENeed
| EMalformed.       (* MalformedMultipart (400) *)

Definition k_content_disposition : bytes := Eval vm_compute in lit "content-disposition".
Definition k_name : bytes := Eval vm_compute in lit "name".
Definition k_filename : bytes := Eval vm_compute in lit "filename".

(* the PART state once the blank line is found: header block -> event *)
Inductive part_result :=
| PBadHeader            (* a header line without colon: raised before the buffer is touched *)
| PNoDisposition        (* raised after the block has been removed from the buffer *)
| PEvent (ev : event).

Definition parse_part (utf8 : bool) (block : bytes) : part_result :=
  match parse_headers utf8 block with
  | None => PBadHeader
  | Some hs =>
      match hget k_content_disposition hs with
      | None => PNoDisposition
      | Some cd =>
          let extra := snd (parse_header cd) in
          let name := hget k_name extra in
          PEvent (match hget k_filename extra with
                  | Some fn => EFile name fn hs
                  | None => EField name hs
                  end)
      end
  end.

Definition new_decoder : decoder := {| d_buf := []; d_state := PREAMBLE; d_complete := false |}.

Definition receive (d : decoder) (chunk : option bytes) : decoder :=
  match chunk with
  | Some c => {| d_buf := d_buf d ++ c; d_state := d_state d; d_complete := d_complete d |}
  | None => {| d_buf := d_buf d; d_state := d_state d; d_complete := true |}
  end.

Definition with_buf (d : decoder) (buf : bytes) (st : dstate) : decoder :=
  {| d_buf := buf; d_state := st; d_complete := d_complete d |}.

Definition next_event (b : bytes) (utf8 : bool) (d : decoder) : event * decoder :=
  let buf := d_buf d in
  let '(ev, d') :=
    match d_state d with
    | PREAMBLE =>
        match search_delim true (dashes b) buf with
        | Some (s, e, closing) =>
            (EPreamble (firstn s buf), with_buf d (skipn e buf) (if closing then EPILOGUE else PART))
        | None => (ENeed, d)
        end
    | PART =>
        match search_blank buf with
        | Some (s, e) =>
            match parse_part utf8 (firstn s buf) with
            | PBadHeader => (EMalformed, d)
            | PNoDisposition => (EMalformed, with_buf d (skipn e buf) PART)
            | PEvent ev => (ev, with_buf d (skipn e buf) DATA)
            end
        | None => (ENeed, d)
        end
    | DATA =>
        match data_step b buf with
        | More data rest =>
            (match data with [] => ENeed | _ => EData data true end, with_buf d rest DATA)
        | EndPart data rest closing =>
            (EData data false, with_buf d rest (if closing then EPILOGUE else PART))
        end
    | EPILOGUE =>
        if d_complete d then (EEpilogue buf, with_buf d [] COMPLETE) else (ENeed, d)
    | COMPLETE => (ENeed, d)
    end in
  match ev with
  | ENeed => if d_complete d then (EMalformed, d') else (ENeed, d')
  | _ => (ev, d')
  end.

(* drain: next_event until NEED_DATA / Epilogue / error *)
Fixpoint drain (fuel : nat) (b : bytes) (utf8 : bool) (d : decoder) : list event * decoder :=
  match fuel with
  | O => ([], d)
  | S k =>
      let '(ev, d') := next_event b utf8 d in
      match ev with
      | ENeed => ([], d')
      | EEpilogue _ | EMalformed => ([ev], d')
      | _ => let '(evs, d'') := drain k b utf8 d' in (ev :: evs, d'')
      end
  end.

Definition drain_fuel (d : decoder) : nat := 2 * length (d_buf d) + 4.

(* receive_data(chunk) followed by the caller's event loop *)
Definition step_chunk (b : bytes) (utf8 : bool) (d : decoder) (chunk : option bytes) : list event * decoder :=
  let d1 := receive d chunk in drain (drain_fuel d1) b utf8 d1.

Definition is_malformed (e : event) : bool := match e with EMalformed => true | _ => false end.

(* event level: feed the chunks, then end-of-input; per chunk: the events and the decoder afterwards *)
Fixpoint run_chunks (b : bytes) (utf8 : bool) (d : decoder) (chunks : list bytes)
  : list (list event * decoder) :=
  match chunks with
  | [] => [step_chunk b utf8 d None]
  | c :: r =>
      let '(evs, d2) := step_chunk b utf8 d (Some c) in
      if existsb is_malformed evs then [(evs, d2)]
      else (evs, d2) :: run_chunks b utf8 d2 r
  end.

Definition all_events (tr : list (list event * decoder)) : list event := flat_map fst tr.

(* the parts as the next layer sees them: the data events of one part concatenated *)
Inductive pitem :=
| PDone (hev : event) (content : bytes)      (* header event, all the data, terminated by more_data=False *)
| POpen (hev : event) (content : bytes)      (* a part that was not terminated *)
| PStray                                     (* a data event outside a part *)
| PEpi
| PMal.

Fixpoint collect (evs : list event) (cur : option (event * bytes)) : list pitem :=
  match evs with
  | [] => match cur with Some (h, d) => [POpen h d] | None => [] end
  | ev :: r =>
      let flush := match cur with Some (h, d) => [POpen h d] | None => [] end in
      match ev with
      | EField _ _ | EFile _ _ _ => flush ++ collect r (Some (ev, []))
      | EData d more =>
          match cur with
          | Some (h, acc) =>
              if more then collect r (Some (h, acc ++ d))
              else PDone h (acc ++ d) :: collect r None
          | None => PStray :: collect r None
          end
      | EPreamble _ | ENeed => collect r cur
      | EEpilogue _ => flush ++ PEpi :: collect r None
      | EMalformed => flush ++ PMal :: collect r None
      end
  end.

(* ---------- the stream helpers ---------- *)

Inductive item :=
| IText (name : option bytes) (text : bytes)
| IFile (name : option bytes) (filename : bytes) (headers : list header) (content : bytes).

Inductive houtcome :=
| HItems (items : list item)
| H413
| H400.

Record hstate := {
  h_name : option bytes;
  h_data : bytes;
  h_file : option (bytes * list header * bytes);    (* filename, headers, bytes written so far *)
  h_parts : nat;
  h_mem : nat;
  h_items : list item
}.

Definition h_init : hstate :=
  {| h_name := Some []; h_data := []; h_file := None; h_parts := 0; h_mem := 0; h_items := [] |}.

(* one event in the helper's loop; inr = the exception (413 / 400) *)
Definition helper_event (utf8 : bool) (max_parts : nat) (max_mem : option nat)
  (h : hstate) (ev : event) : hstate + houtcome :=
  match ev with
  | EField name _ =>
      inl {| h_name := name; h_data := h_data h; h_file := h_file h; h_parts := h_parts h;
             h_mem := h_mem h; h_items := h_items h |}
  | EFile name fn hs =>
      inl {| h_name := name; h_data := h_data h; h_file := Some (fn, hs, []); h_parts := h_parts h;
             h_mem := h_mem h; h_items := h_items h |}
  | EData data more =>
      let step1 :=
        match h_file h with
        | None =>
            let mem := h_mem h + length data in
            if match max_mem with Some m => Nat.ltb m mem | None => false end then inr H413
            else inl {| h_name := h_name h; h_data := h_data h ++ data; h_file := None;
                        h_parts := h_parts h; h_mem := mem; h_items := h_items h |}
        | Some (fn, hs, written) =>
            inl {| h_name := h_name h; h_data := h_data h; h_file := Some (fn, hs, written ++ data);
                   h_parts := h_parts h; h_mem := h_mem h; h_items := h_items h |}
        end in
      match step1 with
      | inr o => inr o
      | inl h1 =>
          if more then inl h1
          else
            let h2 :=
              match h_file h1 with
              | None =>
                  {| h_name := h_name h1; h_data := []; h_file := None; h_parts := S (h_parts h1);
                     h_mem := h_mem h1;
                     h_items := h_items h1 ++ [IText (h_name h1) (safe_decode utf8 (h_data h1))] |}
              | Some (fn, hs, written) =>
                  {| h_name := h_name h1; h_data := h_data h1; h_file := None; h_parts := S (h_parts h1);
                     h_mem := h_mem h1;
                     h_items := h_items h1 ++ [IFile (h_name h1) fn hs written] |}
              end in
            if Nat.ltb max_parts (h_parts h2) then inr H413 else inl h2
      end
  | EMalformed => inr H400
  | _ => inl h
  end.

Fixpoint helper_events (utf8 : bool) (max_parts : nat) (max_mem : option nat)
  (h : hstate) (evs : list event) : hstate + houtcome :=
  match evs with
  | [] => inl h
  | ev :: r =>
      match helper_event utf8 max_parts max_mem h ev with
      | inl h' => helper_events utf8 max_parts max_mem h' r
      | inr o => inr o
      end
  end.

(* parse_stream: the helper never signals end of input to the decoder *)
Fixpoint parse_stream_aux (b : bytes) (utf8 : bool) (max_parts : nat) (max_mem : option nat)
  (d : decoder) (h : hstate) (chunks : list bytes) : houtcome :=
  match chunks with
  | [] => HItems (h_items h)
  | c :: r =>
      let '(evs, d2) := step_chunk b utf8 d (Some c) in
      match helper_events utf8 max_parts max_mem h evs with
      | inl h' => parse_stream_aux b utf8 max_parts max_mem d2 h' r
      | inr o => o
      end
  end.

Definition parse_stream (b : bytes) (utf8 : bool) (max_parts : nat) (max_mem : option nat)
  (chunks : list bytes) : houtcome :=
  parse_stream_aux b utf8 max_parts max_mem new_decoder h_init chunks.
