(* C01 — the specification side: the encoder of a form, well-formedness, and what the
   decoder and the helpers are expected to deliver.  No proofs here. *)
From Coq Require Import List NArith Bool Arith.
From Baize Require Import Lib.Wire Lib.Order Lib.Utf8 C01.Model.
Import ListNotations.

(* ---------- the body of a form ---------- *)

Definition part := (bytes * bytes)%type.   (* header block, content *)

(* what follows "--boundary" of a delimiter: the parts still to come, each ended by the
   next delimiter; after the last one "--" CRLF and the epilogue *)
Fixpoint after_delim (b : bytes) (ps : list part) (epi : bytes) : bytes :=
  match ps with
  | [] => [DASH; DASH] ++ CRLF ++ epi
  | (h, c) :: r => CRLF ++ h ++ CRLF ++ CRLF ++ c ++ CRLF ++ dashes b ++ after_delim b r epi
  end.

(* preamble, CRLF (may be absent when there is no preamble), first delimiter, ... *)
Definition encode_body (b pre : bytes) (first_crlf : bool) (ps : list part) (epi : bytes) : bytes :=
  pre ++ (if first_crlf then CRLF else []) ++ dashes b ++ after_delim b ps epi.

(* ---------- well-formedness ---------- *)

Definition no_crlf (s : bytes) : bool := forallb (fun c => negb (N.eqb c CR) && negb (N.eqb c LF)) s.

Definition no_blank (s : bytes) : bool :=
  match search blank_len s 0 with None => true | Some _ => false end.

Definition head_not_sptab (h : bytes) : bool :=
  match h with c :: _ => negb (is_sptab c) | [] => true end.

(* what framing needs of a header block: no blank line inside it or where it meets the
   terminator (also with the stray LF a split CRLF leaves in front), no leading
   continuation, and it parses to a Field/File event *)
Definition hdr_ok (utf8 : bool) (h : bytes) : bool :=
  no_blank (LF :: h ++ [CR; LF; CR]) && head_not_sptab h &&
  match parse_part utf8 h with PEvent _ => true | _ => false end.

Definition part_ok (b : bytes) (utf8 : bool) (p : part) : bool :=
  hdr_ok utf8 (fst p) && negb (has_sub (dashes b) (snd p)).

Definition wf_form (b : bytes) (utf8 : bool) (pre : bytes) (first_crlf : bool) (ps : list part) : bool :=
  no_crlf b && negb (has_sub (dashes b) pre) &&
  (first_crlf || match pre with [] => true | _ => false end) &&
  forallb (part_ok b utf8) ps.

(* ---------- what is expected ---------- *)

Definition part_event (utf8 : bool) (h : bytes) : event :=
  match parse_part utf8 h with PEvent e => e | _ => ENeed end.

Definition done (utf8 : bool) (p : part) : pitem := PDone (part_event utf8 (fst p)) (snd p).

Definition is_part_event (e : event) : bool :=
  match e with EField _ _ | EFile _ _ _ => true | _ => false end.

(* the events of the chunks, in order (the helpers' view: end of input is never signalled) *)
Fixpoint chunk_events (b : bytes) (utf8 : bool) (d : decoder) (chunks : list bytes) : list event :=
  match chunks with
  | [] => []
  | c :: r => let '(evs, d2) := step_chunk b utf8 d (Some c) in evs ++ chunk_events b utf8 d2 r
  end.

(* the helper's item for a completed part *)
Definition item_of (utf8 : bool) (hev : event) (content : bytes) : item :=
  match hev with
  | EFile n fn hs => IFile n fn hs content
  | EField n _ => IText n (safe_decode utf8 content)
  | _ => IText None []
  end.

Definition is_field (e : event) : bool := match e with EField _ _ => true | _ => false end.

(* bytes counted against max_form_memory_size: the data of fields, not of files *)
Definition field_bytes (dones : list (event * bytes)) : nat :=
  fold_right (fun p acc => (if is_field (fst p) then length (snd p) else 0) + acc) 0 dones.

Definition mem_ok (max_mem : option nat) (dones : list (event * bytes)) : Prop :=
  match max_mem with Some m => field_bytes dones <= m | None => True end.

(* ---------- rendering of part headers ---------- *)

Definition s_form_data_name : bytes := Eval vm_compute in lit "form-data; name=""".
Definition s_filename : bytes := Eval vm_compute in lit "; filename=""".
Definition s_content_disposition : bytes := Eval vm_compute in lit "Content-Disposition".

Definition cd_value (name : bytes) (filename : option bytes) : bytes :=
  s_form_data_name ++ name ++ [DQUOTE] ++
  match filename with Some f => s_filename ++ f ++ [DQUOTE] | None => [] end.

Definition render_line (kv : header) : bytes := fst kv ++ [COLON; SP] ++ snd kv.

Definition render_headers (name : bytes) (filename : option bytes) (extra : list header) : bytes :=
  render_line (s_content_disposition, cd_value name filename) ++
  flat_map (fun kv => CRLF ++ render_line kv) extra.

(* printable ASCII without the double quote and the backslash (semicolon, equals sign, spaces allowed) *)
Definition name_char (c : N) : bool :=
  N.leb 32 c && N.leb c 126 && negb (N.eqb c DQUOTE) && negb (N.eqb c BSLASH).
Definition name_ok (s : bytes) : bool := forallb name_char s.

(* a header name: visible ASCII without ':'; not Content-Disposition again *)
Definition hname_char (c : N) : bool := N.leb 33 c && N.leb c 126 && negb (N.eqb c COLON).
Definition hname_ok (k : bytes) : bool :=
  match k with [] => false | _ => true end && forallb hname_char k &&
  negb (bytes_eqb (lower k) k_content_disposition).

(* a header value: printable ASCII, not empty, no blank at either end *)
Definition hvalue_char (c : N) : bool := N.leb 32 c && N.leb c 126.
Definition hvalue_ok (v : bytes) : bool :=
  forallb hvalue_char v &&
  match v with c :: _ => negb (N.eqb c SP) | [] => false end &&
  match rev v with c :: _ => negb (N.eqb c SP) | [] => false end.

Definition extra_ok (kv : header) : bool := hname_ok (fst kv) && hvalue_ok (snd kv).

Definition filename_ok (f : option bytes) : bool := match f with Some s => name_ok s | None => true end.

(* the event a rendered header block stands for *)
Definition rendered_event (name : bytes) (filename : option bytes) (extra : list header) : event :=
  let hs := headers_of ((s_content_disposition, cd_value name filename) :: extra) in
  match filename with
  | Some f => EFile (Some name) f hs
  | None => EField (Some name) hs
  end.

(* ---------- statements proved in HdrProofs.v / HelperProofs.v / Proofs.v ---------- *)

Definition decode_headers_statement : Prop :=
  forall (utf8 : bool) (name : bytes) (filename : option bytes) (extra : list header),
    name_ok name = true -> filename_ok filename = true -> forallb extra_ok extra = true ->
    parse_part utf8 (render_headers name filename extra) = PEvent (rendered_event name filename extra) /\
    hdr_ok utf8 (render_headers name filename extra) = true.

(* the helper fold over any event sequence whose parts are all complete *)
Definition helper_of_collect_statement : Prop :=
  forall (b : bytes) (utf8 : bool) (max_parts : nat) (max_mem : option nat)
         (chunks : list bytes) (dones : list (event * bytes)),
    collect (chunk_events b utf8 new_decoder chunks) None = map (fun p => PDone (fst p) (snd p)) dones ->
    forallb (fun p => is_part_event (fst p)) dones = true ->
    length dones <= max_parts ->
    mem_ok max_mem dones ->
    parse_stream b utf8 max_parts max_mem chunks = HItems (map (fun p => item_of utf8 (fst p) (snd p)) dones).

Definition decode_framing_statement : Prop :=
  forall (b : bytes) (utf8 : bool) (pre : bytes) (first_crlf : bool) (ps : list part) (epi : bytes)
         (chunks : list bytes),
    wf_form b utf8 pre first_crlf ps = true ->
    concat chunks = encode_body b pre first_crlf ps epi ->
    collect (all_events (run_chunks b utf8 new_decoder chunks)) None = map (done utf8) ps ++ [PEpi] /\
    collect (chunk_events b utf8 new_decoder chunks) None = map (done utf8) ps.

(* ---------- a form as the application sees it ---------- *)

Record field := { f_name : bytes; f_filename : option bytes; f_extra : list header; f_content : bytes }.

Definition field_ok (b : bytes) (f : field) : bool :=
  name_ok (f_name f) && filename_ok (f_filename f) && forallb extra_ok (f_extra f) &&
  negb (has_sub (dashes b) (f_content f)).

Definition field_part (f : field) : part :=
  (render_headers (f_name f) (f_filename f) (f_extra f), f_content f).

Definition field_event (f : field) : event := rendered_event (f_name f) (f_filename f) (f_extra f).

Definition field_done (f : field) : pitem := PDone (field_event f) (f_content f).

Definition field_item (utf8 : bool) (f : field) : item := item_of utf8 (field_event f) (f_content f).

Definition form_ok (b pre : bytes) (first_crlf : bool) (fields : list field) : bool :=
  no_crlf b && negb (has_sub (dashes b) pre) &&
  (first_crlf || match pre with [] => true | _ => false end) &&
  forallb (field_ok b) fields.

Definition form_body (b pre : bytes) (first_crlf : bool) (fields : list field) (epi : bytes) : bytes :=
  encode_body b pre first_crlf (map field_part fields) epi.

(* bytes counted against max_form_memory_size *)
Definition form_mem (fields : list field) : nat :=
  fold_right (fun f acc => (match f_filename f with None => length (f_content f) | Some _ => 0 end) + acc) 0 fields.

Definition limits_ok (max_parts : nat) (max_mem : option nat) (fields : list field) : Prop :=
  length fields <= max_parts /\ match max_mem with Some m => form_mem fields <= m | None => True end.

(* helper_exact: on the header blocks of any well-formed body *)
Definition helper_exact_statement : Prop :=
  forall (b : bytes) (utf8 : bool) (pre : bytes) (first_crlf : bool) (ps : list part) (epi : bytes)
         (max_parts : nat) (max_mem : option nat) (chunks : list bytes),
    wf_form b utf8 pre first_crlf ps = true ->
    concat chunks = encode_body b pre first_crlf ps epi ->
    length ps <= max_parts ->
    mem_ok max_mem (map (fun p => (part_event utf8 (fst p), snd p)) ps) ->
    parse_stream b utf8 max_parts max_mem chunks =
    HItems (map (fun p => item_of utf8 (part_event utf8 (fst p)) (snd p)) ps).

(* the property, for names / filenames / header values over printable ASCII *)
Definition C01_main_statement : Prop :=
  forall (b : bytes) (utf8 : bool) (pre : bytes) (first_crlf : bool) (fields : list field) (epi : bytes)
         (max_parts : nat) (max_mem : option nat) (chunks : list bytes),
    form_ok b pre first_crlf fields = true ->
    concat chunks = form_body b pre first_crlf fields epi ->
    collect (all_events (run_chunks b utf8 new_decoder chunks)) None = map field_done fields ++ [PEpi] /\
    (limits_ok max_parts max_mem fields ->
     parse_stream b utf8 max_parts max_mem chunks = HItems (map (field_item utf8) fields)).

Definition chunking_independent_statement : Prop :=
  forall (b : bytes) (utf8 : bool) (pre : bytes) (first_crlf : bool) (ps : list part) (epi : bytes)
         (max_parts : nat) (max_mem : option nat) (chunks1 chunks2 : list bytes),
    wf_form b utf8 pre first_crlf ps = true ->
    concat chunks1 = encode_body b pre first_crlf ps epi ->
    concat chunks2 = concat chunks1 ->
    collect (all_events (run_chunks b utf8 new_decoder chunks1)) None =
    collect (all_events (run_chunks b utf8 new_decoder chunks2)) None /\
    (length ps <= max_parts ->
     mem_ok max_mem (map (fun p => (part_event utf8 (fst p), snd p)) ps) ->
     parse_stream b utf8 max_parts max_mem chunks1 = parse_stream b utf8 max_parts max_mem chunks2).

(* The full property also covers names and filenames outside ASCII (any text without double quote,
   backslash, CR and LF, sent in the request's charset).  The statement was laid down here before it
   could be proved; it is now theorem C01_full_holds of Properties.v, a consequence of the stronger
   C01_main ([C01_main_text_statement] below: event level, header values as text as well). *)
Definition text_char (c : N) : bool :=
  negb (N.eqb c DQUOTE) && negb (N.eqb c BSLASH) && negb (N.eqb c CR) && negb (N.eqb c LF).

Definition encode_text (utf8 : bool) (s : list N) : option bytes :=
  if utf8 then Lib.Utf8.utf8 s
  else if forallb (fun c => N.ltb c 256) s then Some s else None.

Definition C01_full : Prop :=
  forall (b : bytes) (utf8 : bool) (pre : bytes) (first_crlf : bool) (epi : bytes)
         (texts : list (list N * option (list N))) (fields : list field)
         (max_parts : nat) (max_mem : option nat) (chunks : list bytes),
    (* fields carry the encoded names; texts the names as text *)
    Forall2 (fun t f =>
               forallb text_char (fst t) = true /\ encode_text utf8 (fst t) = Some (f_name f) /\
               match snd t, f_filename f with
               | Some ft, Some fb => forallb text_char ft = true /\ encode_text utf8 ft = Some fb
               | None, None => True
               | _, _ => False
               end /\
               forallb extra_ok (f_extra f) = true /\ has_sub (dashes b) (f_content f) = false)
            texts fields ->
    no_crlf b = true -> has_sub (dashes b) pre = false -> (first_crlf = true \/ pre = []) ->
    concat chunks = form_body b pre first_crlf fields epi ->
    limits_ok max_parts max_mem fields ->
    exists items,
      parse_stream b utf8 max_parts max_mem chunks = HItems items /\
      Forall2 (fun t i =>
                 match snd t, i with
                 | None, IText n _ => n = Some (fst t)
                 | Some ft, IFile n fn _ _ => n = Some (fst t) /\ fn = ft
                 | _, _ => False
                 end) texts items /\
      Forall2 (fun f i =>
                 match i with
                 | IText _ txt => txt = safe_decode utf8 (f_content f)
                 | IFile _ _ _ c => c = f_content f
                 end) fields items.

(* ---------- names, filenames and header values as TEXT in the request's charset ----------

   A name or filename is any text without double quote, backslash, CR and LF ([text_char]; NUL and
   every other control character, every character str.isspace / str.splitlines know, every code point the
   charset can carry are allowed: [encode_text] is defined exactly for the sequences of Unicode scalar
   values when the charset is UTF-8, and for the texts below U+0100 when it is Latin-1).

   A header value is any text without CR and LF that str.strip() leaves alone: _parse_headers strips the
   decoded value, so a value whose first or last character satisfies str.isspace (U+001C..U+0020,
   U+0085, U+00A0, U+2028, ... [is_uspace]) comes back shorter — leading and trailing white space is not
   part of a header value.  The empty value is allowed.  Header names stay visible ASCII ([hname_ok]). *)

Definition tname_ok (s : list N) : bool := forallb text_char s.
Definition tfilename_ok (f : option (list N)) : bool := match f with Some s => tname_ok s | None => true end.

Definition tvalue_ok (v : list N) : bool :=
  no_crlf v &&
  match v with c :: _ => negb (is_uspace c) | [] => true end &&
  match rev v with c :: _ => negb (is_uspace c) | [] => true end.

Definition textra_ok (kv : header) : bool := hname_ok (fst kv) && tvalue_ok (snd kv).

Definition encode_opt (utf8 : bool) (f : option (list N)) : option (option bytes) :=
  match f with
  | None => Some None
  | Some s => match encode_text utf8 s with Some b => Some (Some b) | None => None end
  end.

(* header names are ASCII and stand for themselves; the values are encoded *)
Fixpoint encode_extra (utf8 : bool) (extra : list header) : option (list header) :=
  match extra with
  | [] => Some []
  | kv :: r =>
      match encode_text utf8 (snd kv), encode_extra utf8 r with
      | Some vb, Some rb => Some ((fst kv, vb) :: rb)
      | _, _ => None
      end
  end.

(* decode_headers for text: [name], [filename], the values of [extra] are text; [nb], [fb], [eb] their
   encodings, from which the block is rendered; the event carries the text *)
Definition decode_headers_text_statement : Prop :=
  forall (utf8 : bool) (name : list N) (filename : option (list N)) (extra : list header)
         (nb : bytes) (fb : option bytes) (eb : list header),
    tname_ok name = true -> tfilename_ok filename = true -> forallb textra_ok extra = true ->
    encode_text utf8 name = Some nb -> encode_opt utf8 filename = Some fb -> encode_extra utf8 extra = Some eb ->
    parse_part utf8 (render_headers nb fb eb) = PEvent (rendered_event name filename extra) /\
    hdr_ok utf8 (render_headers nb fb eb) = true.

(* a form as the application sees it, names as text *)
Record tfield := { t_name : list N; t_filename : option (list N); t_extra : list header; t_content : bytes }.

Definition tfield_ok (b : bytes) (f : tfield) : bool :=
  tname_ok (t_name f) && tfilename_ok (t_filename f) && forallb textra_ok (t_extra f) &&
  negb (has_sub (dashes b) (t_content f)).

(* None: the charset cannot carry one of the names (a surrogate or a value above U+10FFFF for UTF-8,
   a character above U+00FF for Latin-1) *)
Definition encode_field (utf8 : bool) (f : tfield) : option field :=
  match encode_text utf8 (t_name f), encode_opt utf8 (t_filename f), encode_extra utf8 (t_extra f) with
  | Some n, Some fn, Some e => Some {| f_name := n; f_filename := fn; f_extra := e; f_content := t_content f |}
  | _, _, _ => None
  end.

Fixpoint encode_fields (utf8 : bool) (fs : list tfield) : option (list field) :=
  match fs with
  | [] => Some []
  | f :: r =>
      match encode_field utf8 f, encode_fields utf8 r with
      | Some fb, Some rb => Some (fb :: rb)
      | _, _ => None
      end
  end.

Definition tfield_event (f : tfield) : event := rendered_event (t_name f) (t_filename f) (t_extra f).
Definition tfield_done (f : tfield) : pitem := PDone (tfield_event f) (t_content f).
Definition tfield_item (utf8 : bool) (f : tfield) : item := item_of utf8 (tfield_event f) (t_content f).

Definition tform_ok (b pre : bytes) (first_crlf : bool) (fields : list tfield) : bool :=
  no_crlf b && negb (has_sub (dashes b) pre) &&
  (first_crlf || match pre with [] => true | _ => false end) &&
  forallb (tfield_ok b) fields.

(* the property: every chunking of the encoded form yields exactly the parts (names, filenames, header
   values as the text that was encoded) at the event level, and exactly the items from the helper *)
Definition C01_main_text_statement : Prop :=
  forall (b : bytes) (utf8 : bool) (pre : bytes) (first_crlf : bool) (tfields : list tfield) (fields : list field)
         (epi : bytes) (max_parts : nat) (max_mem : option nat) (chunks : list bytes),
    tform_ok b pre first_crlf tfields = true ->
    encode_fields utf8 tfields = Some fields ->
    concat chunks = form_body b pre first_crlf fields epi ->
    collect (all_events (run_chunks b utf8 new_decoder chunks)) None = map tfield_done tfields ++ [PEpi] /\
    (limits_ok max_parts max_mem fields ->
     parse_stream b utf8 max_parts max_mem chunks = HItems (map (tfield_item utf8) tfields)).

(* the text of a field (a part without filename): the content decoded in the request's charset; when the
   charset is UTF-8 and the content is not valid UTF-8, every byte read as the character of the same
   number (Latin-1), which is also what the Latin-1 charset gives *)
Definition field_text_statement : Prop :=
  forall (f : tfield), t_filename f = None ->
    (forall t, Lib.Utf8.utf8 t = Some (t_content f) -> tfield_item true f = IText (Some (t_name f)) t) /\
    ((forall t, Lib.Utf8.utf8 t <> Some (t_content f)) -> tfield_item true f = IText (Some (t_name f)) (t_content f)) /\
    tfield_item false f = IText (Some (t_name f)) (t_content f).

(* the codec: the strict decoder of Model.v inverts the encoder, and accepts nothing but encodings *)
Definition utf8_codec_statement : Prop :=
  (forall s b, Lib.Utf8.utf8 s = Some b -> utf8_decode (length b) b = Some s) /\
  (forall b s, utf8_decode (length b) b = Some s -> Lib.Utf8.utf8 s = Some b) /\
  (forall s b, Lib.Utf8.utf8 s = Some b -> forall x, In x b -> In x s \/ (128 <= x)%N).

(* ---------- a concrete instance used by the non-vacuity examples of Properties.v ---------- *)

Definition ex_b : bytes := [45; 45; 98]%N.
Definition ex_fields : list field :=
  [ {| f_name := [97; 59; 98]%N; f_filename := Some [102; 46; 116]%N;
       f_extra := [([67; 45; 84]%N, [116; 47; 112; 59; 32; 120]%N)];
       f_content := [13; 10; 45; 45; 45; 13; 10; 45; 45; 45; 45; 120; 13]%N |};
    {| f_name := []; f_filename := None; f_extra := []; f_content := [10; 13; 13; 10; 45]%N |} ].
Fixpoint ex_bytewise (s : bytes) : list bytes :=
  match s with [] => [[]] | x :: r => [x] :: [] :: ex_bytewise r end.


Definition ex_tfield1 : tfield :=
  {| t_name := [97; 0; 8364; 8232]%N; t_filename := Some [133; 102; 128512]%N;
     t_extra := [([67; 45; 84]%N, [233; 59; 12288; 120]%N)];
     t_content := [13; 10; 45; 45; 45; 13; 10; 255; 45; 120; 13]%N |}.
Definition ex_tfield2 : tfield :=
  {| t_name := [11; 160]%N; t_filename := None; t_extra := []; t_content := [10; 13; 195; 169; 45]%N |}.
Definition ex_tfields : list tfield := [ex_tfield1; ex_tfield2].
Definition ex_tfields_utf8 : list field :=
  [ {| f_name := [97; 0; 226; 130; 172; 226; 128; 168]%N; f_filename := Some [194; 133; 102; 240; 159; 152; 128]%N;
       f_extra := [([67; 45; 84]%N, [195; 169; 59; 227; 128; 128; 120]%N)];
       f_content := [13; 10; 45; 45; 45; 13; 10; 255; 45; 120; 13]%N |};
    {| f_name := [11; 194; 160]%N; f_filename := None; f_extra := []; f_content := [10; 13; 195; 169; 45]%N |} ].
Definition ex_tfield2_latin1 : field :=
  {| f_name := [11; 160]%N; f_filename := None; f_extra := []; f_content := [10; 13; 195; 169; 45]%N |}.
