(* C01 — the strict UTF-8 decoder of Model.v against the encoder of Lib/Utf8.v:
   decode (encode s) = s for every sequence of scalar values, and the decoder accepts
   nothing but encodings (encode (decode b) = b): "not valid UTF-8" and "decoder fails"
   are the same thing.  Also: what the bytes of an encoded text can be. *)
From Coq Require Import List NArith Bool Arith Lia.
From Baize Require Import Lib.Wire Lib.Order Lib.Utf8 C01.Model.
Import ListNotations.

Local Open Scope N_scope.

Local Ltac absn t := let x := fresh "x" in set (x := t) in *; clearbody x.

(* decide the comparisons occurring in the goal by lia *)
Local Ltac cmp :=
  repeat match goal with
         | |- context [N.ltb ?a ?b] => destruct (N.ltb_spec a b); try lia
         | |- context [N.leb ?a ?b] => destruct (N.leb_spec a b); try lia
         | |- context [N.eqb ?a ?b] => destruct (N.eqb_spec a b); try lia
         end.

(* ---------- one code point: decode after encode ---------- *)

Lemma dec_step c bc k rest : utf8_cp c = Some bc ->
  utf8_decode (S k) (bc ++ rest) = option_map (cons c) (utf8_decode k rest).
Proof.
  unfold utf8_cp.
  destruct (c <? 128) eqn:E1.
  { intros H; apply some_inj in H; subst bc. cbn [app utf8_decode]. rewrite E1. reflexivity. }
  apply N.ltb_ge in E1.
  destruct (c <? 2048) eqn:E2.
  { apply N.ltb_lt in E2. intros H; apply some_inj in H; subst bc.
    pose proof (N.div_mod c 64 ltac:(lia)) as H1.
    pose proof (N.mod_lt c 64 ltac:(lia)) as H2.
    absn (c / 64). absn (c mod 64).
    cbn [app utf8_decode]. unfold cont. cmp; cbn [andb negb].
    all: replace ((192 + x - 192) * 64 + (128 + x0 - 128)) with c by lia; reflexivity. }
  apply N.ltb_ge in E2.
  destruct (c <? 65536) eqn:E3.
  { apply N.ltb_lt in E3.
    destruct ((55296 <=? c) && (c <=? 57343)) eqn:Es; [discriminate|].
    assert (Hs : c < 55296 \/ 57343 < c).
    { apply andb_false_iff in Es. destruct Es as [Es|Es]; apply N.leb_gt in Es; lia. }
    intros H; apply some_inj in H; subst bc.
    pose proof (N.div_mod c 64 ltac:(lia)) as H1.
    pose proof (N.div_mod (c / 64) 64 ltac:(lia)) as H2.
    rewrite N.div_div in H2 by lia. change (64 * 64) with 4096 in H2.
    pose proof (N.mod_lt c 64 ltac:(lia)) as H3.
    pose proof (N.mod_lt (c / 64) 64 ltac:(lia)) as H4.
    absn ((c / 64) mod 64). absn (c / 4096). absn (c / 64). absn (c mod 64).
    cbn [app utf8_decode]. unfold cont. cmp; cbn [andb negb].
    all: replace ((224 + x0 - 224) * 4096 + (128 + x - 128) * 64 + (128 + x2 - 128)) with c by lia; reflexivity. }
  apply N.ltb_ge in E3.
  destruct (c <? 1114112) eqn:E4; [|discriminate]. apply N.ltb_lt in E4.
  intros H; apply some_inj in H; subst bc.
  pose proof (N.div_mod c 64 ltac:(lia)) as H1.
  pose proof (N.div_mod (c / 64) 64 ltac:(lia)) as H2.
  pose proof (N.div_mod (c / 4096) 64 ltac:(lia)) as H3.
  rewrite N.div_div in H2 by lia. change (64 * 64) with 4096 in H2.
  rewrite N.div_div in H3 by lia. change (4096 * 64) with 262144 in H3.
  pose proof (N.mod_lt c 64 ltac:(lia)) as H4.
  pose proof (N.mod_lt (c / 64) 64 ltac:(lia)) as H5.
  pose proof (N.mod_lt (c / 4096) 64 ltac:(lia)) as H6.
  absn ((c / 4096) mod 64). absn ((c / 64) mod 64). absn (c / 262144). absn (c / 4096).
  absn (c / 64). absn (c mod 64).
  cbn [app utf8_decode]. unfold cont. cmp; cbn [andb negb].
  all: replace ((240 + x1 - 240) * 262144 + (128 + x - 128) * 4096 + (128 + x0 - 128) * 64 + (128 + x4 - 128))
         with c by lia; reflexivity.
Qed.

Lemma utf8_cp_nonempty c bc : utf8_cp c = Some bc -> bc <> [].
Proof.
  unfold utf8_cp. destruct (c <? 128); [intros H; apply some_inj in H; subst; discriminate|].
  destruct (c <? 2048); [intros H; apply some_inj in H; subst; discriminate|].
  destruct (c <? 65536).
  { destruct ((55296 <=? c) && (c <=? 57343)); [discriminate|]. intros H; apply some_inj in H; subst; discriminate. }
  destruct (c <? 1114112); [|discriminate]. intros H; apply some_inj in H; subst; discriminate.
Qed.

Local Close Scope N_scope.

(* decode ∘ encode = id *)
Theorem utf8_decode_encode s : forall b fuel, utf8 s = Some b -> length b <= fuel -> utf8_decode fuel b = Some s.
Proof.
  induction s as [|c r IH]; intros b fuel H Hlen.
  - cbn [utf8] in H. apply some_inj in H. subst b. destruct fuel; reflexivity.
  - cbn [utf8] in H. destruct (utf8_cp c) as [bc|] eqn:Ec; [|discriminate].
    destruct (utf8 r) as [br|] eqn:Er; [|discriminate]. apply some_inj in H. subst b.
    pose proof (utf8_cp_nonempty c bc Ec) as Hne.
    rewrite app_length in Hlen.
    destruct fuel as [|k]; [destruct bc; [congruence|cbn [length] in Hlen; lia]|].
    rewrite (dec_step c bc k br Ec), (IH br k eq_refl); [reflexivity|].
    destruct bc; [congruence|cbn [length] in Hlen; lia].
Qed.

(* ---------- the decoder accepts only encodings ---------- *)

Local Open Scope N_scope.

Lemma cp2 a b1 : 194 <= a -> a <= 223 -> 128 <= b1 -> b1 <= 191 ->
  utf8_cp ((a - 192) * 64 + (b1 - 128)) = Some [a; b1].
Proof.
  intros H1 H2 H3 H4. set (c := (a - 192) * 64 + (b1 - 128)).
  assert (Eq : c / 64 = a - 192) by (symmetry; apply (N.div_unique c 64 (a - 192) (b1 - 128)); unfold c; lia).
  assert (Em : c mod 64 = b1 - 128) by (symmetry; apply (N.mod_unique c 64 (a - 192) (b1 - 128)); unfold c; lia).
  unfold utf8_cp. rewrite Eq, Em.
  destruct (N.ltb_spec c 128); [unfold c in *; lia|].
  destruct (N.ltb_spec c 2048); [|unfold c in *; lia].
  f_equal. f_equal; [lia|]. f_equal. lia.
Qed.

Lemma cp3 a b1 b2 : 224 <= a -> a <= 239 -> 128 <= b1 -> b1 <= 191 -> 128 <= b2 -> b2 <= 191 ->
  (a = 224 -> 160 <= b1) -> (a = 237 -> b1 < 160) ->
  utf8_cp ((a - 224) * 4096 + (b1 - 128) * 64 + (b2 - 128)) = Some [a; b1; b2].
Proof.
  intros H1 H2 H3 H4 H5 H6 Ho Hs. set (c := (a - 224) * 4096 + (b1 - 128) * 64 + (b2 - 128)).
  assert (Eq2 : c / 4096 = a - 224)
    by (symmetry; apply (N.div_unique c 4096 (a - 224) ((b1 - 128) * 64 + (b2 - 128))); unfold c; lia).
  assert (Eq1 : c / 64 = (a - 224) * 64 + (b1 - 128))
    by (symmetry; apply (N.div_unique c 64 _ (b2 - 128)); unfold c; lia).
  assert (Em1 : (c / 64) mod 64 = b1 - 128)
    by (rewrite Eq1; symmetry; apply (N.mod_unique _ 64 (a - 224) (b1 - 128)); lia).
  assert (Em0 : c mod 64 = b2 - 128)
    by (symmetry; apply (N.mod_unique c 64 ((a - 224) * 64 + (b1 - 128)) (b2 - 128)); unfold c; lia).
  unfold utf8_cp. rewrite Eq2, Em1, Em0.
  destruct (N.ltb_spec c 128); [unfold c in *; lia|].
  destruct (N.ltb_spec c 2048); [unfold c in *; lia|].
  destruct (N.ltb_spec c 65536); [|unfold c in *; lia].
  assert (Esur : (55296 <=? c) && (c <=? 57343) = false).
  { destruct (N.leb_spec 55296 c); [|reflexivity]. destruct (N.leb_spec c 57343); [|reflexivity].
    exfalso. unfold c in *. lia. }
  rewrite Esur. f_equal. f_equal; [lia|]. f_equal; [lia|]. f_equal. lia.
Qed.

Lemma cp4 a b1 b2 b3 : 240 <= a -> a <= 244 -> 128 <= b1 -> b1 <= 191 -> 128 <= b2 -> b2 <= 191 ->
  128 <= b3 -> b3 <= 191 -> (a = 240 -> 144 <= b1) -> (a = 244 -> b1 < 144) ->
  utf8_cp ((a - 240) * 262144 + (b1 - 128) * 4096 + (b2 - 128) * 64 + (b3 - 128)) = Some [a; b1; b2; b3].
Proof.
  intros H1 H2 H3 H4 H5 H6 H7 H8 Ho Hs.
  set (c := (a - 240) * 262144 + (b1 - 128) * 4096 + (b2 - 128) * 64 + (b3 - 128)).
  assert (Eq3 : c / 262144 = a - 240)
    by (symmetry; apply (N.div_unique c 262144 (a - 240) ((b1 - 128) * 4096 + (b2 - 128) * 64 + (b3 - 128)));
        unfold c; lia).
  assert (Eq2 : c / 4096 = (a - 240) * 64 + (b1 - 128))
    by (symmetry; apply (N.div_unique c 4096 _ ((b2 - 128) * 64 + (b3 - 128))); unfold c; lia).
  assert (Eq1 : c / 64 = (a - 240) * 4096 + (b1 - 128) * 64 + (b2 - 128))
    by (symmetry; apply (N.div_unique c 64 _ (b3 - 128)); unfold c; lia).
  assert (Em2 : (c / 4096) mod 64 = b1 - 128)
    by (rewrite Eq2; symmetry; apply (N.mod_unique _ 64 (a - 240) (b1 - 128)); lia).
  assert (Em1 : (c / 64) mod 64 = b2 - 128)
    by (rewrite Eq1; symmetry; apply (N.mod_unique _ 64 ((a - 240) * 64 + (b1 - 128)) (b2 - 128)); lia).
  assert (Em0 : c mod 64 = b3 - 128)
    by (symmetry; apply (N.mod_unique c 64 ((a - 240) * 4096 + (b1 - 128) * 64 + (b2 - 128)) (b3 - 128));
        unfold c; lia).
  unfold utf8_cp. rewrite Eq3, Em2, Em1, Em0.
  destruct (N.ltb_spec c 128); [unfold c in *; lia|].
  destruct (N.ltb_spec c 2048); [unfold c in *; lia|].
  destruct (N.ltb_spec c 65536); [unfold c in *; lia|].
  destruct (N.ltb_spec c 1114112); [|unfold c in *; lia].
  f_equal. f_equal; [lia|]. f_equal; [lia|]. f_equal; [lia|]. f_equal. lia.
Qed.

Local Close Scope N_scope.

Lemma option_map_some {A B} (f : A -> B) o y : option_map f o = Some y -> exists x, o = Some x /\ y = f x.
Proof. destruct o as [x|]; [|discriminate]. cbn. intros H. apply some_inj in H. eauto. Qed.

(* encode ∘ decode = id on what the decoder accepts *)
Theorem utf8_encode_decode fuel : forall b s, utf8_decode fuel b = Some s -> utf8 s = Some b.
Proof.
  induction fuel as [|k IH]; intros b s H.
  - destruct b; [|discriminate]. apply some_inj in H. subst s. reflexivity.
  - destruct b as [|a r]; [apply some_inj in H; subst s; reflexivity|].
    cbn [utf8_decode] in H.
    destruct (N.ltb_spec a 128) as [Ha|Ha].
    { apply option_map_some in H as (t & Ht & ->). cbn [utf8]. rewrite utf8_cp_ascii by exact Ha.
      rewrite (IH r t Ht). reflexivity. }
    destruct (N.leb_spec 194 a) as [Ha1|Ha1]; [destruct (N.leb_spec a 223) as [Ha2|Ha2]|]; cbn [andb] in H.
    { destruct r as [|b1 r']; [discriminate|]. unfold cont in H.
      destruct (N.leb_spec 128 b1) as [Hb1|Hb1]; [destruct (N.leb_spec b1 191) as [Hb2|Hb2]|]; cbn [andb] in H;
        try discriminate.
      apply option_map_some in H as (t & Ht & ->). cbn [utf8].
      rewrite cp2 by assumption. rewrite (IH r' t Ht). reflexivity. }
    2:{ exfalso. destruct (N.leb_spec 224 a); [lia|]. destruct (N.leb_spec 240 a); [lia|]. cbn [andb] in H. discriminate. }
    destruct (N.leb_spec 224 a) as [Ha3|Ha3]; [destruct (N.leb_spec a 239) as [Ha4|Ha4]|]; cbn [andb] in H.
    { destruct r as [|b1 [|b2 r']]; try discriminate. unfold cont in H.
      destruct (N.leb_spec 128 b1) as [Hb1|Hb1]; [destruct (N.leb_spec b1 191) as [Hb2|Hb2]|]; cbn [andb] in H;
        try discriminate.
      destruct (N.leb_spec 128 b2) as [Hc1|Hc1]; [destruct (N.leb_spec b2 191) as [Hc2|Hc2]|]; cbn [andb] in H;
        try discriminate.
      destruct (N.eqb_spec a 224) as [E224|E224]; [destruct (N.ltb_spec b1 160)|]; cbn [andb negb] in H;
        try discriminate.
      all: destruct (N.eqb_spec a 237) as [E237|E237]; [destruct (N.leb_spec 160 b1)|]; cbn [andb negb] in H;
        try discriminate.
      all: apply option_map_some in H as (t & Ht & ->); cbn [utf8];
        rewrite cp3 by (try assumption; lia); rewrite (IH r' t Ht); reflexivity. }
    2:{ exfalso. lia. }
    destruct (N.leb_spec 240 a) as [Ha5|Ha5]; [destruct (N.leb_spec a 244) as [Ha6|Ha6]|]; cbn [andb] in H;
      try discriminate.
    destruct r as [|b1 [|b2 [|b3 r']]]; try discriminate. unfold cont in H.
    destruct (N.leb_spec 128 b1) as [Hb1|Hb1]; [destruct (N.leb_spec b1 191) as [Hb2|Hb2]|]; cbn [andb] in H;
      try discriminate.
    destruct (N.leb_spec 128 b2) as [Hc1|Hc1]; [destruct (N.leb_spec b2 191) as [Hc2|Hc2]|]; cbn [andb] in H;
      try discriminate.
    destruct (N.leb_spec 128 b3) as [Hd1|Hd1]; [destruct (N.leb_spec b3 191) as [Hd2|Hd2]|]; cbn [andb] in H;
      try discriminate.
    destruct (N.eqb_spec a 240) as [E240|E240]; [destruct (N.ltb_spec b1 144)|]; cbn [andb negb] in H;
      try discriminate.
    all: destruct (N.eqb_spec a 244) as [E244|E244]; [destruct (N.leb_spec 144 b1)|]; cbn [andb negb] in H;
      try discriminate.
    all: apply option_map_some in H as (t & Ht & ->); cbn [utf8];
      rewrite cp4 by (try assumption; lia); rewrite (IH r' t Ht); reflexivity.
Qed.

(* ---------- structure of an encoded text ---------- *)

Lemma utf8_app s1 s2 b1 b2 : utf8 s1 = Some b1 -> utf8 s2 = Some b2 -> utf8 (s1 ++ s2) = Some (b1 ++ b2).
Proof.
  revert b1. induction s1 as [|c r IH]; intros b1 H1 H2.
  - apply some_inj in H1. subst b1. exact H2.
  - cbn [utf8 app] in *. destruct (utf8_cp c) as [bc|]; [|discriminate].
    destruct (utf8 r) as [br|]; [|discriminate]. apply some_inj in H1. subst b1.
    rewrite (IH br eq_refl H2), app_assoc. reflexivity.
Qed.

Lemma utf8_app_inv s1 s2 b : utf8 (s1 ++ s2) = Some b ->
  exists b1 b2, utf8 s1 = Some b1 /\ utf8 s2 = Some b2 /\ b = b1 ++ b2.
Proof.
  revert b. induction s1 as [|c r IH]; intros b H.
  - exists [], b. auto.
  - cbn [utf8 app] in *. destruct (utf8_cp c) as [bc|]; [|discriminate].
    destruct (utf8 (r ++ s2)) as [br|] eqn:E; [|discriminate]. apply some_inj in H. subst b.
    destruct (IH br eq_refl) as (b1 & b2 & E1 & E2 & ->). rewrite E1.
    exists (bc ++ b1), b2. rewrite app_assoc. auto.
Qed.

Lemma utf8_ascii_id s : Forall (fun c => (c < 128)%N) s -> utf8 s = Some s.
Proof.
  induction 1 as [|c r Hc Hr IH]; [reflexivity|]. cbn [utf8]. rewrite utf8_cp_ascii by exact Hc.
  rewrite IH. reflexivity.
Qed.

(* every byte of an encoded code point is the code point itself (ASCII) or at least 0x80 *)
Lemma utf8_cp_bytes_of c bc : utf8_cp c = Some bc -> Forall (fun x => x = c \/ (128 <= x)%N) bc.
Proof.
  intros H. destruct (N.ltb_spec c 128) as [Hc|Hc].
  - rewrite utf8_cp_ascii in H by exact Hc. apply some_inj in H. subst bc. constructor; [left; reflexivity|constructor].
  - eapply Forall_impl; [|exact (utf8_cp_high c bc Hc H)]. intros x Hx. right. exact Hx.
Qed.

Lemma utf8_bytes_of s b : utf8 s = Some b -> Forall (fun x => In x s \/ (128 <= x)%N) b.
Proof.
  revert b. induction s as [|c r IH]; intros b H; cbn [utf8] in H.
  - apply some_inj in H. subst b. constructor.
  - destruct (utf8_cp c) as [bc|] eqn:Ec; [|discriminate]. destruct (utf8 r) as [br|]; [|discriminate].
    apply some_inj in H. subst b. apply Forall_app. split.
    + eapply Forall_impl; [|exact (utf8_cp_bytes_of c bc Ec)]. intros x [->|Hx]; [left; left; reflexivity|right; exact Hx].
    + eapply Forall_impl; [|exact (IH br eq_refl)]. intros x [Hx|Hx]; [left; right; exact Hx|right; exact Hx].
Qed.

Lemma utf8_cp_last c bc : utf8_cp c = Some bc -> exists p z, bc = p ++ [z] /\ (z = c \/ (128 <= z)%N).
Proof.
  intros H. pose proof (utf8_cp_nonempty c bc H) as Hne.
  destruct (exists_last Hne) as (p & z & ->). exists p, z. split; [reflexivity|].
  pose proof (utf8_cp_bytes_of c _ H) as HF. apply Forall_app in HF. destruct HF as [_ HF].
  inversion HF; subst. assumption.
Qed.
