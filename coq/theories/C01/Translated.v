(* C01 — source-level tie for _parseparam and parse_header (baize/utils.py), the header-parameter parser that the
   multipart decoder (C01), and C12 / C15 through it, rest on.

   tools/py2coq_c01.py regenerates the Gallina definitions G.parseparam (with its two loops G.parseparam_while1, the outer
   `while s[:1] == ";"`, and G.parseparam_while2, the inner `while end > 0 and (count - count) % 2`) and G.parse_header
   from the CURRENT Python source on every check run (harness/c01.py: extra_obligations) and coqc re-checks this file
   against the fresh definitions (the two lines between the GENERATED markers re-pointed at the fresh file).
   Generated_ref.v is the committed copy of what the translator emitted when this file was written.

   What the translator is told: the argument is a str (the list of its code points).  A `while` is a Fixpoint on explicit
   fuel, S (length s) for the s at loop entry, whose out-of-fuel value None is distinct from every result; the generator
   _parseparam is the function that gives the list of the pieces it yields (it has no side effects, so running it to its
   end before the consumer starts changes nothing); an iterator is the list of the values still to come; the result of
   parse_header is PyStr.Ret of the pair returned or PyStr.Raise "StopIteration" if __next__ met an exhausted iterator.
   Slices, find, count, replace, s[k], % are small functions of C01/PyLib.v, strip / == / len / d[k] = v functions of
   Lib/PyStr.v, all compared with the interpreter on every run.  str.lower is NOT given a meaning by the translator: it is
   the argument py_lower of G.parse_header, instantiated below with the model's C01.Model.lower (a per-character map that is
   str.lower for code points up to U+00FF — compared with the interpreter on exactly those — and leaves everything above
   alone; CPython's lower is not a per-character map above that, e.g. U+0130).  So parse_header_translated speaks about
   the real parse_header for parameter NAMES within U+0000..U+00FF (values and the key are never lower-cased); this is the
   restriction the model itself states.

   The theorems, for EVERY text (no side condition):
     parseparam_translated     G.parseparam s = Some (M.parseparam (S (length s)) s)
                               (never out of fuel; the pieces are the model's, for the fuel the model's parse_header uses)
     parse_header_translated   G.parse_header M.lower line = Some (PyStr.Ret (M.parse_header line))
                               (never out of fuel, never StopIteration; key and options are the model's). *)
From Coq Require Import List NArith ZArith Bool Lia Arith.
From Baize Require Import Lib.Order Lib.PyStr Lib.PyStrFacts.
From Baize Require C01.Model C01.PyLib.
(* GENERATED-BEGIN *)
From Baize Require C01.Generated_ref.
Module G := Baize.C01.Generated_ref.
(* GENERATED-END *)
Module M := Baize.C01.Model.
Module PyLib := Baize.C01.PyLib.
Import ListNotations.

Definition optz (o : option nat) : Z := match o with Some n => Z.of_nat n | None => (-1)%Z end.

(* ---------- strip ---------- *)

Lemma lstrip_model : forall sp s, PyStr.lstrip_by sp s = M.lstrip sp s.
Proof.
  intros sp. induction s as [|c r IH]; [reflexivity|].
  cbn [PyStr.lstrip_by M.lstrip]. rewrite IH. reflexivity.
Qed.

Lemma rstrip_app_last : forall sp s c,
  PyStr.rstrip_by sp (s ++ [c]) = if sp c then PyStr.rstrip_by sp s else s ++ [c].
Proof.
  intros sp s c. induction s as [|x r IH].
  - cbn. destruct (sp c); reflexivity.
  - cbn [app PyStr.rstrip_by]. rewrite IH. destruct (sp c); [reflexivity|].
    destruct r; reflexivity.
Qed.

Lemma rstrip_model : forall sp s, PyStr.rstrip_by sp s = rev (M.lstrip sp (rev s)).
Proof.
  intros sp s. induction s as [|c l IH] using rev_ind; [reflexivity|].
  rewrite rstrip_app_last, rev_app_distr. cbn [rev app M.lstrip].
  destruct (sp c); [exact IH|].
  cbn [rev]. rewrite rev_involutive. reflexivity.
Qed.

Lemma strip_ws_model : forall s, PyStr.strip_ws s = M.strip M.is_uspace s.
Proof.
  intros s. unfold PyStr.strip_ws, PyStr.strip_by, M.strip.
  rewrite rstrip_model. rewrite (lstrip_model PyStr.is_space s). reflexivity.
Qed.

(* ---------- slices ---------- *)

Lemma clamp_nat : forall n m, PyLib.clamp (Z.of_nat n) (Z.of_nat m) = Nat.min n m.
Proof.
  intros n m. unfold PyLib.clamp. destruct (Z.ltb_spec (Z.of_nat n) 0); lia.
Qed.

Lemma firstn_min : forall (s : list N) n, firstn (Nat.min n (length s)) s = firstn n s.
Proof.
  intros s n. destruct (Nat.le_gt_cases n (length s)) as [H|H].
  - rewrite Nat.min_l by exact H. reflexivity.
  - rewrite Nat.min_r by lia. rewrite firstn_all, firstn_all2 by lia. reflexivity.
Qed.

Lemma skipn_min : forall (s : list N) n, skipn (Nat.min n (length s)) s = skipn n s.
Proof.
  intros s n. destruct (Nat.le_gt_cases n (length s)) as [H|H].
  - rewrite Nat.min_l by exact H. reflexivity.
  - rewrite Nat.min_r by lia. rewrite skipn_all, skipn_all2 by lia. reflexivity.
Qed.

Lemma slice_to_nat : forall n s, PyLib.slice_to (Z.of_nat n) s = firstn n s.
Proof. intros n s. unfold PyLib.slice_to, PyStr.len. rewrite clamp_nat. apply firstn_min. Qed.

Lemma slice_from_nat : forall n s, PyLib.slice_from (Z.of_nat n) s = skipn n s.
Proof. intros n s. unfold PyLib.slice_from, PyStr.len. rewrite clamp_nat. apply skipn_min. Qed.

Lemma slice_to_1 : forall s, PyLib.slice_to 1%Z s = firstn 1 s.
Proof. intro s. exact (slice_to_nat 1 s). Qed.

Lemma slice_from_1 : forall s, PyLib.slice_from 1%Z s = skipn 1 s.
Proof. intro s. exact (slice_from_nat 1 s). Qed.

Lemma slice_from_succ : forall n s, PyLib.slice_from (Z.of_nat n + 1)%Z s = skipn (S n) s.
Proof. intros n s. replace (Z.of_nat n + 1)%Z with (Z.of_nat (S n)) by lia. apply slice_from_nat. Qed.

Lemma slice_to_len : forall s, PyLib.slice_to (PyStr.len s) s = firstn (length s) s.
Proof. intro s. unfold PyStr.len at 1. apply slice_to_nat. Qed.

Lemma slice_from_len : forall s, PyLib.slice_from (PyStr.len s) s = skipn (length s) s.
Proof. intro s. unfold PyStr.len at 1. apply slice_from_nat. Qed.

Lemma slice_0_nat : forall n s, PyLib.slice 0%Z (Z.of_nat n) s = firstn n s.
Proof.
  intros n s. unfold PyLib.slice, PyStr.len. cbv zeta.
  change 0%Z with (Z.of_nat 0). rewrite !clamp_nat. cbn [Nat.min skipn].
  rewrite Nat.sub_0_r. apply firstn_min.
Qed.

(* ---------- find ---------- *)

Lemma find_aux_model : forall c s i from, (from <= i)%nat ->
  PyLib.find_char_aux c s (Z.of_nat i) = optz (M.find_from c s i from).
Proof.
  intros c. induction s as [|x r IH]; intros i from H; [reflexivity|].
  cbn [PyLib.find_char_aux M.find_from].
  replace (Nat.leb from i) with true by (symmetry; apply Nat.leb_le; exact H).
  rewrite andb_true_r. destruct (N.eqb x c); [reflexivity|].
  replace (Z.of_nat i + 1)%Z with (Z.of_nat (S i)) by lia. apply IH. lia.
Qed.

Lemma find_from_skip : forall c s i from, (i <= from)%nat ->
  M.find_from c s i from = M.find_from c (skipn (from - i) s) from from.
Proof.
  intros c. induction s as [|x r IH]; intros i from H.
  - destruct (from - i)%nat; reflexivity.
  - destruct (Nat.eq_dec i from) as [E|E].
    + subst i. rewrite Nat.sub_diag. reflexivity.
    + cbn [M.find_from]. replace (Nat.leb from i) with false by (symmetry; apply Nat.leb_gt; lia).
      rewrite andb_false_r. rewrite (IH (S i) from) by lia.
      replace (from - i)%nat with (S (from - S i)) by lia. reflexivity.
Qed.

Lemma find_char_model : forall c s from,
  PyLib.find_char c s (Z.of_nat from) = optz (M.find_from c s 0 from).
Proof.
  intros c s from. unfold PyLib.find_char. cbv zeta.
  replace (Z.of_nat from <? 0)%Z with false by (symmetry; apply Z.ltb_ge; lia).
  rewrite Nat2Z.id. rewrite (find_from_skip c s 0 from) by lia. rewrite Nat.sub_0_r.
  apply find_aux_model. lia.
Qed.

Lemma find_char_model_0 : forall c s, PyLib.find_char c s 0%Z = optz (M.find_from c s 0 0).
Proof. intros c s. exact (find_char_model c s 0). Qed.

Lemma find_char_model_succ : forall c s n,
  PyLib.find_char c s (Z.of_nat n + 1)%Z = optz (M.find_from c s 0 (S n)).
Proof. intros c s n. replace (Z.of_nat n + 1)%Z with (Z.of_nat (S n)) by lia. apply find_char_model. Qed.

Lemma find_from_bound : forall c s i from n,
  M.find_from c s i from = Some n -> (from <= n /\ i <= n /\ n < i + length s)%nat.
Proof.
  intros c. induction s as [|x r IH]; intros i from n H; [discriminate|].
  cbn [M.find_from] in H. cbn [length].
  destruct (N.eqb x c && Nat.leb from i) eqn:E.
  - injection H as H. subst n. apply andb_true_iff in E. destruct E as [_ E]. apply Nat.leb_le in E. lia.
  - apply IH in H. lia.
Qed.

(* p.find(c) against the model's partition *)
Lemma find_split_aux : forall c p j,
  match M.split_at_first c p with
  | Some (n, v) => exists i, PyLib.find_char_aux c p (Z.of_nat j) = Z.of_nat (j + i) /\ firstn i p = n /\ skipn (S i) p = v
  | None => PyLib.find_char_aux c p (Z.of_nat j) = (-1)%Z
  end.
Proof.
  intros c. induction p as [|x r IH]; intros j; [reflexivity|].
  cbn [M.split_at_first PyLib.find_char_aux]. destruct (N.eqb x c).
  - exists 0%nat. rewrite Nat.add_0_r. repeat split.
  - specialize (IH (S j)). replace (Z.of_nat j + 1)%Z with (Z.of_nat (S j)) by lia.
    destruct (M.split_at_first c r) as [[a b]|].
    + destruct IH as (i & H1 & H2 & H3). exists (S i). rewrite H1. repeat split.
      * f_equal. lia.
      * cbn [firstn]. rewrite H2. reflexivity.
      * exact H3.
    + exact IH.
Qed.

Lemma find_split : forall c p,
  match M.split_at_first c p with
  | Some (n, v) => exists i, PyLib.find_char c p 0%Z = Z.of_nat i /\ firstn i p = n /\ skipn (S i) p = v
  | None => PyLib.find_char c p 0%Z = (-1)%Z
  end.
Proof.
  intros c p. change (PyLib.find_char c p 0%Z) with (PyLib.find_char_aux c p (Z.of_nat 0)).
  exact (find_split_aux c p 0).
Qed.

(* ---------- count, parity ---------- *)

Lemma count1_model : forall c s, PyLib.count1 c s = Z.of_nat (M.count_c c s).
Proof. reflexivity. Qed.

Lemma count2_model : forall a b s, PyLib.count2 a b s = Z.of_nat (M.count_sub2 a b s).
Proof. reflexivity. Qed.

Lemma replace2_model : forall a b t s, PyLib.replace2 a b t s = M.replace2 a b t s.
Proof. reflexivity. Qed.

Lemma count_c_cons : forall c x s,
  M.count_c c (x :: s) = ((if N.eqb c x then 1 else 0) + M.count_c c s)%nat.
Proof. intros c x s. unfold M.count_c. cbn [filter]. destruct (N.eqb c x); reflexivity. Qed.

Lemma count_sub2_le : forall a b s,
  (M.count_sub2 a b s <= M.count_c b s)%nat /\ (forall x, M.count_sub2 a b (x :: s) <= M.count_c b (x :: s))%nat.
Proof.
  intros a b. induction s as [|y r [IH1 IH2]].
  - split; [cbn; lia|]. intro x. cbn [M.count_sub2]. lia.
  - split; [apply IH2|]. intro x.
    change (M.count_sub2 a b (x :: y :: r)) with (if N.eqb x a && N.eqb y b then S (M.count_sub2 a b r) else M.count_sub2 a b (y :: r)).
    destruct (N.eqb x a && N.eqb y b) eqn:E.
    + apply andb_true_iff in E. destruct E as [_ E]. apply N.eqb_eq in E. subst y.
      rewrite !count_c_cons. rewrite N.eqb_refl. destruct (N.eqb b x); lia.
    + specialize (IH2 y). rewrite (count_c_cons b x). destruct (N.eqb b x); lia.
Qed.

Lemma odd_of_nat : forall n, negb (Z.eqb (Z.modulo (Z.of_nat n) 2) 0) = Nat.odd n.
Proof.
  intro n. rewrite Zmod_odd.
  assert (H : Z.odd (Z.of_nat n) = Nat.odd n).
  { apply eq_true_iff_eq. rewrite Z.odd_spec, Nat.odd_spec. split; intros [m Hm].
    - exists (Z.to_nat m). lia.
    - exists (Z.of_nat m). lia. }
  rewrite H. destruct (Nat.odd n); reflexivity.
Qed.

Lemma parity_model : forall s,
  negb (Z.eqb (Z.modulo (Z.of_nat (M.count_c 34%N s) - Z.of_nat (M.count_sub2 92%N 34%N s)) 2) 0)
  = Nat.odd (M.count_c 34%N s - M.count_sub2 92%N 34%N s).
Proof.
  intro s. rewrite <- Nat2Z.inj_sub by apply count_sub2_le. apply odd_of_nat.
Qed.

Lemma parity_model1 : forall s,
  Z.eqb (Z.modulo (Z.of_nat (M.count_c 34%N s) - Z.of_nat (M.count_sub2 92%N 34%N s)) 2) 1
  = Nat.odd (M.count_c 34%N s - M.count_sub2 92%N 34%N s).
Proof.
  intro s. rewrite <- parity_model. rewrite Zmod_odd.
  destruct (Z.odd _); reflexivity.
Qed.

(* ---------- the inner loop ---------- *)

Ltac zcases :=
  repeat match goal with
         | |- context [Z.ltb ?a ?b] => destruct (Z.ltb_spec a b); try lia
         | |- context [Z.leb ?a ?b] => destruct (Z.leb_spec a b); try lia
         | |- context [Z.eqb ?a ?b] => destruct (Z.eqb_spec a b); try lia
         end.

Lemma param_end_bound : forall k s oe,
  (forall n, oe = Some n -> (n < length s)%nat) ->
  forall m, M.param_end k s oe = Some m -> (m < length s)%nat.
Proof.
  induction k as [|k IH]; intros s oe H m E; cbn [M.param_end] in E.
  - apply H. exact E.
  - destruct oe as [n|]; [|discriminate].
    destruct (Nat.ltb 0 n && Nat.odd (M.count_c M.DQUOTE (firstn n s) - M.count_sub2 M.BSLASH M.DQUOTE (firstn n s))).
    + eapply IH; [|exact E]. intros n' Hn'. apply find_from_bound in Hn'. lia.
    + apply H. exact E.
Qed.

Lemma while2_model : forall k fuel s oe,
  (k < fuel)%nat ->
  (forall n, oe = Some n -> (n < length s)%nat /\ (length s <= k + n)%nat) ->
  G.parseparam_while2 fuel s (optz oe) = Some (optz (M.param_end k s oe)).
Proof.
  induction k as [|k IH]; intros fuel s oe Hf Hb; (destruct fuel as [|fuel]; [lia|]);
    cbn [G.parseparam_while2 M.param_end]; cbv zeta.
  - destruct oe as [n|]; [destruct (Hb n eq_refl); lia|].
    cbn [optz]. zcases; reflexivity.
  - destruct oe as [n|]; cbn [optz]; [|zcases; reflexivity].
    destruct (Hb n eq_refl) as [Hn Hk].
    rewrite ?slice_0_nat, ?count1_model, ?count2_model, ?parity_model, ?parity_model1.
    unfold M.DQUOTE, M.BSLASH, M.SEMI.
    try rewrite (Z.add_comm 1%Z (Z.of_nat n)).
    rewrite ?find_char_model_succ.
    destruct (Nat.ltb_spec 0 n) as [Hp|Hp]; zcases; cbn [andb negb]; cbv iota; try reflexivity.
    destruct (Nat.odd (M.count_c 34%N (firstn n s) - M.count_sub2 92%N 34%N (firstn n s))); cbn [negb]; cbv iota;
      [|reflexivity].
    apply IH; [lia|].
    intros n' Hn'. apply find_from_bound in Hn'. lia.
Qed.

(* ---------- the outer loop ---------- *)

Lemma while1_model : forall fuel s, (length s < fuel)%nat ->
  G.parseparam_while1 fuel s = Some (M.parseparam fuel s).
Proof.
  induction fuel as [|k IH]; intros s Hf; [lia|].
  cbn [G.parseparam_while1 M.parseparam]; cbv zeta.
  rewrite slice_to_1. destruct s as [|c s1]; [reflexivity|].
  cbn [firstn PyStr.str_eqb]. rewrite andb_true_r. unfold M.SEMI.
  try rewrite (N.eqb_sym 59%N c).
  destruct (N.eqb c 59); [|reflexivity].
  rewrite slice_from_1. cbn [skipn]. cbn [length] in Hf.
  rewrite find_char_model_0.
  rewrite (while2_model (length s1) (S (length s1)) s1) by
    (try lia; intros n Hn; apply find_from_bound in Hn; lia).
  cbv beta iota.
  destruct (M.param_end (length s1) s1 (M.find_from 59 s1 0 0)) as [n|] eqn:E; cbn [optz].
  - zcases; cbn [negb]; cbv iota.
    rewrite slice_to_nat, slice_from_nat, strip_ws_model.
    rewrite IH by (rewrite skipn_length; lia). reflexivity.
  - zcases; cbn [negb]; cbv iota.
    rewrite slice_to_len, slice_from_len, strip_ws_model.
    rewrite IH by (rewrite skipn_length; lia). reflexivity.
Qed.

(* METHOD-BEGIN parseparam *)
Theorem parseparam_translated : forall s,
  G.parseparam s = Some (M.parseparam (S (length s)) s).
Proof.
  intro s. unfold G.parseparam. apply while1_model. lia.
Qed.
Print Assumptions parseparam_translated.
(* METHOD-END parseparam *)

(* ---------- parse_header ---------- *)

Lemma str_eqb_bytes_eqb : forall a b, PyStr.str_eqb a b = bytes_eqb a b.
Proof.
  induction a as [|x a IH]; intros [|y b]; cbn [PyStr.str_eqb bytes_eqb];
    first [reflexivity | rewrite IH; reflexivity].
Qed.

Lemma dict_set_model : forall k v d, PyStr.dict_set k v d = M.hput k v d.
Proof.
  intros k v. induction d as [|[k' v'] r IH]; [reflexivity|].
  cbn [PyStr.dict_set M.hput]. rewrite str_eqb_bytes_eqb.
  destruct (bytes_eqb k' k) eqn:E.
  - apply bytes_eqb_eq in E. subst k'. reflexivity.
  - rewrite IH. reflexivity.
Qed.

Lemma last_shape : forall (r : list N), r = [] \/ exists m q, r = m ++ [q].
Proof.
  intro r. induction r as [|x r _] using rev_ind; [left; reflexivity|right; exists r, x; reflexivity].
Qed.

Lemma len_cons_snoc : forall (q : N) m q', PyStr.len (q :: m ++ [q']) = (Z.of_nat (length m) + 2)%Z.
Proof. intros q m q'. unfold PyStr.len. cbn [length]. rewrite app_length. cbn [length]. lia. Qed.

Lemma char_at_0 : forall q r, PyLib.char_at 0%Z (q :: r) = [q].
Proof.
  intros q r. unfold PyLib.char_at, PyStr.len. cbv zeta. cbn [length].
  replace (0 <? 0)%Z with false by reflexivity.
  replace (0 <=? 0)%Z with true by reflexivity.
  replace (0 <? Z.of_nat (S (length r)))%Z with true by (symmetry; apply Z.ltb_lt; lia).
  reflexivity.
Qed.

Lemma char_at_last : forall q m q', PyLib.char_at (-1)%Z (q :: m ++ [q']) = [q'].
Proof.
  intros q m q'. unfold PyLib.char_at. cbv zeta. rewrite len_cons_snoc.
  replace (-1 <? 0)%Z with true by reflexivity.
  replace (0 <=? -1 + (Z.of_nat (length m) + 2))%Z with true by (symmetry; apply Z.leb_le; lia).
  replace (-1 + (Z.of_nat (length m) + 2) <? Z.of_nat (length m) + 2)%Z with true by (symmetry; apply Z.ltb_lt; lia).
  replace (Z.to_nat (-1 + (Z.of_nat (length m) + 2))) with (S (length m)) by lia.
  cbn [andb skipn]. rewrite skipn_app, skipn_all, Nat.sub_diag. reflexivity.
Qed.

Lemma slice_1_m1 : forall q m q', PyLib.slice 1%Z (-1)%Z (q :: m ++ [q']) = m.
Proof.
  intros q m q'. unfold PyLib.slice. cbv zeta. rewrite len_cons_snoc. unfold PyLib.clamp.
  replace (1 <? 0)%Z with false by reflexivity.
  replace (-1 <? 0)%Z with true by reflexivity.
  replace (Z.to_nat (Z.min 1 (Z.of_nat (length m) + 2))) with 1%nat by lia.
  replace (Z.to_nat (Z.max 0 (-1 + (Z.of_nat (length m) + 2))) - 1)%nat with (length m) by lia.
  cbn [skipn]. rewrite firstn_app, firstn_all, Nat.sub_diag. cbn [firstn]. apply app_nil_r.
Qed.

(* the test and the unquoting of parse_header, in the spelling of the source as it was when this file was written (a
   statement of what the code does; parse_header_translated does not depend on this spelling: it analyses the shape of the
   value and decides every comparison, so that reordered or commuted tests still prove) *)
Lemma quoted_model : forall v,
  (if (Z.leb 2 (PyStr.len v)) && (PyStr.str_eqb (PyLib.char_at 0%Z v) (PyLib.char_at (-1)%Z v) && PyStr.str_eqb (PyLib.char_at (-1)%Z v) [34%N])
   then PyLib.replace2 92%N 34%N [34%N] (PyLib.replace2 92%N 92%N [92%N] (PyLib.slice 1%Z (-1)%Z v))
   else v) = M.unquote_value v.
Proof.
  intros [|q r]; [reflexivity|].
  destruct (last_shape r) as [E|(m & q' & E)]; subst r.
  - unfold M.unquote_value. cbn [rev]. destruct (N.eqb q M.DQUOTE); reflexivity.
  - rewrite char_at_0, char_at_last, slice_1_m1, len_cons_snoc, !replace2_model.
    replace (Z.leb 2 (Z.of_nat (length m) + 2)) with true by (symmetry; apply Z.leb_le; lia).
    unfold M.unquote_value. rewrite rev_app_distr. cbn [rev app]. rewrite rev_involutive.
    unfold M.DQUOTE, M.BSLASH. cbn [PyStr.str_eqb andb]. rewrite !andb_true_r.
    destruct (N.eqb_spec q 34) as [H1|H1]; destruct (N.eqb_spec q' 34) as [H2|H2];
      destruct (N.eqb_spec q q') as [H3|H3]; cbn [andb]; try reflexivity; congruence.
Qed.

Lemma fold_left_ext2 : forall (A B : Type) (f g : A -> B -> A), (forall a b, f a b = g a b) ->
  forall l a, fold_left f l a = fold_left g l a.
Proof.
  intros A B f g H. induction l as [|x l IH]; intro a; [reflexivity|].
  cbn [fold_left]. rewrite H. apply IH.
Qed.

(* METHOD-BEGIN parse_header *)
Theorem parse_header_translated : forall line,
  G.parse_header M.lower line = Some (PyStr.Ret (M.parse_header line)).
Proof.
  intro line. unfold G.parse_header, M.parse_header.
  rewrite parseparam_translated.
  change ([59%N] ++ line) with (M.SEMI :: line). cbn [length].
  destruct (M.parseparam (S (S (length line))) (M.SEMI :: line)) as [|key ps] eqn:E.
  - exfalso. cbn [M.parseparam] in E. rewrite N.eqb_refl in E. discriminate.
  - cbv zeta. apply f_equal. apply f_equal. apply f_equal.
    apply fold_left_ext2. intros d p. cbv beta.
    unfold M.param_add, M.EQUALS.
    pose proof (find_split 61%N p) as H.
    destruct (M.split_at_first 61 p) as [[n v]|].
    + destruct H as (i & Hi & Hn & Hv). rewrite Hi.
      try rewrite (Z.add_comm 1%Z (Z.of_nat i)).
      rewrite ?slice_to_nat, ?slice_from_succ, ?Hn, ?Hv, ?strip_ws_model, ?dict_set_model, ?replace2_model.
      generalize (M.strip M.is_uspace v). intro w.
      destruct w as [|q r]; [|destruct (last_shape r) as [Hr|(m & q' & Hr)]; subst r];
        rewrite ?char_at_0, ?char_at_last, ?slice_1_m1, ?len_cons_snoc; unfold PyStr.len; cbn [length];
        zcases; cbn [andb negb PyStr.str_eqb]; cbv iota; rewrite ?andb_true_r;
        unfold M.unquote_value, M.DQUOTE, M.BSLASH; rewrite ?rev_app_distr; cbn [rev app]; rewrite ?rev_involutive;
        repeat match goal with |- context [N.eqb ?a ?b] => destruct (N.eqb_spec a b) end;
        cbn [andb negb]; cbv iota; try reflexivity; congruence.
    + rewrite H. reflexivity.
Qed.
Print Assumptions parse_header_translated.
(* METHOD-END parse_header *)
