(* C01 — Multipart decoding is exact and independent of how the body is chunked.
   Statements only; the proofs are in Framing.v, HdrProofs.v, HelperProofs.v, Proofs.v;
   the encoder and the well-formedness predicates are in Spec.v. *)
From Coq Require Import List NArith Bool Arith.
From Baize Require Import Lib.Wire Lib.Order C01.Model C01.Spec C01.Framing C01.HdrProofs C01.HelperProofs C01.Proofs.
Import ListNotations.

(* For every well-formed body (boundary free of CR/LF; preamble and contents free of "--boundary";
   header blocks without blank line that parse to a Field/File event) and EVERY list of chunks whose
   concatenation is the body (empty chunks and single bytes included), the decoder's events, grouped by
   part, are exactly (header event of block i, content i) for every part in order, then the epilogue;
   the same holds for the event stream the helpers see (end of input never signalled). *)
Theorem decode_framing :
  forall (b : bytes) (utf8 : bool) (pre : bytes) (first_crlf : bool) (ps : list part) (epi : bytes)
         (chunks : list bytes),
    wf_form b utf8 pre first_crlf ps = true ->
    concat chunks = encode_body b pre first_crlf ps epi ->
    collect (all_events (run_chunks b utf8 new_decoder chunks)) None = map (done utf8) ps ++ [PEpi] /\
    collect (chunk_events b utf8 new_decoder chunks) None = map (done utf8) ps.
Proof. exact decode_framing_proof. Qed.
Print Assumptions decode_framing.

(* Hold-back safety (the windowed search of the DATA state): while the buffer holds no "--boundary",
   the cut never passes the end of the content, whatever bytes arrive later. *)
Theorem hold_back_safe :
  forall (b c A buf fut : bytes),
    no_crlf b = true ->
    buf ++ fut = c ++ CRLF ++ dashes b ++ A ->
    has_sub (dashes b) buf = false ->
    window_cut b buf <= length c.
Proof. exact hold_back_safety. Qed.
Print Assumptions hold_back_safe.

(* Hold-back safety, second case: "--boundary" is in the buffer but the rest of the delimiter line is
   not yet — the pending delimiter that is found is the true one, the cut is the end of the content. *)
Theorem hold_back_safe_pending :
  forall (b c t : bytes),
    no_crlf b = true -> has_sub (dashes b) c = false -> t = [] \/ t = [DASH] ->
    pending_cut b (c ++ CRLF ++ dashes b ++ t) = length c.
Proof. exact pending_is_true. Qed.
Print Assumptions hold_back_safe_pending.

(* Leftmost = true: when the content is free of "--boundary" the leftmost match of the delimiter
   pattern is the real delimiter. *)
Theorem leftmost_match_is_true_delimiter :
  forall (b c t : bytes) (tl : nat) (cl : bool),
    no_crlf b = true -> has_sub (dashes b) c = false -> tail_match t = Some (tl, cl) ->
    search_delim false (dashes b) (c ++ CRLF ++ dashes b ++ t) =
    Some (length c, length c + (2 + length (dashes b) + tl), cl).
Proof. exact leftmost_is_true. Qed.
Print Assumptions leftmost_match_is_true_delimiter.

(* Part headers: the block rendered from a name, an optional filename and extra headers parses back
   to exactly that name, filename and header mapping, and is a block framing accepts. *)
Theorem decode_headers :
  forall (utf8 : bool) (name : bytes) (filename : option bytes) (extra : list header),
    name_ok name = true -> filename_ok filename = true -> forallb extra_ok extra = true ->
    parse_part utf8 (render_headers name filename extra) = PEvent (rendered_event name filename extra) /\
    hdr_ok utf8 (render_headers name filename extra) = true.
Proof. exact decode_headers_proof. Qed.
Print Assumptions decode_headers.

(* The stream helpers: for every chunking of a well-formed body within the limits the result is the
   list of (name, text | file) items of the parts, in order. *)
Theorem helper_exact :
  forall (b : bytes) (utf8 : bool) (pre : bytes) (first_crlf : bool) (ps : list part) (epi : bytes)
         (max_parts : nat) (max_mem : option nat) (chunks : list bytes),
    wf_form b utf8 pre first_crlf ps = true ->
    concat chunks = encode_body b pre first_crlf ps epi ->
    length ps <= max_parts ->
    mem_ok max_mem (map (fun p => (part_event utf8 (fst p), snd p)) ps) ->
    parse_stream b utf8 max_parts max_mem chunks =
    HItems (map (fun p => item_of utf8 (part_event utf8 (fst p)) (snd p)) ps).
Proof. exact helper_exact_proof. Qed.
Print Assumptions helper_exact.

(* The property (names, filenames and header values over printable ASCII; C01_full in Spec.v also
   covers other text, which the correspondence check covers): every chunking of the encoded form
   yields exactly the encoded parts at the event level and exactly the encoded items from the helper. *)
Theorem C01_main_partial :
  forall (b : bytes) (utf8 : bool) (pre : bytes) (first_crlf : bool) (fields : list field) (epi : bytes)
         (max_parts : nat) (max_mem : option nat) (chunks : list bytes),
    form_ok b pre first_crlf fields = true ->
    concat chunks = form_body b pre first_crlf fields epi ->
    collect (all_events (run_chunks b utf8 new_decoder chunks)) None = map field_done fields ++ [PEpi] /\
    (limits_ok max_parts max_mem fields ->
     parse_stream b utf8 max_parts max_mem chunks = HItems (map (field_item utf8) fields)).
Proof. exact C01_main_proof. Qed.
Print Assumptions C01_main_partial.

(* Any two chunkings of the same well-formed body give the same parts and the same helper result. *)
Theorem chunking_independent :
  forall (b : bytes) (utf8 : bool) (pre : bytes) (first_crlf : bool) (ps : list part) (epi : bytes)
         (max_parts : nat) (max_mem : option nat) (chunks1 chunks2 : list bytes),
    wf_form b utf8 pre first_crlf ps = true ->
    concat chunks1 = encode_body b pre first_crlf ps epi ->
    concat chunks2 = concat chunks1 ->
    collect (all_events (run_chunks b utf8 new_decoder chunks1)) None =
    collect (all_events (run_chunks b utf8 new_decoder chunks2)) None /\
    (length ps <= max_parts ->
     mem_ok max_mem (map (fun p => (part_event utf8 (fst p), snd p)) ps) ->
     parse_stream b utf8 max_parts max_mem chunks1 = parse_stream b utf8 max_parts max_mem chunks2).
Proof. exact chunking_independent_proof. Qed.
Print Assumptions chunking_independent.

(* ---- non-vacuity: a form with two parts (a file and a field) whose contents hold CR, LF, dashes and a
   proper prefix of the delimiter; boundary made of dashes; byte-at-a-time chunking with empty chunks ---- *)

Example ex_form_ok : form_ok ex_b [120; 13]%N true ex_fields = true.
Proof. vm_compute. reflexivity. Qed.

Example ex_chunking : concat (ex_bytewise (form_body ex_b [120; 13]%N true ex_fields [101]%N)) =
                      form_body ex_b [120; 13]%N true ex_fields [101]%N.
Proof. vm_compute. reflexivity. Qed.

Example ex_limits : limits_ok 2 (Some 5) ex_fields.
Proof. vm_compute. split; repeat constructor. Qed.

Example ex_wf : wf_form ex_b true [120; 13]%N true (map field_part ex_fields) = true.
Proof. vm_compute. reflexivity. Qed.
