(* C01 — Multipart decoding is exact and independent of how the body is chunked.
   Statements only; the proofs are in Framing.v, HdrProofs.v, HelperProofs.v, Proofs.v;
   the encoder and the well-formedness predicates are in Spec.v. *)
From Coq Require Import List NArith Bool Arith.
From Baize Require Import Lib.Wire Lib.Order Lib.Utf8 C01.Model C01.Spec C01.Utf8Proofs C01.Framing C01.HdrProofs C01.HelperProofs C01.Proofs.
Import ListNotations.

(* For every well-formed body (boundary free of CR/LF; preamble and contents free of "--boundary";
   header blocks without blank line that parse to a Field/File event) and EVERY list of chunks whose
   concatenation is the body (empty chunks and single bytes included), the decoder's events, grouped by
   part, are exactly (header event of block i, content i) for every part in order, then the epilogue;
   the same holds for the event stream the helpers see (end of input never signalled). *)
Theorem decode_framing :
  forall (b : bytes) (utf8 : bool) (pre : bytes) (first_crlf : bool) (ps : list part) (epi : bytes)
         (chunks : list bytes),
    wf_form b utf8 pre first_crlf ps = true ->
    concat chunks = encode_body b pre first_crlf ps epi ->
    collect (all_events (run_chunks b utf8 new_decoder chunks)) None = map (done utf8) ps ++ [PEpi] /\
    collect (chunk_events b utf8 new_decoder chunks) None = map (done utf8) ps.
Proof. exact decode_framing_proof. Qed.
Print Assumptions decode_framing.

(* Hold-back safety (the windowed search of the DATA state): while the buffer holds no "--boundary",
   the cut never passes the end of the content, whatever bytes arrive later. *)
Theorem hold_back_safe :
  forall (b c A buf fut : bytes),
    no_crlf b = true ->
    buf ++ fut = c ++ CRLF ++ dashes b ++ A ->
    has_sub (dashes b) buf = false ->
    window_cut b buf <= length c.
Proof. exact hold_back_safety. Qed.
Print Assumptions hold_back_safe.

(* Hold-back safety, second case: "--boundary" is in the buffer but the rest of the delimiter line is
   not yet — the pending delimiter that is found is the true one, the cut is the end of the content. *)
Theorem hold_back_safe_pending :
  forall (b c t : bytes),
    no_crlf b = true -> has_sub (dashes b) c = false -> t = [] \/ t = [DASH] ->
    pending_cut b (c ++ CRLF ++ dashes b ++ t) = length c.
Proof. exact pending_is_true. Qed.
Print Assumptions hold_back_safe_pending.

(* Leftmost = true: when the content is free of "--boundary" the leftmost match of the delimiter
   pattern is the real delimiter. *)
Theorem leftmost_match_is_true_delimiter :
  forall (b c t : bytes) (tl : nat) (cl : bool),
    no_crlf b = true -> has_sub (dashes b) c = false -> tail_match t = Some (tl, cl) ->
    search_delim false (dashes b) (c ++ CRLF ++ dashes b ++ t) =
    Some (length c, length c + (2 + length (dashes b) + tl), cl).
Proof. exact leftmost_is_true. Qed.
Print Assumptions leftmost_match_is_true_delimiter.

(* Part headers: the block rendered from a name, an optional filename and extra headers parses back
   to exactly that name, filename and header mapping, and is a block framing accepts. *)
Theorem decode_headers :
  forall (utf8 : bool) (name : bytes) (filename : option bytes) (extra : list header),
    name_ok name = true -> filename_ok filename = true -> forallb extra_ok extra = true ->
    parse_part utf8 (render_headers name filename extra) = PEvent (rendered_event name filename extra) /\
    hdr_ok utf8 (render_headers name filename extra) = true.
Proof. exact decode_headers_proof. Qed.
Print Assumptions decode_headers.

(* The stream helpers: for every chunking of a well-formed body within the limits the result is the
   list of (name, text | file) items of the parts, in order. *)
Theorem helper_exact :
  forall (b : bytes) (utf8 : bool) (pre : bytes) (first_crlf : bool) (ps : list part) (epi : bytes)
         (max_parts : nat) (max_mem : option nat) (chunks : list bytes),
    wf_form b utf8 pre first_crlf ps = true ->
    concat chunks = encode_body b pre first_crlf ps epi ->
    length ps <= max_parts ->
    mem_ok max_mem (map (fun p => (part_event utf8 (fst p), snd p)) ps) ->
    parse_stream b utf8 max_parts max_mem chunks =
    HItems (map (fun p => item_of utf8 (part_event utf8 (fst p)) (snd p)) ps).
Proof. exact helper_exact_proof. Qed.
Print Assumptions helper_exact.

(* The property for names, filenames and header values over printable ASCII (where text and bytes coincide
   in both charsets): the instance of C01_main below that was proved first; kept under its name. *)
Theorem C01_main_partial :
  forall (b : bytes) (utf8 : bool) (pre : bytes) (first_crlf : bool) (fields : list field) (epi : bytes)
         (max_parts : nat) (max_mem : option nat) (chunks : list bytes),
    form_ok b pre first_crlf fields = true ->
    concat chunks = form_body b pre first_crlf fields epi ->
    collect (all_events (run_chunks b utf8 new_decoder chunks)) None = map field_done fields ++ [PEpi] /\
    (limits_ok max_parts max_mem fields ->
     parse_stream b utf8 max_parts max_mem chunks = HItems (map (field_item utf8) fields)).
Proof. exact C01_main_proof. Qed.
Print Assumptions C01_main_partial.

(* ---- text: names, filenames, header values and field texts in the request's charset ---- *)

(* The codec.  The strict UTF-8 decoder of Model.v (CPython's bytes.decode("utf-8")) inverts the encoder of
   Lib/Utf8.v (str.encode("utf-8")) on every sequence of Unicode scalar values; it accepts nothing but
   encodings, so "not valid UTF-8" and "the decoder fails" are the same; and every byte of an encoded text is
   a character of the text or at least 0x80 (a quote, backslash, CR, LF, ';', ':', '=' or blank byte is that
   character). *)
Theorem utf8_codec :
  (forall s b, Lib.Utf8.utf8 s = Some b -> utf8_decode (length b) b = Some s) /\
  (forall b s, utf8_decode (length b) b = Some s -> Lib.Utf8.utf8 s = Some b) /\
  (forall s b, Lib.Utf8.utf8 s = Some b -> forall x, In x b -> In x s \/ (128 <= x)%N).
Proof. exact utf8_codec_proof. Qed.
Print Assumptions utf8_codec.

(* Part headers, as text.  [name] and [filename] are ANY text without double quote, backslash, CR, LF
   (NUL, VT, FF, FS..US, NEL, NBSP, U+2028, U+3000, ... anywhere, also first or last: they are inside the
   quotes) that the charset can carry (UTF-8: the Unicode scalar values; Latin-1: below U+0100); the values of
   [extra] any text without CR, LF whose first and last character str.strip() keeps (or empty).  The block
   rendered from their encodings parses, in the decoder's charset, to the event that carries the text. *)
Theorem decode_headers_text :
  forall (utf8 : bool) (name : list N) (filename : option (list N)) (extra : list header)
         (nb : bytes) (fb : option bytes) (eb : list header),
    tname_ok name = true -> tfilename_ok filename = true -> forallb textra_ok extra = true ->
    encode_text utf8 name = Some nb -> encode_opt utf8 filename = Some fb -> encode_extra utf8 extra = Some eb ->
    parse_part utf8 (render_headers nb fb eb) = PEvent (rendered_event name filename extra) /\
    hdr_ok utf8 (render_headers nb fb eb) = true.
Proof. exact decode_headers_text_proof. Qed.
Print Assumptions decode_headers_text.

(* The text of a field (what helper_exact's [item_of] is for a part without filename): charset UTF-8 and the
   content the encoding of [t] -> [t]; charset UTF-8 and the content not valid UTF-8 -> every byte as the
   character of the same number (safe_decode's Latin-1 fallback); charset Latin-1 -> likewise. *)
Theorem field_text :
  forall (f : tfield), t_filename f = None ->
    (forall t, Lib.Utf8.utf8 t = Some (t_content f) -> tfield_item true f = IText (Some (t_name f)) t) /\
    ((forall t, Lib.Utf8.utf8 t <> Some (t_content f)) -> tfield_item true f = IText (Some (t_name f)) (t_content f)) /\
    tfield_item false f = IText (Some (t_name f)) (t_content f).
Proof. exact field_text_proof. Qed.
Print Assumptions field_text.

(* The property.  A form whose fields carry text names, filenames and header values ([tform_ok]: as in
   decode_headers_text; boundary free of CR/LF; preamble and contents free of "--boundary"), encoded in the
   charset the decoder uses ([encode_fields]: defined iff the charset can carry every name), cut into chunks in
   ANY way: at the event level exactly the parts (name, filename, header mapping as text; content byte for
   byte) in order, then the epilogue; from the helper, within the limits, exactly the items. *)
Theorem C01_main :
  forall (b : bytes) (utf8 : bool) (pre : bytes) (first_crlf : bool) (tfields : list tfield) (fields : list field)
         (epi : bytes) (max_parts : nat) (max_mem : option nat) (chunks : list bytes),
    tform_ok b pre first_crlf tfields = true ->
    encode_fields utf8 tfields = Some fields ->
    concat chunks = form_body b pre first_crlf fields epi ->
    collect (all_events (run_chunks b utf8 new_decoder chunks)) None = map tfield_done tfields ++ [PEpi] /\
    (limits_ok max_parts max_mem fields ->
     parse_stream b utf8 max_parts max_mem chunks = HItems (map (tfield_item utf8) tfields)).
Proof. exact C01_main_text_proof. Qed.
Print Assumptions C01_main.

(* The full statement as it was laid down in Spec.v ([C01_full], repeated here word for word) before it
   could be proved: a consequence of C01_main. *)
Theorem C01_full_holds :
  forall (b : bytes) (utf8 : bool) (pre : bytes) (first_crlf : bool) (epi : bytes)
         (texts : list (list N * option (list N))) (fields : list field)
         (max_parts : nat) (max_mem : option nat) (chunks : list bytes),
    Forall2 (fun t f =>
               forallb text_char (fst t) = true /\ encode_text utf8 (fst t) = Some (f_name f) /\
               match snd t, f_filename f with
               | Some ft, Some fb => forallb text_char ft = true /\ encode_text utf8 ft = Some fb
               | None, None => True
               | _, _ => False
               end /\
               forallb extra_ok (f_extra f) = true /\ has_sub (dashes b) (f_content f) = false)
            texts fields ->
    no_crlf b = true -> has_sub (dashes b) pre = false -> (first_crlf = true \/ pre = []) ->
    concat chunks = form_body b pre first_crlf fields epi ->
    limits_ok max_parts max_mem fields ->
    exists items,
      parse_stream b utf8 max_parts max_mem chunks = HItems items /\
      Forall2 (fun t i =>
                 match snd t, i with
                 | None, IText n _ => n = Some (fst t)
                 | Some ft, IFile n fn _ _ => n = Some (fst t) /\ fn = ft
                 | _, _ => False
                 end) texts items /\
      Forall2 (fun f i =>
                 match i with
                 | IText _ txt => txt = safe_decode utf8 (f_content f)
                 | IFile _ _ _ c => c = f_content f
                 end) fields items.
Proof. exact C01_full_proof. Qed.
Print Assumptions C01_full_holds.

(* Any two chunkings of the same well-formed body give the same parts and the same helper result. *)
Theorem chunking_independent :
  forall (b : bytes) (utf8 : bool) (pre : bytes) (first_crlf : bool) (ps : list part) (epi : bytes)
         (max_parts : nat) (max_mem : option nat) (chunks1 chunks2 : list bytes),
    wf_form b utf8 pre first_crlf ps = true ->
    concat chunks1 = encode_body b pre first_crlf ps epi ->
    concat chunks2 = concat chunks1 ->
    collect (all_events (run_chunks b utf8 new_decoder chunks1)) None =
    collect (all_events (run_chunks b utf8 new_decoder chunks2)) None /\
    (length ps <= max_parts ->
     mem_ok max_mem (map (fun p => (part_event utf8 (fst p), snd p)) ps) ->
     parse_stream b utf8 max_parts max_mem chunks1 = parse_stream b utf8 max_parts max_mem chunks2).
Proof. exact chunking_independent_proof. Qed.
Print Assumptions chunking_independent.

(* ---- non-vacuity: a form with two parts (a file and a field) whose contents hold CR, LF, dashes and a
   proper prefix of the delimiter; boundary made of dashes; byte-at-a-time chunking with empty chunks ---- *)

Example ex_form_ok : form_ok ex_b [120; 13]%N true ex_fields = true.
Proof. vm_compute. reflexivity. Qed.

Example ex_chunking : concat (ex_bytewise (form_body ex_b [120; 13]%N true ex_fields [101]%N)) =
                      form_body ex_b [120; 13]%N true ex_fields [101]%N.
Proof. vm_compute. reflexivity. Qed.

Example ex_limits : limits_ok 2 (Some 5) ex_fields.
Proof. vm_compute. split; repeat constructor. Qed.

Example ex_wf : wf_form ex_b true [120; 13]%N true (map field_part ex_fields) = true.
Proof. vm_compute. reflexivity. Qed.

(* ---- non-vacuity of the text statements: a file whose name is "a", NUL, U+20AC, U+2028 (a character
   str.strip and str.splitlines know, last in the name), whose filename starts with NEL and ends with U+1F600,
   with a header value "é;" U+3000 "x"; and a field whose name is VT, NBSP ---- *)

Example ex_tform_ok : tform_ok ex_b [120; 13]%N true ex_tfields = true.
Proof. vm_compute. reflexivity. Qed.

Example ex_tencode_utf8 : encode_fields true ex_tfields = Some ex_tfields_utf8.
Proof. vm_compute. reflexivity. Qed.

(* Latin-1 cannot carry U+20AC: the hypothesis of C01_main fails, as it must *)
Example ex_tencode_latin1 : encode_fields false ex_tfields = None.
Proof. vm_compute. reflexivity. Qed.

Example ex_tencode_latin1_ok : encode_fields false [ex_tfield2] = Some [ex_tfield2_latin1].
Proof. vm_compute. reflexivity. Qed.
