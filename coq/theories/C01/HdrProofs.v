From Coq Require Import List NArith Bool Arith Lia.
From Baize Require Import Lib.Wire Lib.Order Lib.Utf8 C01.Model C01.Spec C01.Utf8Proofs.
Import ListNotations.

(* C01 — proof of [decode_headers_text_statement] (names, filenames and header values as text in the
   request's charset) and of its ASCII instance [decode_headers_statement]: a rendered header block
   parses back to the event it stands for, and satisfies [hdr_ok]. *)

(* ---------- character classes ---------- *)

Definition prc (c : N) : Prop := (32 <= c /\ c <= 126)%N.     (* printable ASCII *)
Definition visc (c : N) : Prop := (33 <= c /\ c <= 126)%N.    (* visible ASCII *)

Lemma visc_prc c : visc c -> prc c.
Proof. unfold visc, prc. lia. Qed.

Lemma forallb_Forall {A} (f : A -> bool) (P : A -> Prop) (l : list A) :
  (forall x, f x = true -> P x) -> forallb f l = true -> Forall P l.
Proof.
  intros HP. induction l as [|x l IH]; cbn [forallb]; intros H.
  - constructor.
  - apply andb_true_iff in H. destruct H as [H1 H2]. constructor; auto.
Qed.

Lemma Forall_imp {A} (P Q : A -> Prop) l : (forall x, P x -> Q x) -> Forall P l -> Forall Q l.
Proof. intros H HF. induction HF; constructor; auto. Qed.

Lemma is_bspace_vis c : visc c -> is_bspace c = false.
Proof.
  unfold visc, is_bspace. intros [H1 H2].
  destruct (N.eqb_spec c 32); [lia|].
  destruct (N.leb_spec c 13); [lia|].
  rewrite andb_false_r. reflexivity.
Qed.

Lemma is_uspace_vis c : visc c -> is_uspace c = false.
Proof.
  unfold visc, is_uspace. intros [H1 H2].
  destruct (N.leb_spec c 13); [lia|].
  destruct (N.leb_spec c 32); [lia|].
  destruct (N.eqb_spec c 133); [lia|].
  destruct (N.eqb_spec c 160); [lia|].
  destruct (N.eqb_spec c 5760); [lia|].
  destruct (N.leb_spec 8192 c); [lia|].
  destruct (N.eqb_spec c 8232); [lia|].
  destruct (N.eqb_spec c 8233); [lia|].
  destruct (N.eqb_spec c 8239); [lia|].
  destruct (N.eqb_spec c 8287); [lia|].
  destruct (N.eqb_spec c 12288); [lia|].
  rewrite !andb_false_r. reflexivity.
Qed.

Lemma is_sptab_vis c : visc c -> is_sptab c = false.
Proof.
  unfold visc, is_sptab. intros [H1 H2].
  destruct (N.eqb_spec c 32); [lia|].
  destruct (N.eqb_spec c 9); [lia|]. reflexivity.
Qed.

(* a byte, or a character, that is not a line break *)
Definition ncl (c : N) : Prop := c <> CR /\ c <> LF.
(* a byte that is ASCII / that belongs to a multi-byte sequence *)
Definition asc (c : N) : Prop := (c < 128)%N.

Lemma prc_ncl c : prc c -> ncl c.
Proof. unfold prc, ncl, CR, LF. lia. Qed.
Lemma visc_ncl c : visc c -> ncl c.
Proof. intros H. apply prc_ncl, visc_prc, H. Qed.
Lemma high_ncl c : (128 <= c)%N -> ncl c.
Proof. unfold ncl, CR, LF. lia. Qed.
Lemma prc_asc c : prc c -> asc c.
Proof. unfold prc, asc. lia. Qed.

Lemma ncl_not_cr c : ncl c -> N.eqb c CR = false.
Proof. intros [H _]. apply N.eqb_neq. exact H. Qed.
Lemma ncl_not_lf c : ncl c -> N.eqb c LF = false.
Proof. intros [_ H]. apply N.eqb_neq. exact H. Qed.
Lemma ncl_not_cr' c : ncl c -> N.eqb CR c = false.
Proof. intros [H _]. apply N.eqb_neq. congruence. Qed.
Lemma ncl_not_lf' c : ncl c -> N.eqb LF c = false.
Proof. intros [_ H]. apply N.eqb_neq. congruence. Qed.

Lemma is_bspace_high c : (128 <= c)%N -> is_bspace c = false.
Proof.
  unfold is_bspace. intros H.
  destruct (N.eqb_spec c 32); [lia|].
  destruct (N.leb_spec c 13); [lia|].
  rewrite andb_false_r. reflexivity.
Qed.

(* what bytes.strip() removes, str.strip() removes as well *)
Lemma is_bspace_uspace c : is_uspace c = false -> is_bspace c = false.
Proof.
  unfold is_uspace, is_bspace. intros H.
  apply orb_false_iff in H. destruct H as [H _]. repeat (apply orb_false_iff in H; destruct H as [H ?]).
  apply orb_false_iff. split; [|exact H].
  match goal with H1 : (28 <=? c)%N && (c <=? 32)%N = false |- _ => rename H1 into H28 end.
  destruct (N.eqb_spec c 32) as [->|]; [discriminate H28|reflexivity].
Qed.

(* ---------- lines ---------- *)

(* a non-empty line without line break whose first character is visible ASCII *)
Definition gl (l : bytes) : Prop :=
  match l with c :: r => visc c /\ Forall ncl r | [] => False end.

Lemma gl_pr l : gl l -> Forall ncl l.
Proof. destruct l as [|c r]; cbn [gl]; [tauto|]. intros [H1 H2]. constructor; auto using visc_ncl. Qed.

Definition fm (ls : list bytes) : bytes := flat_map (fun l => CRLF ++ l) ls.

Lemma fm_cons l ls : fm (l :: ls) = CR :: LF :: l ++ fm ls.
Proof. reflexivity. Qed.

(* (a) no continuation lines *)
Lemma uc_pr l rest : Forall ncl l ->
  unfold_continuations (l ++ rest) = l ++ unfold_continuations rest.
Proof.
  induction 1 as [|c l Hc Hl IH]; [reflexivity|].
  cbn [app unfold_continuations].
  rewrite (ncl_not_cr c Hc), (ncl_not_lf c Hc), IH. reflexivity.
Qed.

Lemma uc_crlf c rest : visc c ->
  unfold_continuations (CR :: LF :: c :: rest) = CR :: LF :: unfold_continuations (c :: rest).
Proof.
  intros Hc.
  change (unfold_continuations (CR :: LF :: c :: rest)) with
    (if is_sptab c then SP :: unfold_continuations rest
     else CR :: (if is_sptab c then SP :: unfold_continuations rest
                 else LF :: unfold_continuations (c :: rest))).
  rewrite (is_sptab_vis c Hc). reflexivity.
Qed.

Lemma uc_fm ls : Forall gl ls -> unfold_continuations (fm ls) = fm ls.
Proof.
  induction 1 as [|l ls Hl Hls IH]; [reflexivity|].
  rewrite fm_cons. destruct l as [|c r]; [destruct Hl|].
  cbn [app]. rewrite uc_crlf by apply Hl.
  change (c :: r ++ fm ls) with ((c :: r) ++ fm ls).
  rewrite uc_pr by (apply gl_pr; exact Hl). rewrite IH. reflexivity.
Qed.

(* (b) splitlines *)
Lemma sl_pr l rest : Forall ncl l -> forall cur,
  splitlines_aux (l ++ rest) cur = splitlines_aux rest (rev l ++ cur).
Proof.
  induction 1 as [|c l Hc Hl IH]; intros cur; [reflexivity|].
  cbn [app splitlines_aux rev].
  rewrite (ncl_not_cr c Hc), (ncl_not_lf c Hc), IH, <- app_assoc. reflexivity.
Qed.

Lemma sl_fm ls : Forall gl ls -> forall cur, cur <> [] ->
  splitlines_aux (fm ls) cur = rev cur :: ls.
Proof.
  induction 1 as [|l ls Hl Hls IH]; intros cur Hcur.
  - cbn. destruct cur; [congruence|reflexivity].
  - rewrite fm_cons.
    change (splitlines_aux (CR :: LF :: l ++ fm ls) cur) with (rev cur :: splitlines_aux (l ++ fm ls) []).
    rewrite sl_pr by (apply gl_pr; exact Hl). rewrite app_nil_r, IH.
    + rewrite rev_involutive. reflexivity.
    + destruct l; [destruct Hl|]. cbn [rev]. intros E. apply app_eq_nil in E. destruct E; discriminate.
Qed.

Lemma splitlines_joined l0 ls : gl l0 -> Forall gl ls ->
  splitlines (l0 ++ fm ls) = l0 :: ls.
Proof.
  intros H0 Hls. unfold splitlines. rewrite sl_pr by (apply gl_pr; exact H0).
  rewrite app_nil_r, sl_fm; auto.
  - rewrite rev_involutive. reflexivity.
  - destruct l0; [destruct H0|]. cbn [rev]. intros E. apply app_eq_nil in E. destruct E; discriminate.
Qed.

(* (c) no blank line *)
Lemma bl_head c r : ncl c -> blank_len (c :: r) = None.
Proof.
  intros Hc. unfold blank_len. cbn [starts_with].
  rewrite (ncl_not_cr' c Hc), (ncl_not_lf' c Hc). reflexivity.
Qed.

Lemma search_cons {A} (m : bytes -> option A) c r i :
  m (c :: r) = None -> search m (c :: r) i = search m r (S i).
Proof. intros H. cbn [search]. rewrite H. reflexivity. Qed.

Lemma nb_pr l rest : Forall ncl l -> (forall i, search blank_len rest i = None) ->
  forall i, search blank_len (l ++ rest) i = None.
Proof.
  intros Hl Hrest. induction Hl as [|c l Hc Hl IH]; intros i; [apply Hrest|].
  cbn [app search]. rewrite bl_head by exact Hc. apply IH.
Qed.

Lemma nb_crlf c r : ncl c -> (forall i, search blank_len (c :: r) i = None) ->
  forall i, search blank_len (CR :: LF :: c :: r) i = None.
Proof.
  intros Hc H i.
  assert (E1 : blank_len (CR :: LF :: c :: r) = None).
  { unfold blank_len. cbn [starts_with]. rewrite (ncl_not_cr' c Hc). reflexivity. }
  assert (E2 : blank_len (LF :: c :: r) = None).
  { unfold blank_len. cbn [starts_with]. rewrite (ncl_not_lf' c Hc). reflexivity. }
  cbn [search]. rewrite E1, E2. apply H.
Qed.

Lemma nb_fm ls : Forall gl ls -> forall i, search blank_len (fm ls ++ [CR; LF; CR]) i = None.
Proof.
  induction 1 as [|l ls Hl Hls IH]; intros i; [reflexivity|].
  rewrite fm_cons. destruct l as [|c r]; [destruct Hl|].
  cbn [app]. rewrite <- app_assoc. destruct Hl as [Hc Hr]. apply nb_crlf; [apply visc_ncl; exact Hc|].
  intros j. change (c :: r ++ fm ls ++ [CR; LF; CR]) with ((c :: r) ++ fm ls ++ [CR; LF; CR]).
  apply nb_pr; [constructor; auto using visc_ncl|exact IH].
Qed.

Lemma no_blank_joined l0 ls : gl l0 -> Forall gl ls ->
  no_blank (LF :: (l0 ++ fm ls) ++ [CR; LF; CR]) = true.
Proof.
  intros H0 Hls. unfold no_blank.
  assert (E : search blank_len (LF :: (l0 ++ fm ls) ++ [CR; LF; CR]) 0 = None).
  { rewrite <- app_assoc. destruct l0 as [|c r]; [destruct H0|]. destruct H0 as [Hc Hr].
    assert (E2 : blank_len (LF :: (c :: r) ++ fm ls ++ [CR; LF; CR]) = None).
    { unfold blank_len. cbn [starts_with app]. rewrite (ncl_not_lf' c (visc_ncl c Hc)). reflexivity. }
    rewrite search_cons by exact E2.
    apply nb_pr; [constructor; auto using visc_ncl|apply nb_fm; exact Hls]. }
  rewrite E. reflexivity.
Qed.

(* ---------- strip ---------- *)

Definition hd_ok (sp : N -> bool) (s : bytes) : Prop :=
  match s with c :: _ => sp c = false | [] => True end.

Lemma lstrip_id sp s : hd_ok sp s -> lstrip sp s = s.
Proof. destruct s as [|c r]; cbn [hd_ok lstrip]; [reflexivity|]. intros ->. reflexivity. Qed.

Lemma strip_id sp s : hd_ok sp s -> hd_ok sp (rev s) -> strip sp s = s.
Proof.
  intros H1 H2. unfold strip. rewrite (lstrip_id sp s H1), (lstrip_id sp (rev s) H2).
  apply rev_involutive.
Qed.

Lemma strip_sp_cons sp c s : sp c = true -> strip sp (c :: s) = strip sp s.
Proof. intros H. unfold strip. cbn [lstrip]. rewrite H. reflexivity. Qed.

(* a string with a known first and a known last character *)
Lemma strip_ends sp s a t z t' :
  s = a :: t -> s = t' ++ [z] -> sp a = false -> sp z = false -> strip sp s = s.
Proof.
  intros E1 E2 Ha Hz. apply strip_id.
  - rewrite E1. exact Ha.
  - rewrite E2, rev_unit. exact Hz.
Qed.

(* ---------- encoding and decoding text ---------- *)

Lemma forallb_lt256_asc s : Forall asc s -> forallb (fun c => N.ltb c 256) s = true.
Proof.
  induction 1 as [|c r Hc Hr IH]; [reflexivity|]. cbn [forallb]. rewrite IH, andb_true_r.
  apply N.ltb_lt. unfold asc in Hc. lia.
Qed.

Lemma enc_ascii utf8 s : Forall asc s -> encode_text utf8 s = Some s.
Proof.
  intros H. unfold encode_text. destruct utf8; [apply utf8_ascii_id; exact H|].
  rewrite forallb_lt256_asc by exact H. reflexivity.
Qed.

Lemma enc_nil utf8 b : encode_text utf8 [] = Some b -> b = [].
Proof. destruct utf8; cbn; intros H; apply some_inj in H; auto. Qed.

Lemma enc_app utf8 s1 s2 b1 b2 :
  encode_text utf8 s1 = Some b1 -> encode_text utf8 s2 = Some b2 -> encode_text utf8 (s1 ++ s2) = Some (b1 ++ b2).
Proof.
  unfold encode_text. destruct utf8; [apply utf8_app|].
  rewrite forallb_app.
  destruct (forallb (fun c => N.ltb c 256) s1); [|discriminate].
  destruct (forallb (fun c => N.ltb c 256) s2); [|discriminate].
  intros H1 H2. apply some_inj in H1, H2. subst. reflexivity.
Qed.

Lemma enc_app_inv utf8 s1 s2 b : encode_text utf8 (s1 ++ s2) = Some b ->
  exists b1 b2, encode_text utf8 s1 = Some b1 /\ encode_text utf8 s2 = Some b2 /\ b = b1 ++ b2.
Proof.
  unfold encode_text. destruct utf8; [apply utf8_app_inv|].
  rewrite forallb_app.
  destruct (forallb (fun c => N.ltb c 256) s1); [|discriminate].
  destruct (forallb (fun c => N.ltb c 256) s2); [|discriminate].
  intros H. apply some_inj in H. subst. eauto.
Qed.

(* a byte of an encoded text is a character of the text or at least 0x80 *)
Lemma enc_bytes_of utf8 s b : encode_text utf8 s = Some b -> Forall (fun x => In x s \/ (128 <= x)%N) b.
Proof.
  unfold encode_text. destruct utf8; [apply utf8_bytes_of|].
  destruct (forallb (fun c => N.ltb c 256) s); [|discriminate].
  intros H. apply some_inj in H. subst b. apply Forall_forall. intros x Hx. left. exact Hx.
Qed.

Lemma enc_ncl utf8 s b : encode_text utf8 s = Some b -> Forall ncl s -> Forall ncl b.
Proof.
  intros H Hs. eapply Forall_imp; [|exact (enc_bytes_of utf8 s b H)].
  intros x [Hx|Hx]; [|apply high_ncl; exact Hx].
  rewrite Forall_forall in Hs. apply Hs, Hx.
Qed.

Lemma enc_last utf8 t z b : encode_text utf8 (t ++ [z]) = Some b ->
  exists p zb, b = p ++ [zb] /\ (zb = z \/ (128 <= zb)%N).
Proof.
  intros H. apply enc_app_inv in H. destruct H as (b1 & b2 & _ & H2 & ->).
  unfold encode_text in H2. destruct utf8.
  - cbn [Lib.Utf8.utf8] in H2. destruct (utf8_cp z) as [bc|] eqn:Ec; [|discriminate].
    apply some_inj in H2. rewrite app_nil_r in H2. subst b2.
    destruct (utf8_cp_last z bc Ec) as (p & zb & -> & Hz).
    exists (b1 ++ p), zb. rewrite app_assoc. auto.
  - destruct (forallb (fun c => N.ltb c 256) [z]); [|discriminate]. apply some_inj in H2. subst b2.
    exists b1, z. auto.
Qed.

(* safe_decode in the charset of the encoder gives the text back *)
Lemma enc_decode utf8 s b : encode_text utf8 s = Some b -> safe_decode utf8 b = s.
Proof.
  unfold encode_text, safe_decode. destruct utf8.
  - intros H. rewrite (utf8_decode_encode s b (length b) H (le_n _)). reflexivity.
  - destruct (forallb (fun c => N.ltb c 256) s); [|discriminate]. intros H. apply some_inj in H. auto.
Qed.

(* ---------- partition ---------- *)

Lemma saf_app x a b : Forall (fun c => c <> x) a -> split_at_first x (a ++ x :: b) = Some (a, b).
Proof.
  induction 1 as [|c a Hc Ha IH]; cbn [app split_at_first].
  - rewrite N.eqb_refl. reflexivity.
  - apply N.eqb_neq in Hc. rewrite Hc, IH. reflexivity.
Qed.

(* ---------- one header line ---------- *)

Definition hkc (c : N) : Prop := visc c /\ c <> COLON.

Definition kgood (k : bytes) : Prop := k <> [] /\ Forall hkc k.

(* a header value as text: no line break, and empty or with ends that str.strip() keeps *)
Definition vgood (v : bytes) : Prop :=
  Forall ncl v /\
  (v = [] \/ ((exists a t, v = a :: t /\ is_uspace a = false) /\ (exists z t, v = t ++ [z] /\ is_uspace z = false))).

Definition kvgood (kv : header) : Prop := kgood (fst kv) /\ vgood (snd kv).

(* [kvb] is the header [kv] with its value encoded *)
Definition encv (utf8 : bool) (kv kvb : header) : Prop :=
  fst kvb = fst kv /\ encode_text utf8 (snd kv) = Some (snd kvb).

Lemma kgood_first k : kgood k -> exists a t, k = a :: t /\ visc a.
Proof.
  intros [Hne Hk]. destruct k as [|a t]; [congruence|]. exists a, t. split; [reflexivity|].
  inversion Hk as [|? ? Ha ?]; subst. apply Ha.
Qed.

Lemma kgood_last k : kgood k -> exists z t, k = t ++ [z] /\ visc z.
Proof.
  intros [Hne Hk]. destruct (exists_last Hne) as (t & z & E). exists z, t. split; [exact E|].
  subst k. apply Forall_app in Hk. destruct Hk as [_ Hk]. inversion Hk as [|? ? Hz ?]; subst. apply Hz.
Qed.

Lemma kgood_asc k : kgood k -> Forall asc k.
Proof.
  intros [_ Hk]. eapply Forall_imp; [|exact Hk]. intros x [Hx _]. apply prc_asc, visc_prc, Hx.
Qed.

Lemma kvgood_gl utf8 kv kvb : kvgood kv -> encv utf8 kv kvb -> gl (render_line kvb).
Proof.
  destruct kv as [k v]. destruct kvb as [k' vb]. intros [Hk Hv] [Ek Ev]. cbn [fst snd] in *. subst k'.
  unfold render_line. cbn [fst snd].
  destruct (kgood_first k Hk) as (a & t & E & Ha). subst k.
  cbn [app gl]. split; [exact Ha|].
  destruct Hk as [_ Hk]. inversion Hk as [|? ? _ Ht]; subst.
  apply Forall_app. split.
  - eapply Forall_imp; [|exact Ht]. intros x [Hx _]. apply visc_ncl, Hx.
  - constructor; [unfold ncl, COLON, CR, LF; split; discriminate|].
    constructor; [unfold ncl, SP, CR, LF; split; discriminate|].
    apply (enc_ncl utf8 v vb Ev). apply Hv.
Qed.

Lemma strip_trail sp s z : s <> [] -> hd_ok sp s -> sp z = true -> strip sp (s ++ [z]) = strip sp s.
Proof.
  intros Hne Hhd Hz. unfold strip.
  assert (E1 : lstrip sp (s ++ [z]) = s ++ [z]).
  { apply lstrip_id. destruct s; [congruence|exact Hhd]. }
  rewrite E1, (lstrip_id sp s Hhd), rev_unit. cbn [lstrip]. rewrite Hz. reflexivity.
Qed.

Lemma header_line_good utf8 hs k v vb : kgood k -> vgood v -> encode_text utf8 v = Some vb ->
  header_line utf8 (Some hs) (render_line (k, vb)) = Some (hs ++ [(k, v)]).
Proof.
  intros Hk Hv Ev.
  unfold render_line. cbn [fst snd].
  destruct (kgood_first k Hk) as (a & t & Ek & Ha).
  destruct (kgood_last k Hk) as (zk & tk & Ek' & Hzk).
  assert (Ek2 : strip is_uspace k = k).
  { apply (strip_ends is_uspace k a t zk tk Ek Ek'); apply is_uspace_vis; assumption. }
  assert (Hnc : Forall (fun x => x <> COLON) k).
  { destruct Hk as [_ Hk]. eapply Forall_imp; [|exact Hk]. intros x [_ Hx]. exact Hx. }
  assert (Easc : encode_text utf8 (k ++ [COLON]) = Some (k ++ [COLON])).
  { apply enc_ascii. apply Forall_app. split; [apply kgood_asc, Hk|].
    constructor; [unfold asc, COLON; lia|constructor]. }
  destruct Hv as [Hncl [-> | [(b & u & Ev1 & Hb) (z & u' & Ev' & Hz)]]].
  - (* the empty value: "name: " is stripped to "name:" *)
    apply enc_nil in Ev. subst vb.
    assert (Es : strip is_bspace (k ++ [COLON; SP] ++ []) = k ++ [COLON]).
    { change (k ++ [COLON; SP] ++ []) with (k ++ [COLON] ++ [SP]). rewrite app_assoc.
      rewrite strip_trail.
      - apply (strip_ends is_bspace _ a (t ++ [COLON]) COLON k).
        + rewrite Ek. reflexivity.
        + reflexivity.
        + apply is_bspace_vis, Ha.
        + reflexivity.
      - rewrite Ek. discriminate.
      - rewrite Ek. cbn [app hd_ok]. apply is_bspace_vis, Ha.
      - reflexivity. }
    assert (El : exists a' t', k ++ [COLON] = a' :: t') by (rewrite Ek; cbn [app]; eauto).
    destruct El as (a' & t' & El).
    unfold header_line. rewrite Es, El. cbv iota. rewrite <- El.
    rewrite (enc_decode utf8 _ _ Easc).
    rewrite (saf_app COLON k [] Hnc), Ek2. reflexivity.
  - destruct (enc_last utf8 u' z vb) as (p & zb & Evb & Hzb); [rewrite <- Ev'; exact Ev|].
    assert (Hzb' : is_bspace zb = false).
    { destruct Hzb as [->|Hzb]; [apply is_bspace_uspace, Hz|apply is_bspace_high, Hzb]. }
    assert (Es : strip is_bspace (k ++ [COLON; SP] ++ vb) = k ++ [COLON; SP] ++ vb).
    { eapply (strip_ends is_bspace _ a (t ++ [COLON; SP] ++ vb) zb (k ++ [COLON; SP] ++ p)).
      - rewrite Ek. reflexivity.
      - rewrite Evb at 1. rewrite <- !app_assoc. reflexivity.
      - apply is_bspace_vis, Ha.
      - exact Hzb'. }
    assert (El : exists a' t', k ++ [COLON; SP] ++ vb = a' :: t') by (rewrite Ek; cbn [app]; eauto).
    destruct El as (a' & t' & El).
    unfold header_line. rewrite Es, El. cbv iota. rewrite <- El.
    assert (Eline : encode_text utf8 (k ++ [COLON; SP] ++ v) = Some (k ++ [COLON; SP] ++ vb)).
    { change (k ++ [COLON; SP] ++ v) with (k ++ [COLON] ++ [SP] ++ v).
      change (k ++ [COLON; SP] ++ vb) with (k ++ [COLON] ++ [SP] ++ vb).
      rewrite !app_assoc. rewrite <- (app_assoc _ [SP] v), <- (app_assoc _ [SP] vb).
      apply enc_app; [exact Easc|]. apply enc_app; [|exact Ev].
      apply enc_ascii. constructor; [unfold asc, SP; lia|constructor]. }
    rewrite (enc_decode utf8 _ _ Eline).
    assert (Esp : split_at_first COLON (k ++ [COLON; SP] ++ v) = Some (k, SP :: v)).
    { apply (saf_app COLON k (SP :: v) Hnc). }
    rewrite Esp.
    assert (Ev2 : strip is_uspace (SP :: v) = v).
    { rewrite strip_sp_cons by reflexivity.
      apply (strip_ends is_uspace v b u z u' Ev1 Ev'); assumption. }
    rewrite Ek2, Ev2. reflexivity.
Qed.

Lemma header_lines_good utf8 items itemsb : Forall kvgood items -> Forall2 (encv utf8) items itemsb -> forall hs,
  fold_left (header_line utf8) (map render_line itemsb) (Some hs) = Some (hs ++ items).
Proof.
  intros Hg H2. revert Hg.
  induction H2 as [|[k v] [k' vb] items itemsb [Ek Ev] H2 IH]; intros Hg hs; cbn [map fold_left].
  - rewrite app_nil_r. reflexivity.
  - inversion Hg as [|? ? [Hk Hv] Hitems]; subst. cbn [fst snd] in *. subst k'.
    rewrite (header_line_good utf8 hs k v vb Hk Hv Ev). rewrite IH by exact Hitems. rewrite <- app_assoc. reflexivity.
Qed.

Lemma fm_map items : flat_map (fun kv => CRLF ++ render_line kv) items = fm (map render_line items).
Proof. induction items as [|kv items IH]; [reflexivity|]. cbn [flat_map map]. rewrite IH. reflexivity. Qed.

Lemma block_joined kv items :
  render_line kv ++ flat_map (fun kv => CRLF ++ render_line kv) items
  = render_line kv ++ fm (map render_line items).
Proof. rewrite fm_map. reflexivity. Qed.

Lemma Forall_map_gl utf8 items itemsb :
  Forall kvgood items -> Forall2 (encv utf8) items itemsb -> Forall gl (map render_line itemsb).
Proof.
  intros Hg H2. revert Hg. induction H2 as [|kv kvb items itemsb He H2 IH]; intros Hg; cbn [map]; [constructor|].
  inversion Hg; subst. constructor; [eapply kvgood_gl; eassumption|apply IH; assumption].
Qed.

Lemma header_items_good utf8 kv kvb items itemsb :
  kvgood kv -> encv utf8 kv kvb -> Forall kvgood items -> Forall2 (encv utf8) items itemsb ->
  header_items utf8 (render_line kvb ++ fm (map render_line itemsb)) = Some (kv :: items).
Proof.
  intros Hkv He Hitems H2. unfold header_items.
  pose proof (kvgood_gl utf8 kv kvb Hkv He) as Hgl. pose proof (Forall_map_gl utf8 items itemsb Hitems H2) as Hgls.
  rewrite uc_pr by (apply gl_pr; exact Hgl). rewrite uc_fm by exact Hgls.
  rewrite splitlines_joined by assumption.
  change (render_line kvb :: map render_line itemsb) with (map render_line (kvb :: itemsb)).
  rewrite (header_lines_good utf8 (kv :: items) (kvb :: itemsb)) by (constructor; assumption). reflexivity.
Qed.

(* ---------- Headers() ---------- *)

Lemma hget_hput_other k k' v st : bytes_eqb k' k = false -> hget k (hput k' v st) = hget k st.
Proof.
  intros Hne. induction st as [|[k0 v0] st IH]; cbn [hput hget].
  - rewrite Hne. reflexivity.
  - destruct (bytes_eqb k0 k') eqn:E0; cbn [hget].
    + apply bytes_eqb_eq in E0. subst k0. rewrite Hne. reflexivity.
    + rewrite IH. reflexivity.
Qed.

Lemma hget_headers_add_other k st kv :
  bytes_eqb (lower (fst kv)) k = false -> hget k (headers_add st kv) = hget k st.
Proof.
  intros Hne. unfold headers_add. destruct (hget (lower (fst kv)) st); apply hget_hput_other; exact Hne.
Qed.

Lemma hget_fold_other k items : Forall (fun kv => bytes_eqb (lower (fst kv)) k = false) items ->
  forall st, hget k (fold_left headers_add items st) = hget k st.
Proof.
  induction 1 as [|kv items Hkv Hitems IH]; intros st; cbn [fold_left]; [reflexivity|].
  rewrite IH. apply hget_headers_add_other. exact Hkv.
Qed.

Lemma hget_cd cdv items :
  Forall (fun kv => bytes_eqb (lower (fst kv)) k_content_disposition = false) items ->
  hget k_content_disposition (headers_of ((s_content_disposition, cdv) :: items)) = Some cdv.
Proof.
  intros H. unfold headers_of. cbn [fold_left]. rewrite hget_fold_other by exact H. reflexivity.
Qed.

(* ---------- parse_header: counting, searching ---------- *)

Lemma count_c_app c a b : count_c c (a ++ b) = count_c c a + count_c c b.
Proof. unfold count_c. rewrite filter_app, app_length. reflexivity. Qed.

Lemma count_c_none c s : Forall (fun x => x <> c) s -> count_c c s = 0.
Proof.
  unfold count_c. induction 1 as [|x s Hx Hs IH]; [reflexivity|]. cbn [filter].
  destruct (N.eqb_spec c x); [congruence|]. exact IH.
Qed.

Lemma count_sub2_none a b s : Forall (fun x => x <> a) s -> count_sub2 a b s = 0.
Proof.
  induction 1 as [|x s Hx Hs IH]; [reflexivity|]. destruct s as [|y r]; [reflexivity|].
  change (count_sub2 a b (x :: y :: r)) with
    (if N.eqb x a && N.eqb y b then S (count_sub2 a b r) else count_sub2 a b (y :: r)).
  apply N.eqb_neq in Hx. rewrite Hx. cbn [andb]. exact IH.
Qed.

Lemma replace2_none a b by_ s : Forall (fun x => x <> a) s -> replace2 a b by_ s = s.
Proof.
  induction 1 as [|x s Hx Hs IH]; [reflexivity|]. destruct s as [|y r]; [reflexivity|].
  change (replace2 a b by_ (x :: y :: r)) with
    (if N.eqb x a && N.eqb y b then by_ ++ replace2 a b by_ r else x :: replace2 a b by_ (y :: r)).
  apply N.eqb_neq in Hx. rewrite Hx. cbn [andb]. rewrite IH. reflexivity.
Qed.

Lemma firstn_len_app n (l r : bytes) : n = length l -> firstn n (l ++ r) = l.
Proof.
  intros ->. induction l as [|x l IH]; [reflexivity|]. cbn [length app firstn]. rewrite IH. reflexivity.
Qed.

Lemma skipn_len_app n (l r : bytes) : n = length l -> skipn n (l ++ r) = r.
Proof.
  intros ->. induction l as [|x l IH]; [reflexivity|]. cbn [length app skipn]. exact IH.
Qed.

Lemma ff_skip_noc c A t from : Forall (fun x => x <> c) A -> forall i j, j = i + length A ->
  find_from c (A ++ t) i from = find_from c t j from.
Proof.
  induction 1 as [|x A Hx HA IH]; intros i j ->; cbn [app length find_from].
  - f_equal. lia.
  - apply N.eqb_neq in Hx. rewrite Hx. cbn [andb]. apply IH. lia.
Qed.

Lemma ff_skip_before c A t from : forall i j, j = i + length A -> j <= from ->
  find_from c (A ++ t) i from = find_from c t j from.
Proof.
  induction A as [|x A IH]; intros i j -> Hle; cbn [app length find_from] in *.
  - f_equal. lia.
  - assert (E : Nat.leb from i = false) by (apply Nat.leb_gt; lia).
    rewrite E, andb_false_r. apply IH; lia.
Qed.

Lemma ff_hit c t i from : from <= i -> find_from c (c :: t) i from = Some i.
Proof.
  intros H. cbn [find_from]. rewrite N.eqb_refl. apply Nat.leb_le in H. rewrite H. reflexivity.
Qed.

Lemma split_first c (l : bytes) :
  Forall (fun x => x <> c) l \/ exists M l', l = M ++ c :: l' /\ Forall (fun x => x <> c) M.
Proof.
  induction l as [|x l IH]; [left; constructor|].
  destruct (N.eq_dec x c) as [->|Hne].
  - right. exists [], l. split; [reflexivity|constructor].
  - destruct IH as [IH|(M & l' & -> & HM)].
    + left. constructor; auto.
    + right. exists (x :: M), l'. split; [reflexivity|constructor; auto].
Qed.

Lemma Forall_ne_compute c (l : bytes) :
  forallb (fun x => negb (N.eqb x c)) l = true -> Forall (fun x => x <> c) l.
Proof.
  apply forallb_Forall. intros x H. apply negb_true_iff, N.eqb_neq in H. exact H.
Qed.

(* ---------- param_end ---------- *)

Definition qcount (s : bytes) : nat := count_c DQUOTE s - count_sub2 BSLASH DQUOTE s.

Lemma param_end_none fuel s : param_end fuel s None = None.
Proof. destruct fuel; reflexivity. Qed.

Lemma param_end_stop fuel s n : Nat.odd (qcount (firstn n s)) = false ->
  param_end fuel s (Some n) = Some n.
Proof.
  unfold qcount. intros H. destruct fuel; [reflexivity|]. cbn [param_end]. rewrite H, andb_false_r. reflexivity.
Qed.

Lemma param_end_step k s n : 0 < n -> Nat.odd (qcount (firstn n s)) = true ->
  param_end (S k) s (Some n) = param_end k s (find_from SEMI s 0 (S n)).
Proof.
  unfold qcount. intros Hn H. cbn [param_end]. rewrite H. apply Nat.ltb_lt in Hn. rewrite Hn. reflexivity.
Qed.

(* the opening text of a parameter up to and including the opening quote *)
Definition Aok (A : bytes) : Prop :=
  A <> [] /\ count_c DQUOTE A = 1 /\ Forall (fun c => c <> BSLASH) A /\ Forall (fun c => c <> SEMI) A.
Definition nq (s : bytes) : Prop := Forall (fun c => c <> DQUOTE) s.
Definition nbs (s : bytes) : Prop := Forall (fun c => c <> BSLASH) s.
Definition Rok (R : bytes) : Prop := R = [] \/ exists R', R = SEMI :: R'.

Definition tailres (A N R : bytes) : option nat :=
  match R with [] => None | _ => Some (length A + length N + 1) end.

Lemma qcount_open A X : Aok A -> nq X -> nbs X -> qcount (A ++ X) = 1.
Proof.
  intros (_ & HA1 & HA2 & _) Hq Hb. unfold qcount.
  rewrite count_c_app, HA1, (count_c_none DQUOTE X Hq).
  rewrite count_sub2_none by (apply Forall_app; split; assumption). reflexivity.
Qed.

Lemma qcount_closed A X : Aok A -> nq X -> nbs X -> qcount (A ++ X ++ [DQUOTE]) = 2.
Proof.
  intros (_ & HA1 & HA2 & _) Hq Hb. unfold qcount.
  rewrite !count_c_app, HA1, (count_c_none DQUOTE X Hq).
  rewrite count_sub2_none.
  - reflexivity.
  - apply Forall_app; split; [assumption|]. apply Forall_app; split; [assumption|].
    constructor; [discriminate|constructor].
Qed.

Lemma pe_loop A N R : Aok A -> nq N -> nbs N -> Rok R ->
  forall fuel N1 N2 from i, N = N1 ++ N2 -> length N2 < fuel -> i = length A + length N1 -> from <= i ->
  param_end fuel (A ++ N ++ DQUOTE :: R) (find_from SEMI (N2 ++ DQUOTE :: R) i from) = tailres A N R.
Proof.
  intros HA Hq Hb HR. induction fuel as [|k IH]; intros N1 N2 from i EN Hfuel Ei Hfrom; [lia|].
  assert (HlenA : 0 < length A) by (destruct HA as [HA _]; destruct A; [congruence|cbn [length]; lia]).
  destruct (split_first SEMI N2) as [Hns | (M & N2' & E2 & HM)].
  - rewrite (ff_skip_noc SEMI N2 _ from Hns i (i + length N2) eq_refl).
    assert (Elen : i + length N2 = length A + length N) by (rewrite Ei, EN, app_length; lia).
    destruct HR as [->|(R' & ->)].
    + cbn [find_from]. change (N.eqb DQUOTE SEMI) with false. cbn [andb]. apply param_end_none.
    + cbn [find_from]. change (N.eqb DQUOTE SEMI) with false. cbn [andb]. rewrite N.eqb_refl.
      assert (El : Nat.leb from (S (i + length N2)) = true) by (apply Nat.leb_le; lia).
      rewrite El. cbn [andb]. unfold tailres.
      replace (S (i + length N2)) with (length A + length N + 1) by lia.
      apply param_end_stop.
      replace (A ++ N ++ DQUOTE :: SEMI :: R') with ((A ++ N ++ [DQUOTE]) ++ SEMI :: R')
        by (rewrite <- !app_assoc; reflexivity).
      rewrite firstn_len_app by (rewrite !app_length; cbn [length]; lia).
      rewrite qcount_closed by assumption. reflexivity.
  - subst N2. rewrite <- app_assoc.
    rewrite (ff_skip_noc SEMI M _ from HM i (i + length M) eq_refl).
    cbn [app]. rewrite ff_hit by lia.
    assert (HqN : nq N1 /\ nq M /\ nq N2').
    { unfold nq in *. rewrite EN in Hq. apply Forall_app in Hq. destruct Hq as [H1 H2].
      apply Forall_app in H2. destruct H2 as [H2 H3]. inversion H3; subst. auto. }
    assert (HbN : nbs N1 /\ nbs M /\ nbs N2').
    { unfold nbs in *. rewrite EN in Hb. apply Forall_app in Hb. destruct Hb as [H1 H2].
      apply Forall_app in H2. destruct H2 as [H2 H3]. inversion H3; subst. auto. }
    destruct HqN as (Hq1 & Hq2 & Hq3). destruct HbN as (Hb1 & Hb2 & Hb3).
    rewrite param_end_step; [| lia |].
    + assert (Es : A ++ N ++ DQUOTE :: R = (A ++ N1 ++ M ++ [SEMI]) ++ N2' ++ DQUOTE :: R).
      { rewrite EN. rewrite <- !app_assoc. reflexivity. }
      rewrite Es at 2.
      rewrite (ff_skip_before SEMI (A ++ N1 ++ M ++ [SEMI]) _ (S (i + length M)) 0 (S (i + length M)));
        [| rewrite !app_length; cbn [length]; lia | lia].
      apply (IH (N1 ++ M ++ [SEMI]) N2' (S (i + length M)) (S (i + length M))).
      * rewrite EN, <- !app_assoc. reflexivity.
      * rewrite app_length in Hfuel. cbn [length] in Hfuel. lia.
      * rewrite !app_length. cbn [length]. lia.
      * lia.
    + replace (A ++ N ++ DQUOTE :: R) with ((A ++ N1 ++ M) ++ SEMI :: N2' ++ DQUOTE :: R)
        by (rewrite EN, <- !app_assoc; reflexivity).
      rewrite firstn_len_app by (rewrite !app_length; lia).
      rewrite qcount_open; [reflexivity|exact HA| |].
      * apply Forall_app; split; assumption.
      * apply Forall_app; split; assumption.
Qed.

(* ---------- parseparam ---------- *)

Lemma parseparam_nil fuel : parseparam fuel [] = [].
Proof. destruct fuel; reflexivity. Qed.

Lemma parseparam_seg k A N R : Aok A -> nq N -> nbs N -> Rok R ->
  parseparam (S k) (SEMI :: A ++ N ++ DQUOTE :: R)
  = strip is_uspace (A ++ N ++ [DQUOTE]) :: parseparam k R.
Proof.
  intros HA Hq Hb HR. cbn [parseparam]. rewrite N.eqb_refl.
  set (s := A ++ N ++ DQUOTE :: R).
  assert (Ee : match param_end (length s) s (find_from SEMI s 0 0) with Some n => n | None => length s end
               = length A + length N + 1).
  { assert (E0 : find_from SEMI s 0 0 = find_from SEMI (N ++ DQUOTE :: R) (length A) 0).
    { unfold s. apply ff_skip_noc; [apply HA|reflexivity]. }
    rewrite E0. unfold s at 2.
    rewrite (pe_loop A N R HA Hq Hb HR (length s) [] N 0 (length A)).
    - unfold tailres, s. destruct R; [|reflexivity]. rewrite !app_length. cbn [length]. lia.
    - reflexivity.
    - unfold s. rewrite !app_length. cbn [length]. lia.
    - cbn [length]. lia.
    - lia. }
  rewrite Ee. unfold s.
  replace (A ++ N ++ DQUOTE :: R) with ((A ++ N ++ [DQUOTE]) ++ R) by (rewrite <- !app_assoc; reflexivity).
  rewrite firstn_len_app by (rewrite !app_length; cbn [length]; lia).
  rewrite skipn_len_app by (rewrite !app_length; cbn [length]; lia).
  reflexivity.
Qed.

(* ---------- the Content-Disposition value ---------- *)

Definition fd : bytes := Eval vm_compute in firstn 9 s_form_data_name.        (* form-data *)
Definition a_name : bytes := Eval vm_compute in skipn 10 s_form_data_name.    (* SP name= DQUOTE *)
Definition a_file : bytes := Eval vm_compute in skipn 1 s_filename.           (* SP filename= DQUOTE *)

Definition Rf (filename : option bytes) : bytes :=
  match filename with Some f => SEMI :: a_file ++ f ++ DQUOTE :: [] | None => [] end.

Lemma cdv_shape name filename :
  cd_value name filename = fd ++ SEMI :: a_name ++ name ++ DQUOTE :: Rf filename.
Proof.
  unfold cd_value.
  change s_form_data_name with (fd ++ SEMI :: a_name).
  change s_filename with (SEMI :: a_file).
  destruct filename as [f|]; cbn [Rf]; rewrite <- !app_assoc; reflexivity.
Qed.

Lemma Aok_a_name : Aok a_name.
Proof.
  split; [discriminate|]. split; [reflexivity|]. split; apply Forall_ne_compute; reflexivity.
Qed.

Lemma Aok_a_file : Aok a_file.
Proof.
  split; [discriminate|]. split; [reflexivity|]. split; apply Forall_ne_compute; reflexivity.
Qed.

Lemma text_char_facts c : text_char c = true -> ncl c /\ c <> DQUOTE /\ c <> BSLASH.
Proof.
  unfold text_char. intros H.
  apply andb_true_iff in H. destruct H as [H H4].
  apply andb_true_iff in H. destruct H as [H H3].
  apply andb_true_iff in H. destruct H as [H1 H2].
  apply negb_true_iff, N.eqb_neq in H1, H2, H3, H4. unfold ncl. auto.
Qed.

Lemma tname_ok_facts s : tname_ok s = true -> Forall ncl s /\ nq s /\ nbs s.
Proof.
  unfold tname_ok, nq, nbs. intros H. repeat split.
  - eapply forallb_Forall; [|exact H]. intros x Hx. apply text_char_facts, Hx.
  - eapply forallb_Forall; [|exact H]. intros x Hx. apply text_char_facts, Hx.
  - eapply forallb_Forall; [|exact H]. intros x Hx. apply text_char_facts, Hx.
Qed.

Lemma name_char_facts c : name_char c = true -> prc c /\ c <> DQUOTE /\ c <> BSLASH.
Proof.
  unfold name_char, prc. intros H.
  apply andb_true_iff in H. destruct H as [H H4].
  apply andb_true_iff in H. destruct H as [H H3].
  apply andb_true_iff in H. destruct H as [H1 H2].
  apply N.leb_le in H1, H2. apply negb_true_iff, N.eqb_neq in H3, H4. auto.
Qed.

Lemma name_ok_facts s : name_ok s = true -> Forall prc s /\ nq s /\ nbs s.
Proof.
  unfold name_ok, nq, nbs. intros H. repeat split.
  - eapply forallb_Forall; [|exact H]. intros x Hx. apply name_char_facts, Hx.
  - eapply forallb_Forall; [|exact H]. intros x Hx. apply name_char_facts, Hx.
  - eapply forallb_Forall; [|exact H]. intros x Hx. apply name_char_facts, Hx.
Qed.

Lemma Rok_Rf filename : Rok (Rf filename).
Proof. destruct filename; [right; eexists; reflexivity|left; reflexivity]. Qed.

(* the first segment: the key "form-data" *)
Lemma parseparam_fd k rest :
  parseparam (S k) (SEMI :: fd ++ SEMI :: rest) = strip is_uspace fd :: parseparam k (SEMI :: rest).
Proof.
  cbn [parseparam]. rewrite N.eqb_refl.
  assert (Hfd : Forall (fun x => x <> SEMI) fd) by (apply Forall_ne_compute; reflexivity).
  rewrite (ff_skip_noc SEMI fd (SEMI :: rest) 0 Hfd 0 (length fd) eq_refl).
  rewrite ff_hit by lia.
  rewrite param_end_stop.
  - rewrite firstn_len_app, skipn_len_app by reflexivity. reflexivity.
  - rewrite firstn_len_app by reflexivity. reflexivity.
Qed.

Definition cd_params (name : bytes) (filename : option bytes) : list bytes :=
  strip is_uspace (a_name ++ name ++ [DQUOTE]) ::
  match filename with Some f => [strip is_uspace (a_file ++ f ++ [DQUOTE])] | None => [] end.

Lemma parseparam_cd name filename :
  tname_ok name = true -> tfilename_ok filename = true ->
  parseparam (S (S (length (cd_value name filename)))) (SEMI :: cd_value name filename)
  = strip is_uspace fd :: cd_params name filename.
Proof.
  intros Hn Hf. rewrite cdv_shape.
  destruct (tname_ok_facts name Hn) as (_ & Hq & Hb).
  rewrite parseparam_fd.
  rewrite parseparam_seg by (auto using Aok_a_name, Rok_Rf).
  unfold cd_params. f_equal. f_equal.
  destruct filename as [f|]; cbn [Rf].
  - cbn [tfilename_ok] in Hf. destruct (tname_ok_facts f Hf) as (_ & Hqf & Hbf).
    rewrite app_length. cbn [length]. rewrite Nat.add_succ_r.
    rewrite parseparam_seg by (auto using Aok_a_file; left; reflexivity).
    rewrite parseparam_nil. reflexivity.
  - apply parseparam_nil.
Qed.

(* ---------- one parameter ---------- *)

Lemma unquote_quoted N : nbs N -> unquote_value (DQUOTE :: N ++ [DQUOTE]) = N.
Proof.
  intros Hb. unfold unquote_value. rewrite N.eqb_refl, rev_unit. cbv beta iota.
  rewrite N.eqb_refl, rev_involutive.
  rewrite (replace2_none BSLASH BSLASH [BSLASH] N Hb).
  apply replace2_none. exact Hb.
Qed.

Lemma param_add_quoted d key lk N :
  Forall (fun c => c <> EQUALS) key -> key <> [] -> hd_ok is_uspace key ->
  lower (strip is_uspace key) = lk -> nbs N ->
  param_add d (strip is_uspace ((SP :: key ++ [EQUALS; DQUOTE]) ++ N ++ [DQUOTE])) = hput lk N d.
Proof.
  intros Hkey Hne Hhd Hlk Hb.
  assert (E1 : (SP :: key ++ [EQUALS; DQUOTE]) ++ N ++ [DQUOTE]
               = SP :: key ++ EQUALS :: DQUOTE :: N ++ [DQUOTE]).
  { cbn [app]. rewrite <- app_assoc. reflexivity. }
  rewrite E1. rewrite strip_sp_cons by reflexivity.
  assert (E2 : strip is_uspace (key ++ EQUALS :: DQUOTE :: N ++ [DQUOTE])
               = key ++ EQUALS :: DQUOTE :: N ++ [DQUOTE]).
  { destruct key as [|a t]; [congruence|].
    apply (strip_ends is_uspace _ a (t ++ EQUALS :: DQUOTE :: N ++ [DQUOTE]) DQUOTE
             ((a :: t) ++ EQUALS :: DQUOTE :: N)).
    - reflexivity.
    - rewrite <- app_assoc. reflexivity.
    - exact Hhd.
    - reflexivity. }
  rewrite E2. unfold param_add. rewrite (saf_app EQUALS key _ Hkey).
  assert (E3 : strip is_uspace (DQUOTE :: N ++ [DQUOTE]) = DQUOTE :: N ++ [DQUOTE]).
  { apply (strip_ends is_uspace _ DQUOTE (N ++ [DQUOTE]) DQUOTE (DQUOTE :: N)); reflexivity. }
  rewrite E3, Hlk, unquote_quoted by exact Hb. reflexivity.
Qed.

Definition key_name : bytes := Eval vm_compute in firstn 4 (skipn 1 a_name).
Definition key_file : bytes := Eval vm_compute in firstn 8 (skipn 1 a_file).

Lemma param_add_name d N : nbs N ->
  param_add d (strip is_uspace (a_name ++ N ++ [DQUOTE])) = hput k_name N d.
Proof.
  intros Hb. change a_name with (SP :: key_name ++ [EQUALS; DQUOTE]).
  apply param_add_quoted; try exact Hb.
  - apply Forall_ne_compute. reflexivity.
  - discriminate.
  - reflexivity.
  - reflexivity.
Qed.

Lemma param_add_file d N : nbs N ->
  param_add d (strip is_uspace (a_file ++ N ++ [DQUOTE])) = hput k_filename N d.
Proof.
  intros Hb. change a_file with (SP :: key_file ++ [EQUALS; DQUOTE]).
  apply param_add_quoted; try exact Hb.
  - apply Forall_ne_compute. reflexivity.
  - discriminate.
  - reflexivity.
  - reflexivity.
Qed.

Lemma parse_header_cd name filename :
  tname_ok name = true -> tfilename_ok filename = true ->
  snd (parse_header (cd_value name filename))
  = (k_name, name) :: match filename with Some f => [(k_filename, f)] | None => [] end.
Proof.
  intros Hn Hf. unfold parse_header. rewrite parseparam_cd by assumption.
  cbn [snd]. unfold cd_params. cbn [fold_left].
  destruct (tname_ok_facts name Hn) as (_ & _ & Hb).
  rewrite param_add_name by exact Hb.
  destruct filename as [f|]; cbn [fold_left].
  - cbn [tfilename_ok] in Hf. destruct (tname_ok_facts f Hf) as (_ & _ & Hbf).
    rewrite param_add_file by exact Hbf. reflexivity.
  - reflexivity.
Qed.

Lemma hget_params name filename :
  let ps := (k_name, name) :: match filename with Some f => [(k_filename, f)] | None => [] end in
  hget k_name ps = Some name /\ hget k_filename ps = filename.
Proof. destruct filename; split; reflexivity. Qed.

(* ---------- the rendered headers are good header pairs ---------- *)

Lemma forallb_prc s : forallb (fun c => N.leb 32 c && N.leb c 126) s = true -> Forall prc s.
Proof.
  apply forallb_Forall. intros x H. apply andb_true_iff in H. destruct H as [H1 H2].
  apply N.leb_le in H1, H2. split; assumption.
Qed.

Lemma Hs1 : Forall prc s_form_data_name.
Proof. apply forallb_prc. reflexivity. Qed.
Lemma Hs2 : Forall prc s_filename.
Proof. apply forallb_prc. reflexivity. Qed.

Lemma ncl_dq : ncl DQUOTE.
Proof. unfold ncl, DQUOTE, CR, LF. split; discriminate. Qed.

Lemma cdv_vgood name filename :
  tname_ok name = true -> tfilename_ok filename = true -> vgood (cd_value name filename).
Proof.
  intros Hn Hf. destruct (tname_ok_facts name Hn) as (Hp & _ & _).
  split; [|right; split].
  - unfold cd_value. apply Forall_app; split; [exact (Forall_imp _ _ _ prc_ncl Hs1)|].
    apply Forall_app; split; [exact Hp|].
    apply Forall_app; split; [constructor; [exact ncl_dq|constructor]|].
    destruct filename as [f|]; [|constructor].
    cbn [tfilename_ok] in Hf. destruct (tname_ok_facts f Hf) as (Hpf & _ & _).
    apply Forall_app; split; [exact (Forall_imp _ _ _ prc_ncl Hs2)|]. apply Forall_app; split; [exact Hpf|].
    constructor; [exact ncl_dq|constructor].
  - unfold cd_value. change s_form_data_name with (102%N :: skipn 1 s_form_data_name).
    cbn [app]. eexists _, _. split; reflexivity.
  - exists DQUOTE. unfold cd_value. destruct filename as [f|].
    + rewrite !app_assoc. eexists. split; reflexivity.
    + rewrite app_nil_r, !app_assoc. eexists. split; reflexivity.
Qed.

(* the value is rendered from the encoded names = the encoding of the value rendered from the names *)
Lemma cdv_enc utf8 name filename nb fb :
  encode_text utf8 name = Some nb -> encode_opt utf8 filename = Some fb ->
  encode_text utf8 (cd_value name filename) = Some (cd_value nb fb).
Proof.
  intros En Ef. unfold cd_value.
  assert (Edq : encode_text utf8 [DQUOTE] = Some [DQUOTE]).
  { apply enc_ascii. constructor; [unfold asc, DQUOTE; lia|constructor]. }
  apply enc_app; [apply enc_ascii, (Forall_imp _ _ _ prc_asc Hs1)|].
  apply enc_app; [exact En|]. apply enc_app; [exact Edq|].
  destruct filename as [f|]; cbn [encode_opt] in Ef.
  - destruct (encode_text utf8 f) as [fbb|] eqn:E; [|discriminate]. apply some_inj in Ef. subst fb.
    apply enc_app; [apply enc_ascii, (Forall_imp _ _ _ prc_asc Hs2)|].
    apply enc_app; [exact E|exact Edq].
  - apply some_inj in Ef. subst fb. apply enc_ascii. constructor.
Qed.

Lemma cd_kgood : kgood s_content_disposition.
Proof.
  split; [discriminate|].
  apply (forallb_Forall (fun c => N.leb 33 c && N.leb c 126 && negb (N.eqb c COLON))); [|reflexivity].
  intros x H. apply andb_true_iff in H. destruct H as [H H3].
  apply andb_true_iff in H. destruct H as [H1 H2].
  apply N.leb_le in H1, H2. apply negb_true_iff, N.eqb_neq in H3.
  split; [split; assumption|exact H3].
Qed.

Lemma no_crlf_ncl v : no_crlf v = true -> Forall ncl v.
Proof.
  apply forallb_Forall. intros x H. apply andb_true_iff in H. destruct H as [H1 H2].
  apply negb_true_iff, N.eqb_neq in H1, H2. split; assumption.
Qed.

Lemma tvalue_ok_vgood v : tvalue_ok v = true -> vgood v.
Proof.
  unfold tvalue_ok. intros H.
  apply andb_true_iff in H. destruct H as [H H3]. apply andb_true_iff in H. destruct H as [H1 H2].
  split; [apply no_crlf_ncl, H1|].
  destruct v as [|a t]; [left; reflexivity|right]. split.
  - exists a, t. split; [reflexivity|]. apply negb_true_iff in H2. exact H2.
  - destruct (rev (a :: t)) as [|z u] eqn:E.
    + apply (f_equal (@length N)) in E. rewrite rev_length in E. discriminate.
    + exists z, (rev u). split.
      * rewrite <- (rev_involutive (a :: t)), E. reflexivity.
      * apply negb_true_iff in H3. exact H3.
Qed.

Lemma hname_ok_kgood k : hname_ok k = true ->
  kgood k /\ bytes_eqb (lower k) k_content_disposition = false.
Proof.
  unfold hname_ok. intros H.
  apply andb_true_iff in H. destruct H as [H H3]. apply andb_true_iff in H. destruct H as [H1 H2].
  split; [split|].
  - destruct k; [discriminate|discriminate].
  - eapply forallb_Forall; [|exact H2]. intros x Hx. unfold hname_char in Hx.
    apply andb_true_iff in Hx. destruct Hx as [Hx Hc]. apply andb_true_iff in Hx. destruct Hx as [Ha Hb].
    apply N.leb_le in Ha, Hb. apply negb_true_iff, N.eqb_neq in Hc. split; [split; assumption|exact Hc].
  - apply negb_true_iff in H3. exact H3.
Qed.

Lemma textra_ok_facts extra : forallb textra_ok extra = true ->
  Forall kvgood extra /\
  Forall (fun kv => bytes_eqb (lower (fst kv)) k_content_disposition = false) extra.
Proof.
  intros H. split.
  - eapply forallb_Forall; [|exact H]. intros kv Hkv. unfold textra_ok in Hkv.
    apply andb_true_iff in Hkv. destruct Hkv as [Hk Hv]. split.
    + apply hname_ok_kgood, Hk.
    + apply tvalue_ok_vgood, Hv.
  - eapply forallb_Forall; [|exact H]. intros kv Hkv. unfold textra_ok in Hkv.
    apply andb_true_iff in Hkv. destruct Hkv as [Hk Hv]. apply hname_ok_kgood, Hk.
Qed.

Lemma encode_extra_encv utf8 extra : forall eb, encode_extra utf8 extra = Some eb -> Forall2 (encv utf8) extra eb.
Proof.
  induction extra as [|kv r IH]; intros eb H; cbn [encode_extra] in H.
  - apply some_inj in H. subst eb. constructor.
  - destruct (encode_text utf8 (snd kv)) as [vb|] eqn:Ev; [|discriminate].
    destruct (encode_extra utf8 r) as [rb|]; [|discriminate]. apply some_inj in H. subst eb.
    constructor; [split; [reflexivity|exact Ev]|apply IH; reflexivity].
Qed.

(* ---------- the theorem ---------- *)

Theorem decode_headers_text_proof : decode_headers_text_statement.
Proof.
  intros utf8 name filename extra nb fb eb Hn Hf He En Ef Ee.
  destruct (textra_ok_facts extra He) as [Hgood Hother].
  pose proof (encode_extra_encv utf8 extra eb Ee) as H2.
  assert (Hcd : kvgood (s_content_disposition, cd_value name filename)).
  { split; [exact cd_kgood|apply cdv_vgood; assumption]. }
  assert (Hcde : encv utf8 (s_content_disposition, cd_value name filename) (s_content_disposition, cd_value nb fb)).
  { split; [reflexivity|apply cdv_enc; assumption]. }
  assert (Eblock : render_headers nb fb eb
                   = render_line (s_content_disposition, cd_value nb fb) ++ fm (map render_line eb)).
  { unfold render_headers. apply block_joined. }
  assert (Eparse : parse_part utf8 (render_headers nb fb eb)
                   = PEvent (rendered_event name filename extra)).
  { unfold parse_part, parse_headers. rewrite Eblock.
    rewrite (header_items_good utf8 _ _ extra eb Hcd Hcde Hgood H2).
    cbn [option_map]. rewrite hget_cd by exact Hother.
    cbv zeta. rewrite parse_header_cd by assumption.
    unfold rendered_event. destruct filename; reflexivity. }
  split; [exact Eparse|].
  unfold hdr_ok. rewrite Eparse.
  assert (Enb : no_blank (LF :: render_headers nb fb eb ++ [CR; LF; CR]) = true).
  { rewrite Eblock. apply no_blank_joined; [eapply kvgood_gl; eassumption|eapply Forall_map_gl; eassumption]. }
  rewrite Enb. reflexivity.
Qed.

(* ---------- the ASCII instance ---------- *)

Lemma name_char_text c : name_char c = true -> text_char c = true.
Proof.
  intros H. destruct (name_char_facts c H) as ([H1 H2] & H3 & H4). unfold text_char.
  apply N.eqb_neq in H3, H4. rewrite H3, H4.
  destruct (N.eqb_spec c CR); [unfold CR in *; lia|]. destruct (N.eqb_spec c LF); [unfold LF in *; lia|]. reflexivity.
Qed.

Lemma name_ok_tname s : name_ok s = true -> tname_ok s = true /\ Forall asc s.
Proof.
  unfold name_ok, tname_ok. intros H. split.
  - rewrite forallb_forall in *. intros x Hx. apply name_char_text, H, Hx.
  - eapply forallb_Forall; [|exact H]. intros x Hx. apply prc_asc, (name_char_facts x Hx).
Qed.

Lemma hvalue_ok_facts v : hvalue_ok v = true -> tvalue_ok v = true /\ Forall asc v.
Proof.
  unfold hvalue_ok, tvalue_ok. intros H.
  apply andb_true_iff in H. destruct H as [H H3]. apply andb_true_iff in H. destruct H as [H1 H2].
  assert (Hp : Forall prc v).
  { eapply forallb_Forall; [|exact H1]. intros x Hx. unfold hvalue_char in Hx.
    apply andb_true_iff in Hx. destruct Hx as [Ha Hb]. apply N.leb_le in Ha, Hb. split; assumption. }
  assert (Hend : forall l, Forall prc l ->
            match l with c :: _ => negb (N.eqb c SP) | [] => false end = true ->
            match l with c :: _ => negb (is_uspace c) | [] => true end = true).
  { intros l Hl Hc. destruct l as [|c r]; [reflexivity|]. inversion Hl; subst.
    apply negb_true_iff, N.eqb_neq in Hc. apply negb_true_iff, is_uspace_vis.
    unfold prc, visc, SP in *. lia. }
  split; [|exact (Forall_imp _ _ _ prc_asc Hp)].
  rewrite (Hend v Hp H2), (Hend (rev v) (Forall_rev Hp) H3), !andb_true_r.
  unfold no_crlf. rewrite forallb_forall. intros x Hx. rewrite Forall_forall in Hp.
  destruct (prc_ncl x (Hp x Hx)) as [Hc Hl]. apply N.eqb_neq in Hc, Hl. rewrite Hc, Hl. reflexivity.
Qed.

Lemma extra_ok_textra utf8 extra : forallb extra_ok extra = true ->
  forallb textra_ok extra = true /\ encode_extra utf8 extra = Some extra.
Proof.
  induction extra as [|[k v] r IH]; cbn [forallb encode_extra]; intros H; [split; reflexivity|].
  apply andb_true_iff in H. destruct H as [Hkv Hr]. destruct (IH Hr) as [IH1 IH2].
  unfold extra_ok in Hkv. apply andb_true_iff in Hkv. destruct Hkv as [Hk Hv]. cbn [fst snd] in *.
  destruct (hvalue_ok_facts v Hv) as [Hv1 Hv2].
  split.
  - rewrite IH1, andb_true_r. unfold textra_ok. cbn [fst snd]. rewrite Hk, Hv1. reflexivity.
  - rewrite (enc_ascii utf8 v Hv2), IH2. reflexivity.
Qed.

Theorem decode_headers_proof : decode_headers_statement.
Proof.
  intros utf8 name filename extra Hn Hf He.
  destruct (name_ok_tname name Hn) as [Hn1 Hn2].
  destruct (extra_ok_textra utf8 extra He) as [He1 He2].
  apply (decode_headers_text_proof utf8 name filename extra name filename extra); try assumption.
  - destruct filename as [f|]; [|reflexivity]. apply (name_ok_tname f Hf).
  - apply enc_ascii, Hn2.
  - destruct filename as [f|]; [|reflexivity]. cbn [encode_opt filename_ok] in *.
    destruct (name_ok_tname f Hf) as [_ Hf2]. rewrite (enc_ascii utf8 f Hf2). reflexivity.
Qed.
