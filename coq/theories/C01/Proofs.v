(* C01 — composition of the three parts: framing (Framing.v), header parsing (HdrProofs.v),
   the helper fold (HelperProofs.v). *)
From Coq Require Import List NArith Bool Arith Lia.
From Baize Require Import Lib.Wire Lib.Order Lib.Utf8 C01.Model C01.Spec C01.Utf8Proofs C01.Framing C01.HdrProofs C01.HelperProofs.
Import ListNotations.

Lemma wf_form_parts b utf8 pre fc ps : wf_form b utf8 pre fc ps = true -> forallb (part_ok b utf8) ps = true.
Proof. unfold wf_form. intros H. apply andb_true_iff in H as [_ H]. exact H. Qed.

Lemma part_event_is_part b utf8 p : part_ok b utf8 p = true -> is_part_event (part_event utf8 (fst p)) = true.
Proof.
  unfold part_ok. intros H. apply andb_true_iff in H as [H _].
  destruct (hdr_ok_parts utf8 (fst p) H) as [_ [_ [_ E]]]. exact E.
Qed.

Theorem helper_exact_proof : helper_exact_statement.
Proof.
  intros b utf8 pre fc ps epi mp mm chunks Hwf Hbody Hlen Hmem.
  destruct (decode_framing_proof b utf8 pre fc ps epi chunks Hwf Hbody) as [_ Hev].
  rewrite (helper_of_collect_proof b utf8 mp mm chunks (map (fun p => (part_event utf8 (fst p), snd p)) ps)).
  - rewrite map_map. reflexivity.
  - rewrite Hev, map_map. reflexivity.
  - rewrite forallb_forall. intros x I. apply in_map_iff in I as [p [<- I]]. cbn [fst].
    assert (Hp := wf_form_parts _ _ _ _ _ Hwf). rewrite forallb_forall in Hp.
    apply (part_event_is_part b utf8 p (Hp p I)).
  - rewrite map_length. exact Hlen.
  - exact Hmem.
Qed.

Theorem chunking_independent_proof : chunking_independent_statement.
Proof.
  intros b utf8 pre fc ps epi mp mm ch1 ch2 Hwf H1 H2. rewrite H1 in H2.
  destruct (decode_framing_proof b utf8 pre fc ps epi ch1 Hwf H1) as [E1 _].
  destruct (decode_framing_proof b utf8 pre fc ps epi ch2 Hwf H2) as [E2 _].
  split; [rewrite E1, E2; reflexivity|].
  intros Hlen Hmem.
  rewrite (helper_exact_proof b utf8 pre fc ps epi mp mm ch1 Hwf H1 Hlen Hmem).
  rewrite (helper_exact_proof b utf8 pre fc ps epi mp mm ch2 Hwf H2 Hlen Hmem). reflexivity.
Qed.

(* ---- rendered header blocks ---- *)

Lemma field_ok_parts b f : field_ok b f = true ->
  name_ok (f_name f) = true /\ filename_ok (f_filename f) = true /\ forallb extra_ok (f_extra f) = true /\
  has_sub (dashes b) (f_content f) = false.
Proof.
  unfold field_ok. intros H. apply andb_true_iff in H as [H H4]. apply andb_true_iff in H as [H H3].
  apply andb_true_iff in H as [H1 H2]. apply negb_true_iff in H4. repeat split; assumption.
Qed.

Lemma field_part_event b utf8 f : field_ok b f = true ->
  part_event utf8 (fst (field_part f)) = field_event f /\ part_ok b utf8 (field_part f) = true.
Proof.
  intros H. destruct (field_ok_parts b f H) as [H1 [H2 [H3 H4]]].
  destruct (decode_headers_proof utf8 (f_name f) (f_filename f) (f_extra f) H1 H2 H3) as [P Hok].
  split.
  - unfold part_event, field_part. cbn [fst]. rewrite P. reflexivity.
  - unfold part_ok, field_part. cbn [fst snd]. rewrite Hok, H4. reflexivity.
Qed.

Lemma form_ok_wf b utf8 pre fc fields :
  form_ok b pre fc fields = true -> wf_form b utf8 pre fc (map field_part fields) = true.
Proof.
  unfold form_ok, wf_form. intros H. apply andb_true_iff in H as [H Hf]. rewrite H. cbn [andb].
  rewrite forallb_forall in *. intros p I. apply in_map_iff in I as [f [<- I]].
  apply (field_part_event b utf8 f (Hf f I)).
Qed.

Lemma form_ok_fields b pre fc fields : form_ok b pre fc fields = true -> forall f, In f fields -> field_ok b f = true.
Proof.
  unfold form_ok. intros H. apply andb_true_iff in H as [_ Hf]. rewrite forallb_forall in Hf. exact Hf.
Qed.

Lemma map_ext_in' {A B} (f g : A -> B) l : (forall a, In a l -> f a = g a) -> map f l = map g l.
Proof. apply map_ext_in. Qed.

Lemma form_mem_field_bytes (fields : list field) :
  field_bytes (map (fun f => (field_event f, f_content f)) fields) = form_mem fields.
Proof.
  induction fields as [|f r IH]; [reflexivity|].
  assert (E1 : field_bytes (map (fun f0 => (field_event f0, f_content f0)) (f :: r)) =
               (if is_field (field_event f) then length (f_content f) else 0) +
               field_bytes (map (fun f0 => (field_event f0, f_content f0)) r)) by reflexivity.
  assert (E2 : form_mem (f :: r) =
               match f_filename f with None => length (f_content f) | Some _ => 0 end + form_mem r) by reflexivity.
  rewrite E1, E2, IH. f_equal.
  unfold field_event, rendered_event. destruct (f_filename f); reflexivity.
Qed.

(* ---------- names, filenames and header values as text ---------- *)

Lemma tfield_ok_parts b f : tfield_ok b f = true ->
  tname_ok (t_name f) = true /\ tfilename_ok (t_filename f) = true /\ forallb textra_ok (t_extra f) = true /\
  has_sub (dashes b) (t_content f) = false.
Proof.
  unfold tfield_ok. intros H. apply andb_true_iff in H as [H H4]. apply andb_true_iff in H as [H H3].
  apply andb_true_iff in H as [H1 H2]. apply negb_true_iff in H4. repeat split; assumption.
Qed.

Lemma encode_field_inv utf8 tf f : encode_field utf8 tf = Some f ->
  encode_text utf8 (t_name tf) = Some (f_name f) /\ encode_opt utf8 (t_filename tf) = Some (f_filename f) /\
  encode_extra utf8 (t_extra tf) = Some (f_extra f) /\ f_content f = t_content tf.
Proof.
  unfold encode_field.
  destruct (encode_text utf8 (t_name tf)) as [n|]; [|discriminate].
  destruct (encode_opt utf8 (t_filename tf)) as [fn|]; [|discriminate].
  destruct (encode_extra utf8 (t_extra tf)) as [e|]; [|discriminate].
  intros H. injection H as <-. cbn. auto.
Qed.

Lemma encode_opt_none utf8 (o : option (list N)) fb : encode_opt utf8 o = Some fb ->
  match o, fb with None, None => True | Some _, Some _ => True | _, _ => False end.
Proof.
  destruct o as [s|]; cbn [encode_opt].
  - destruct (encode_text utf8 s); [|discriminate]. intros H. injection H as <-. exact Logic.I.
  - intros H. injection H as <-. exact Logic.I.
Qed.

(* a text field and its encoding *)
Definition enc_rel (b : bytes) (utf8 : bool) (tf : tfield) (f : field) : Prop :=
  tfield_ok b tf = true /\ encode_field utf8 tf = Some f.

Lemma tfield_part_event b utf8 tf f : enc_rel b utf8 tf f ->
  part_event utf8 (fst (field_part f)) = tfield_event tf /\ part_ok b utf8 (field_part f) = true.
Proof.
  intros [Hok He]. destruct (tfield_ok_parts b tf Hok) as [H1 [H2 [H3 H4]]].
  destruct (encode_field_inv utf8 tf f He) as [E1 [E2 [E3 E4]]].
  destruct (decode_headers_text_proof utf8 (t_name tf) (t_filename tf) (t_extra tf)
              (f_name f) (f_filename f) (f_extra f) H1 H2 H3 E1 E2 E3) as [P Hp].
  split.
  - unfold part_event, field_part. cbn [fst]. rewrite P. reflexivity.
  - unfold part_ok, field_part. cbn [fst snd]. rewrite Hp, E4, H4. reflexivity.
Qed.

Lemma encode_fields_rel b utf8 tfs : forall fs, forallb (tfield_ok b) tfs = true ->
  encode_fields utf8 tfs = Some fs -> Forall2 (enc_rel b utf8) tfs fs.
Proof.
  induction tfs as [|tf r IH]; intros fs Hok H; cbn [encode_fields forallb] in *.
  - injection H as <-. constructor.
  - destruct (encode_field utf8 tf) as [fb|] eqn:E; [|discriminate].
    destruct (encode_fields utf8 r) as [rb|]; [|discriminate]. injection H as <-.
    apply andb_true_iff in Hok as [Ho1 Ho2].
    constructor; [split; assumption|apply IH; [exact Ho2|reflexivity]].
Qed.

Lemma text_parts b utf8 tfields fields : Forall2 (enc_rel b utf8) tfields fields ->
  forallb (part_ok b utf8) (map field_part fields) = true /\
  map (done utf8) (map field_part fields) = map tfield_done tfields /\
  map (fun p => item_of utf8 (part_event utf8 (fst p)) (snd p)) (map field_part fields)
  = map (tfield_item utf8) tfields /\
  field_bytes (map (fun p => (part_event utf8 (fst p), snd p)) (map field_part fields)) = form_mem fields /\
  length fields = length tfields.
Proof.
  induction 1 as [|tf f tfs fs Hr H2 IH]; [repeat split; reflexivity|].
  destruct IH as (I1 & I2 & I3 & I4 & I5).
  destruct (tfield_part_event b utf8 tf f Hr) as [E Hp].
  destruct Hr as [Hok He]. destruct (encode_field_inv utf8 tf f He) as [_ [E2 [_ E4]]].
  cbn [map forallb]. rewrite Hp, I1, I2, I3. repeat split.
  - unfold done, tfield_done. rewrite E. cbn [field_part snd]. rewrite E4. reflexivity.
  - unfold tfield_item. rewrite E. cbn [field_part snd]. rewrite E4. reflexivity.
  - assert (E1 : forall e c r, field_bytes ((e, c) :: r) = (if is_field e then length c else 0) + field_bytes r)
      by reflexivity.
    assert (E3 : form_mem (f :: fs) =
                 match f_filename f with None => length (f_content f) | Some _ => 0 end + form_mem fs) by reflexivity.
    rewrite E1, E3, I4, E. f_equal. cbn [field_part snd].
    pose proof (encode_opt_none utf8 _ _ E2) as Hn.
    unfold tfield_event, rendered_event.
    destruct (t_filename tf), (f_filename f); try contradiction; reflexivity.
  - cbn [length]. rewrite I5. reflexivity.
Qed.

Lemma C01_text_core b utf8 pre fc tfields fields epi mp mm chunks :
  no_crlf b && negb (has_sub (dashes b) pre) && (fc || match pre with [] => true | _ => false end) = true ->
  Forall2 (enc_rel b utf8) tfields fields ->
  concat chunks = form_body b pre fc fields epi ->
  collect (all_events (run_chunks b utf8 new_decoder chunks)) None = map tfield_done tfields ++ [PEpi] /\
  (limits_ok mp mm fields ->
   parse_stream b utf8 mp mm chunks = HItems (map (tfield_item utf8) tfields)).
Proof.
  intros Hb Hrel Hbody.
  destruct (text_parts b utf8 tfields fields Hrel) as (P1 & P2 & P3 & P4 & P5).
  assert (Hwf : wf_form b utf8 pre fc (map field_part fields) = true).
  { unfold wf_form. rewrite Hb, P1. reflexivity. }
  unfold form_body in Hbody.
  split.
  - destruct (decode_framing_proof b utf8 pre fc _ epi chunks Hwf Hbody) as [E _]. rewrite E, P2. reflexivity.
  - intros [Hlen Hmem].
    rewrite (helper_exact_proof b utf8 pre fc _ epi mp mm chunks Hwf Hbody).
    + rewrite P3. reflexivity.
    + rewrite map_length. exact Hlen.
    + unfold mem_ok. destruct mm as [m|]; [|exact Logic.I]. rewrite P4. exact Hmem.
Qed.

Theorem C01_main_text_proof : C01_main_text_statement.
Proof.
  intros b utf8 pre fc tfields fields epi mp mm chunks Hok Henc Hbody.
  unfold tform_ok in Hok. apply andb_true_iff in Hok as [Hb Hf].
  apply (C01_text_core b utf8 pre fc tfields fields epi mp mm chunks Hb); [|exact Hbody].
  apply encode_fields_rel; assumption.
Qed.

(* ---- the text of a field ---- *)

Theorem field_text_proof : field_text_statement.
Proof.
  intros f Hnone. unfold tfield_item, tfield_event, rendered_event. rewrite Hnone. cbn [item_of].
  split; [|split].
  - intros t Ht. f_equal. unfold safe_decode.
    rewrite (utf8_decode_encode t (t_content f) (length (t_content f)) Ht (le_n _)). reflexivity.
  - intros Hno. f_equal. unfold safe_decode.
    destruct (utf8_decode (length (t_content f)) (t_content f)) as [t|] eqn:E; [|reflexivity].
    exfalso. apply (Hno t). apply (utf8_encode_decode _ _ _ E).
  - reflexivity.
Qed.

Theorem utf8_codec_proof : utf8_codec_statement.
Proof.
  split; [|split].
  - intros s b H. apply (utf8_decode_encode s b (length b) H (le_n _)).
  - intros b s H. apply (utf8_encode_decode _ _ _ H).
  - intros s b H x Hx. pose proof (utf8_bytes_of s b H) as HF. rewrite Forall_forall in HF. apply HF, Hx.
Qed.

(* ---- the ASCII statement as an instance ---- *)

Definition lift_field (f : field) : tfield :=
  {| t_name := f_name f; t_filename := f_filename f; t_extra := f_extra f; t_content := f_content f |}.

Lemma lift_rel b utf8 f : field_ok b f = true -> enc_rel b utf8 (lift_field f) f.
Proof.
  intros H. destruct (field_ok_parts b f H) as [H1 [H2 [H3 H4]]].
  destruct (name_ok_tname _ H1) as [N1 N2].
  destruct (extra_ok_textra utf8 _ H3) as [X1 X2].
  assert (F1 : tfilename_ok (f_filename f) = true).
  { destruct (f_filename f) as [s|]; [|reflexivity]. apply (name_ok_tname s H2). }
  assert (F2 : encode_opt utf8 (f_filename f) = Some (f_filename f)).
  { destruct (f_filename f) as [s|]; [|reflexivity]. cbn [encode_opt filename_ok] in *.
    destruct (name_ok_tname s H2) as [_ A]. rewrite (enc_ascii utf8 s A). reflexivity. }
  split.
  - unfold tfield_ok, lift_field. cbn [t_name t_filename t_extra t_content]. rewrite N1, F1, X1, H4. reflexivity.
  - unfold encode_field, lift_field. cbn [t_name t_filename t_extra t_content].
    rewrite (enc_ascii utf8 _ N2), F2, X2. destruct f; reflexivity.
Qed.

Theorem C01_main_proof : C01_main_statement.
Proof.
  intros b utf8 pre fc fields epi mp mm chunks Hok Hbody.
  unfold form_ok in Hok. apply andb_true_iff in Hok as [Hb Hf].
  assert (Hrel : Forall2 (enc_rel b utf8) (map lift_field fields) fields).
  { rewrite forallb_forall in Hf. clear Hbody. induction fields as [|f r IH]; cbn [map]; constructor.
    - apply lift_rel, Hf. left. reflexivity.
    - apply IH. intros x Hx. apply Hf. right. exact Hx. }
  destruct (C01_text_core b utf8 pre fc _ fields epi mp mm chunks Hb Hrel Hbody) as [E1 E2].
  rewrite map_map in E1, E2. split; [exact E1|exact E2].
Qed.

(* ---- the full statement of Spec.v ---- *)

Lemma ascii_extra_rel utf8 extra : forallb extra_ok extra = true ->
  forallb textra_ok extra = true /\ encode_extra utf8 extra = Some extra.
Proof. apply extra_ok_textra. Qed.

Theorem C01_full_proof : C01_full.
Proof.
  intros b utf8 pre fc epi texts fields mp mm chunks Hall Hb Hpre Hfc Hbody Hlim.
  assert (Hb3 : no_crlf b && negb (has_sub (dashes b) pre) && (fc || match pre with [] => true | _ => false end) = true).
  { rewrite Hb, Hpre. cbn [andb negb]. destruct Hfc as [->| ->]; [reflexivity|apply orb_true_r]. }
  (* the text fields *)
  assert (Hex : exists tfields,
             Forall2 (enc_rel b utf8) tfields fields /\
             Forall2 (fun t tf => t_name tf = fst t /\ t_filename tf = snd t) texts tfields /\
             Forall2 (fun f tf => t_content tf = f_content f) fields tfields).
  { clear Hbody Hlim. induction Hall as [|t f texts fields (Ht1 & Ht2 & Ht3 & Ht4 & Ht5) Hall IH].
    - exists []. repeat split; constructor.
    - destruct IH as (tfs & I1 & I2 & I3).
      exists ({| t_name := fst t; t_filename := snd t; t_extra := f_extra f; t_content := f_content f |} :: tfs).
      destruct (ascii_extra_rel utf8 _ Ht4) as [X1 X2].
      split; [|split]; constructor; try assumption; try (cbn; auto; fail).
      split.
      + unfold tfield_ok. cbn [t_name t_filename t_extra t_content]. unfold tname_ok. rewrite Ht1, X1, Ht5. cbn [andb negb].
        destruct (snd t) as [ft|], (f_filename f) as [fb|]; try contradiction; [|reflexivity].
        cbn [tfilename_ok]. unfold tname_ok. destruct Ht3 as [Hc _]. rewrite Hc. reflexivity.
      + unfold encode_field. cbn [t_name t_filename t_extra t_content]. rewrite Ht2, X2.
        destruct (snd t) as [ft|], (f_filename f) as [fb|] eqn:Ef; try contradiction; cbn [encode_opt].
        * destruct Ht3 as [_ He]. rewrite He. destruct f; cbn in *; subst; reflexivity.
        * destruct f; cbn in *; subst; reflexivity. }
  destruct Hex as (tfields & Hrel & Hnames & Hcont).
  destruct (C01_text_core b utf8 pre fc tfields fields epi mp mm chunks Hb3 Hrel Hbody) as [_ E].
  exists (map (tfield_item utf8) tfields). split; [apply E, Hlim|]. split.
  - clear -Hnames. induction Hnames as [|t tf texts tfs [H1 H2] Hn IH]; cbn [map]; constructor; [|exact IH].
    unfold tfield_item, tfield_event, rendered_event. destruct t as [n o]. cbn [fst snd] in *. rewrite H1, H2.
    destruct o; cbn [item_of]; auto.
  - clear -Hcont. induction Hcont as [|f tf fs tfs H1 Hn IH]; cbn [map]; constructor; [|exact IH].
    unfold tfield_item, tfield_event, rendered_event. rewrite H1.
    destruct (t_filename tf); cbn [item_of]; reflexivity.
Qed.
