(* C01 — composition of the three parts: framing (Framing.v), header parsing (HdrProofs.v),
   the helper fold (HelperProofs.v). *)
From Coq Require Import List NArith Bool Arith Lia.
From Baize Require Import Lib.Wire Lib.Order C01.Model C01.Spec C01.Framing C01.HdrProofs C01.HelperProofs.
Import ListNotations.

Lemma wf_form_parts b utf8 pre fc ps : wf_form b utf8 pre fc ps = true -> forallb (part_ok b utf8) ps = true.
Proof. unfold wf_form. intros H. apply andb_true_iff in H as [_ H]. exact H. Qed.

Lemma part_event_is_part b utf8 p : part_ok b utf8 p = true -> is_part_event (part_event utf8 (fst p)) = true.
Proof.
  unfold part_ok. intros H. apply andb_true_iff in H as [H _].
  destruct (hdr_ok_parts utf8 (fst p) H) as [_ [_ [_ E]]]. exact E.
Qed.

Theorem helper_exact_proof : helper_exact_statement.
Proof.
  intros b utf8 pre fc ps epi mp mm chunks Hwf Hbody Hlen Hmem.
  destruct (decode_framing_proof b utf8 pre fc ps epi chunks Hwf Hbody) as [_ Hev].
  rewrite (helper_of_collect_proof b utf8 mp mm chunks (map (fun p => (part_event utf8 (fst p), snd p)) ps)).
  - rewrite map_map. reflexivity.
  - rewrite Hev, map_map. reflexivity.
  - rewrite forallb_forall. intros x I. apply in_map_iff in I as [p [<- I]]. cbn [fst].
    assert (Hp := wf_form_parts _ _ _ _ _ Hwf). rewrite forallb_forall in Hp.
    apply (part_event_is_part b utf8 p (Hp p I)).
  - rewrite map_length. exact Hlen.
  - exact Hmem.
Qed.

Theorem chunking_independent_proof : chunking_independent_statement.
Proof.
  intros b utf8 pre fc ps epi mp mm ch1 ch2 Hwf H1 H2. rewrite H1 in H2.
  destruct (decode_framing_proof b utf8 pre fc ps epi ch1 Hwf H1) as [E1 _].
  destruct (decode_framing_proof b utf8 pre fc ps epi ch2 Hwf H2) as [E2 _].
  split; [rewrite E1, E2; reflexivity|].
  intros Hlen Hmem.
  rewrite (helper_exact_proof b utf8 pre fc ps epi mp mm ch1 Hwf H1 Hlen Hmem).
  rewrite (helper_exact_proof b utf8 pre fc ps epi mp mm ch2 Hwf H2 Hlen Hmem). reflexivity.
Qed.

(* ---- rendered header blocks ---- *)

Lemma field_ok_parts b f : field_ok b f = true ->
  name_ok (f_name f) = true /\ filename_ok (f_filename f) = true /\ forallb extra_ok (f_extra f) = true /\
  has_sub (dashes b) (f_content f) = false.
Proof.
  unfold field_ok. intros H. apply andb_true_iff in H as [H H4]. apply andb_true_iff in H as [H H3].
  apply andb_true_iff in H as [H1 H2]. apply negb_true_iff in H4. repeat split; assumption.
Qed.

Lemma field_part_event b utf8 f : field_ok b f = true ->
  part_event utf8 (fst (field_part f)) = field_event f /\ part_ok b utf8 (field_part f) = true.
Proof.
  intros H. destruct (field_ok_parts b f H) as [H1 [H2 [H3 H4]]].
  destruct (decode_headers_proof utf8 (f_name f) (f_filename f) (f_extra f) H1 H2 H3) as [P Hok].
  split.
  - unfold part_event, field_part. cbn [fst]. rewrite P. reflexivity.
  - unfold part_ok, field_part. cbn [fst snd]. rewrite Hok, H4. reflexivity.
Qed.

Lemma form_ok_wf b utf8 pre fc fields :
  form_ok b pre fc fields = true -> wf_form b utf8 pre fc (map field_part fields) = true.
Proof.
  unfold form_ok, wf_form. intros H. apply andb_true_iff in H as [H Hf]. rewrite H. cbn [andb].
  rewrite forallb_forall in *. intros p I. apply in_map_iff in I as [f [<- I]].
  apply (field_part_event b utf8 f (Hf f I)).
Qed.

Lemma form_ok_fields b pre fc fields : form_ok b pre fc fields = true -> forall f, In f fields -> field_ok b f = true.
Proof.
  unfold form_ok. intros H. apply andb_true_iff in H as [_ Hf]. rewrite forallb_forall in Hf. exact Hf.
Qed.

Lemma map_ext_in' {A B} (f g : A -> B) l : (forall a, In a l -> f a = g a) -> map f l = map g l.
Proof. apply map_ext_in. Qed.

Lemma form_mem_field_bytes (fields : list field) :
  field_bytes (map (fun f => (field_event f, f_content f)) fields) = form_mem fields.
Proof.
  induction fields as [|f r IH]; [reflexivity|].
  assert (E1 : field_bytes (map (fun f0 => (field_event f0, f_content f0)) (f :: r)) =
               (if is_field (field_event f) then length (f_content f) else 0) +
               field_bytes (map (fun f0 => (field_event f0, f_content f0)) r)) by reflexivity.
  assert (E2 : form_mem (f :: r) =
               match f_filename f with None => length (f_content f) | Some _ => 0 end + form_mem r) by reflexivity.
  rewrite E1, E2, IH. f_equal.
  unfold field_event, rendered_event. destruct (f_filename f); reflexivity.
Qed.

Theorem C01_main_proof : C01_main_statement.
Proof.
  intros b utf8 pre fc fields epi mp mm chunks Hok Hbody.
  assert (Hwf := form_ok_wf b utf8 pre fc fields Hok).
  assert (Hf := form_ok_fields b pre fc fields Hok).
  unfold form_body in Hbody.
  assert (Ev : map (fun p => (part_event utf8 (fst p), snd p)) (map field_part fields) =
               map (fun f => (field_event f, f_content f)) fields).
  { rewrite map_map. apply map_ext_in. intros f I.
    destruct (field_part_event b utf8 f (Hf f I)) as [E _]. rewrite E. reflexivity. }
  split.
  - destruct (decode_framing_proof b utf8 pre fc _ epi chunks Hwf Hbody) as [E _]. rewrite E.
    f_equal. rewrite map_map. apply map_ext_in. intros f I.
    unfold done, field_done. destruct (field_part_event b utf8 f (Hf f I)) as [E2 _]. rewrite E2. reflexivity.
  - intros [Hlen Hmem].
    rewrite (helper_exact_proof b utf8 pre fc _ epi mp mm chunks Hwf Hbody).
    + f_equal. rewrite map_map. apply map_ext_in. intros f I. unfold field_item.
      destruct (field_part_event b utf8 f (Hf f I)) as [E2 _]. rewrite E2. reflexivity.
    + rewrite map_length. exact Hlen.
    + rewrite Ev. unfold mem_ok. destruct mm as [m|]; [|exact Logic.I].
      rewrite form_mem_field_bytes. exact Hmem.
Qed.
