(* C01 / C15 — wire interface of the multipart model. *)
From Coq Require Import List NArith ZArith Bool.
From Baize Require Import Lib.Wire Lib.Order C01.Model.
Import ListNotations.

Definition show_hdrs (h : list header) : sx :=
  Lst (map (fun p => Lst [Str (fst p); Str (snd p)]) (sort_headers h)).

Definition show_name (n : option bytes) : sx := match n with Some s => Lst [Str s] | None => Lst [] end.

Definition show_event (e : event) : sx :=
  match e with
  | EPreamble d => Lst [tag (lit "preamble"); Str d]
  | EField n hs => Lst [tag (lit "field"); show_name n; show_hdrs hs]
  | EFile n fn hs => Lst [tag (lit "file"); show_name n; Str fn; show_hdrs hs]
  | EData d m => Lst [tag (lit "data"); Str d; of_bool m]
  | EEpilogue d => Lst [tag (lit "epilogue"); Str d]
  | ENeed => Lst [tag (lit "need")]
  | EMalformed => Lst [tag (lit "malformed")]
  end.

Definition show_item (i : item) : sx :=
  match i with
  | IText n t => Lst [tag (lit "text"); show_name n; Str t]
  | IFile n fn hs c => Lst [tag (lit "file"); show_name n; Str fn; show_hdrs hs; Str c]
  end.

Definition show_outcome (o : houtcome) : sx :=
  match o with
  | HItems l => Lst (tag (lit "items") :: map show_item l)
  | H413 => Lst [tag (lit "413")]
  | H400 => Lst [tag (lit "400")]
  end.

Definition rd_chunks (x : sx) : list bytes := map sx_s (sx_l x).

(* the parts as the next layer sees them: data events of one part concatenated *)
Fixpoint normalise (evs : list event) (cur : option (sx * bytes)) : list sx :=
  let flush := match cur with Some (h, d) => [Lst [h; Str d; tag (lit "open")]] | None => [] end in
  match evs with
  | [] => flush
  | EField n hs :: r => flush ++ normalise r (Some (Lst [tag (lit "field"); show_name n; show_hdrs hs], []))
  | EFile n fn hs :: r => flush ++ normalise r (Some (Lst [tag (lit "file"); show_name n; Str fn; show_hdrs hs], []))
  | EData d more :: r =>
      match cur with
      | Some (h, acc) =>
          if more then normalise r (Some (h, acc ++ d))
          else Lst [h; Str (acc ++ d); tag (lit "done")] :: normalise r None
      | None => Lst [tag (lit "stray-data")] :: normalise r None
      end
  | EPreamble _ :: r => normalise r cur
  | EEpilogue _ :: r => flush ++ [Lst [tag (lit "epilogue")]] ++ normalise r None
  | EMalformed :: r => flush ++ [Lst [tag (lit "malformed")]] ++ normalise r None
  | ENeed :: r => normalise r cur
  end.

Definition run_case (c : list sx) : list sx :=
  match c with
  | Str op :: rest =>
      if bytes_eqb op (lit "events") then
        match rest with
        | [Str b; Num u; chunks] =>
            map (fun p => Lst [Lst (map show_event (fst p)); of_nat (snd p)])
                (run_chunks b (negb (Z.eqb u 0)) new_decoder (rd_chunks chunks))
        | _ => [tag (lit "badcase")]
        end
      else if bytes_eqb op (lit "parts") then
        match rest with
        | [Str b; Num u; chunks] =>
            normalise (flat_map fst (run_chunks b (negb (Z.eqb u 0)) new_decoder (rd_chunks chunks))) None
        | _ => [tag (lit "badcase")]
        end
      else if bytes_eqb op (lit "form") then
        (* the stream helpers and the request accessors: four observations of one result *)
        match rest with
        | [Str b; Num u; Num mp; mm; chunks] =>
            let o := show_outcome (parse_stream b (negb (Z.eqb u 0)) (Z.to_nat mp)
                             (match mm with Lst [Num m] => Some (Z.to_nat m) | _ => None end)
                             (rd_chunks chunks)) in
            [o; o; o; o]
        | _ => [tag (lit "badcase")]
        end
      else if bytes_eqb op (lit "stream") then
        match rest with
        | [Str b; Num u; Num mp; mm; chunks] =>
            [show_outcome (parse_stream b (negb (Z.eqb u 0)) (Z.to_nat mp)
                             (match mm with Lst [Num m] => Some (Z.to_nat m) | _ => None end)
                             (rd_chunks chunks))]
        | _ => [tag (lit "badcase")]
        end
      else if bytes_eqb op (lit "header") then
        match rest with
        | [Str line] => let '(k, opts) := parse_header line in [Str k; show_hdrs opts]
        | _ => [tag (lit "badcase")]
        end
      else if bytes_eqb op (lit "decode") then
        match rest with
        | [Num u; Str s] => [Str (safe_decode (negb (Z.eqb u 0)) s)]
        | _ => [tag (lit "badcase")]
        end
      else [tag (lit "badcase")]
  | _ => [tag (lit "badcase")]
  end.

Definition run_line (l : list N) : list N := print_line (run_case (parse_line l)).
