(* C01 / C15 — wire interface of the multipart model. *)
From Coq Require Import List NArith ZArith Bool.
From Baize Require Import Lib.Wire Lib.Order C01.Model.
Import ListNotations.

Definition show_hdrs (h : list header) : sx :=
  Lst (map (fun p => Lst [Str (fst p); Str (snd p)]) (sort_headers h)).

Definition show_name (n : option bytes) : sx := match n with Some s => Lst [Str s] | None => Lst [] end.

Definition show_event (e : event) : sx :=
  match e with
  | EPreamble d => Lst [tag (lit "preamble"); Str d]
  | EField n hs => Lst [tag (lit "field"); show_name n; show_hdrs hs]
  | EFile n fn hs => Lst [tag (lit "file"); show_name n; Str fn; show_hdrs hs]
  | EData d m => Lst [tag (lit "data"); Str d; of_bool m]
  | EEpilogue d => Lst [tag (lit "epilogue"); Str d]
  | ENeed => Lst [tag (lit "need")]
  | EMalformed => Lst [tag (lit "malformed")]
  end.

Definition show_state (s : dstate) : sx :=
  match s with
  | PREAMBLE => tag (lit "PREAMBLE")
  | PART => tag (lit "PART")
  | DATA => tag (lit "DATA")
  | EPILOGUE => tag (lit "EPILOGUE")
  | COMPLETE => tag (lit "COMPLETE")
  end.

Definition show_pitem (p : pitem) : sx :=
  match p with
  | PDone h c => Lst [tag (lit "done"); show_event h; Str c]
  | POpen h c => Lst [tag (lit "open"); show_event h; Str c]
  | PStray => Lst [tag (lit "stray-data")]
  | PEpi => Lst [tag (lit "epilogue")]
  | PMal => Lst [tag (lit "malformed")]
  end.

Definition show_item (i : item) : sx :=
  match i with
  | IText n t => Lst [tag (lit "text"); show_name n; Str t]
  | IFile n fn hs c => Lst [tag (lit "file"); show_name n; Str fn; show_hdrs hs; Str c]
  end.

Definition show_outcome (o : houtcome) : sx :=
  match o with
  | HItems l => Lst (tag (lit "items") :: map show_item l)
  | H413 => Lst [tag (lit "413")]
  | H400 => Lst [tag (lit "400")]
  end.

Definition rd_chunks (x : sx) : list bytes := map sx_s (sx_l x).
Definition rd_limit (x : sx) : option nat := match x with Lst [Num m] => Some (Z.to_nat m) | _ => None end.

Definition run_case (c : list sx) : list sx :=
  match c with
  | Str op :: rest =>
      if bytes_eqb op (lit "events") then
        (* per chunk (the last entry is end-of-input): events, len(buffer), state; then the parts *)
        match rest with
        | [Str b; Num u; chunks] =>
            let tr := run_chunks b (negb (Z.eqb u 0)) new_decoder (rd_chunks chunks) in
            [Lst (map (fun p => Lst [Lst (map show_event (fst p)); of_nat (length (d_buf (snd p)));
                                     show_state (d_state (snd p))]) tr);
             Lst (map show_pitem (collect (all_events tr) None))]
        | _ => [tag (lit "badcase")]
        end
      else if bytes_eqb op (lit "form") then
        (* parse_stream, parse_async_stream with the given limits; Request.form (WSGI, ASGI) with
           the default limits of the helper each of them calls *)
        match rest with
        | [Str b; Num u; Num mp; mm; chunks; Num smp; smm; Num amp; amm] =>
            let run mp mm := show_outcome (parse_stream b (negb (Z.eqb u 0)) (Z.to_nat mp) (rd_limit mm)
                                                        (rd_chunks chunks)) in
            [run mp mm; run mp mm; run smp smm; run amp amm]
        | _ => [tag (lit "badcase")]
        end
      else if bytes_eqb op (lit "header") then
        match rest with
        | [Str line] => let '(k, opts) := parse_header line in [Str k; show_hdrs opts]
        | _ => [tag (lit "badcase")]
        end
      else if bytes_eqb op (lit "part") then
        match rest with
        | [Num u; Str block] =>
            match parse_part (negb (Z.eqb u 0)) block with
            | PBadHeader => [tag (lit "bad-header")]
            | PNoDisposition => [tag (lit "no-disposition")]
            | PEvent ev => [show_event ev]
            end
        | _ => [tag (lit "badcase")]
        end
      else if bytes_eqb op (lit "decode") then
        match rest with
        | [Num u; Str s] => [Str (safe_decode (negb (Z.eqb u 0)) s)]
        | _ => [tag (lit "badcase")]
        end
      else [tag (lit "badcase")]
  | _ => [tag (lit "badcase")]
  end.

Definition run_line (l : list N) : list N := print_line (run_case (parse_line l)).
