(* C08 — source-level tie for BaseRouter.search, Route.matches and compile_path of baize/routing.py and for
   Router.__call__ of baize/wsgi/routing.py and baize/asgi/routing.py.

   tools/py2coq_c08.py regenerates the Gallina definitions G.search, G.matches, G.compile_path, G.wsgi_router_call
   and G.asgi_router_call from the CURRENT Python source on
   every check run (harness/c08.py: extra_obligations); the text before the first marked segment and the segment of
   one function are then re-checked by coqc against the fresh definition (the two lines between the GENERATED
   markers are re-pointed at the fresh file; nothing else is changed).  Generated_ref.v is the committed copy of
   what the translator emitted when this file was written.

   What the Python calls on other objects is an ARGUMENT of the generated functions:
     G.search   route.matches                         search_translated_any: for EVERY such function;
                                                      search_translated: instantiated with the model's route_match
     G.matches  self.re_pattern.fullmatch             instantiated with the model's matcher M.match_segs (the items of
                                                      groupdict(): the placeholder names with the captured texts)
                self.path_convertors[name]            instantiated with the type the pattern gives the placeholder
                <convertor>.to_python                 instantiated with the model's M.to_python (None = ValueError)
     G.compile_path  PARAM_REGEX.finditer             instantiated with the matches the model's M.try_param finds from left
                                                      to right (model_finditer; compared with re.finditer by evaluation
                                                      on every run: tools/py2coq_c08.py finditer_check)
                     CONVERTOR_TYPES (in, [..])       instantiated with the model's M.ty_of_name
     G.wsgi_router_call / G.asgi_router_call
                     self.search, route.endpoint      the model's M.search; a route is its position, its endpoint too
   The proofs do not depend on the spelling of the source (names of the variables, `if not b` with the branches
   exchanged, the order of independent statements). *)
From Coq Require Import List NArith ZArith Bool Arith Lia.
From Baize Require Import Lib.PyStr Lib.PyStrFacts Lib.Wire Lib.Order.
From Baize Require C08.Model C08.Proofs C08.PyLib.
(* GENERATED-BEGIN *)
From Baize Require C08.Generated_ref.
Module G := Baize.C08.Generated_ref.
(* GENERATED-END *)
Module M := Baize.C08.Model.
Module PyLib := Baize.C08.PyLib.
Import ListNotations.
Local Open Scope N_scope.

(* what Route.matches answers, from the model's route_match *)
Definition answer (o : option M.params) : bool * M.params :=
  match o with
  | Some ps => (true, ps)
  | None => (false, [])
  end.

(* METHOD-BEGIN search *)
(* the first element the function accepts, with what the function said about it *)
Fixpoint first_match {R P : Type} (mt : R -> bool * P) (l : list R) : option (R * P) :=
  match l with
  | [] => None
  | r :: rest => if fst (mt r) then Some (r, snd (mt r)) else first_match mt rest
  end.

(* BaseRouter.search is the first-match scan, whatever route.matches is *)
Theorem search_translated_any : forall (R P : Type) (mt : R -> str -> bool * P) (routes : list R) (path : str),
  G.search mt routes path = first_match (fun r => mt r path) routes.
Proof.
  intros R P mt routes path. unfold G.search.
  induction routes as [|r rest IH]; [reflexivity|].
  cbn [first_match]. destruct (mt r path) as [b ps]. destruct b; cbn [fst snd negb]; first [reflexivity | exact IH].
Qed.

(* the routes of the model: the compiled patterns, each with its position in the table *)
Fixpoint indexed {A : Type} (i : nat) (l : list A) : list (nat * A) :=
  match l with
  | [] => []
  | x :: r => (i, x) :: indexed (S i) r
  end.

Definition model_matches (lim : N) (r : nat * list M.seg) (path : str) : bool * M.params :=
  answer (M.route_match lim (snd r) path).

(* with the model's route matcher for route.matches, the translated loop is the model's search: the position of
   the route returned and the parameters *)
Theorem search_translated : forall (lim : N) (table : list (list M.seg)) (path : str),
  option_map (fun rp => (fst (fst rp), snd rp)) (G.search (model_matches lim) (indexed 0 table) path)
  = M.search lim table path.
Proof.
  intros lim table path. rewrite search_translated_any. unfold M.search. generalize 0%nat.
  induction table as [|r rest IH]; intros i; [reflexivity|].
  cbn [indexed first_match M.search_from]. unfold model_matches at 1 2. cbn [snd].
  destruct (M.route_match lim r path) as [ps|]; cbn [answer fst snd option_map]; [reflexivity | apply IH].
Qed.
Print Assumptions search_translated_any.
Print Assumptions search_translated.
(* METHOD-END search *)

(* METHOD-BEGIN matches *)
(* the placeholders of a pattern, in order *)
Fixpoint plist (segs : list M.seg) : list (str * M.ty) :=
  match segs with
  | [] => []
  | M.Lit _ :: r => plist r
  | M.Param n t :: r => (n, t) :: plist r
  end.

(* self.re_pattern.fullmatch(path): None, or the items of groupdict() *)
Definition model_fullmatch (segs : list M.seg) (path : str) : option (list (str * str)) :=
  option_map (combine (map fst (plist segs))) (M.match_segs segs path).

(* self.path_convertors[name] *)
Fixpoint conv_of (segs : list M.seg) (n : str) : outcome M.ty :=
  match segs with
  | [] => Raise PyLib.KeyError
  | M.Lit _ :: r => conv_of r n
  | M.Param k t :: r => if str_eqb k n then Ret t else conv_of r n
  end.

(* convertor.to_python(value) *)
Definition model_to_python (lim : N) (t : M.ty) (s : str) : outcome M.value :=
  match M.to_python lim t s with
  | Some v => Ret v
  | None => Raise PyLib.ValueError
  end.

Fixpoint convert_list (lim : N) (ps : list (str * M.ty)) (caps : list str) : option M.params :=
  match ps with
  | [] => Some []
  | (n, t) :: r =>
      match caps with
      | [] => None
      | x :: caps' =>
          match M.to_python lim t x with
          | Some v =>
              match convert_list lim r caps' with
              | Some q => Some ((n, v) :: q)
              | None => None
              end
          | None => None
          end
      end
  end.

Lemma convert_all_list lim : forall segs caps, M.convert_all lim segs caps = convert_list lim (plist segs) caps.
Proof.
  induction segs as [|g r IH]; intros caps; [reflexivity|].
  destruct g as [l|n t]; cbn [M.convert_all plist convert_list]; [apply IH|].
  destruct caps as [|x caps']; [reflexivity|]. rewrite IH. reflexivity.
Qed.

Lemma names_plist : forall segs, M.param_names segs = map fst (plist segs).
Proof.
  induction segs as [|g r IH]; [reflexivity|].
  destruct g as [l|n t]; cbn [M.param_names plist map fst]; [exact IH | rewrite IH; reflexivity].
Qed.

Lemma distinct_NoDup : forall l, M.distinct l = true -> NoDup l.
Proof.
  induction l as [|x r IH]; intros H; [constructor|].
  cbn [M.distinct] in H. apply andb_true_iff in H. destruct H as [Hx Hr].
  constructor; [|apply IH; exact Hr].
  intros Hin. apply negb_true_iff in Hx.
  assert (Hex : existsb (bytes_eqb x) r = true).
  { apply existsb_exists. exists x. split; [exact Hin | apply bytes_eqb_eq; reflexivity]. }
  rewrite Hex in Hx. discriminate.
Qed.

Lemma split_len : forall segs s caps, M.split_of segs s caps -> length caps = length (plist segs).
Proof.
  intros segs s caps H. induction H as [|l r s caps H IH|n t r x s caps Hl H IH]; cbn [plist length];
    [reflexivity | exact IH | rewrite IH; reflexivity].
Qed.

Lemma conv_of_in : forall segs n t, NoDup (map fst (plist segs)) -> In (n, t) (plist segs) -> conv_of segs n = Ret t.
Proof.
  induction segs as [|g r IH]; intros n t Hnd Hin; [destruct Hin|].
  destruct g as [l|k t0]; cbn [conv_of plist map fst] in *; [apply IH; assumption|].
  inversion Hnd as [|k' r' Hnotin Hnd']; subst.
  destruct Hin as [Heq|Hin].
  - injection Heq as -> ->. rewrite str_eqb_refl. reflexivity.
  - destruct (str_eqb k n) eqn:E.
    + apply str_eqb_eq in E. subst k. exfalso. apply Hnotin.
      change n with (fst (n, t)). apply in_map. exact Hin.
    + apply IH; assumption.
Qed.

Lemma dict_set_fresh {V : Type} : forall (d : list (str * V)) k v, ~ In k (map fst d) -> dict_set k v d = d ++ [(k, v)].
Proof.
  induction d as [|[k' v'] r IH]; intros k v H; [reflexivity|].
  cbn [dict_set app]. destruct (str_eqb k' k) eqn:E.
  - apply str_eqb_eq in E. subst k'. exfalso. apply H. left. reflexivity.
  - f_equal. apply IH. intro Hin. apply H. right. exact Hin.
Qed.

(* the dict comprehension over the items of groupdict(), for any spelling f of its body *)
Lemma dictcomp_from_spec (lim : N) (cv : str -> outcome M.ty) (f : str * str -> outcome (str * M.value)) :
  (forall n x, f (n, x) = PyLib.bind (cv n) (fun t => PyLib.bind (model_to_python lim t x) (fun v => Ret (n, v)))) ->
  forall ps caps d,
    length caps = length ps ->
    (forall n t, In (n, t) ps -> cv n = Ret t) ->
    NoDup (map fst ps) ->
    (forall n, In n (map fst ps) -> ~ In n (map fst d)) ->
    PyLib.dictcomp_from f (combine (map fst ps) caps) d =
    match convert_list lim ps caps with
    | Some q => Ret (d ++ q)
    | None => Raise PyLib.ValueError
    end.
Proof.
  intros Hf. induction ps as [|[n t] r IH]; intros caps d Hl Hcv Hnd Hdis.
  - cbn [map combine PyLib.dictcomp_from convert_list]. rewrite app_nil_r. reflexivity.
  - destruct caps as [|x caps]; [discriminate|].
    cbn [map fst combine PyLib.dictcomp_from convert_list]. rewrite Hf.
    rewrite (Hcv n t (or_introl eq_refl)). cbn [PyLib.bind]. unfold model_to_python.
    destruct (M.to_python lim t x) as [v|]; cbn [PyLib.bind]; [|reflexivity].
    inversion Hnd as [|n' r' Hnotin Hnd']; subst.
    rewrite dict_set_fresh by (apply Hdis; left; reflexivity).
    rewrite IH.
    + destruct (convert_list lim r caps) as [q|]; [rewrite <- app_assoc; reflexivity | reflexivity].
    + cbn [length] in Hl. lia.
    + intros n0 t0 Hin. apply Hcv. right. exact Hin.
    + exact Hnd'.
    + intros n0 Hin0 Hd. rewrite map_app in Hd. apply in_app_or in Hd. destruct Hd as [Hd|Hd].
      * apply (Hdis n0); [right; exact Hin0 | exact Hd].
      * cbn [map fst In] in Hd. destruct Hd as [Hd|[]]. subst n0. apply Hnotin. exact Hin0.
Qed.

(* Route.matches is the model's route_match, for every pattern whose placeholder names differ (re.compile refuses
   a pattern that uses a group name twice: M.compile_route, ERe) *)
Theorem matches_translated : forall (lim : N) (segs : list M.seg) (path : str),
  M.distinct (M.param_names segs) = true ->
  G.matches (model_fullmatch segs) (conv_of segs) (model_to_python lim) path
  = Ret (answer (M.route_match lim segs path)).
Proof.
  intros lim segs path Hd. rewrite names_plist in Hd. apply distinct_NoDup in Hd.
  unfold G.matches, model_fullmatch, M.route_match.
  destruct (M.match_segs segs path) as [caps|] eqn:Em; cbn [option_map]; [|reflexivity].
  apply C08.Proofs.match_sound in Em. apply split_len in Em.
  unfold PyLib.dictcomp.
  erewrite (dictcomp_from_spec lim (conv_of segs)).
  - rewrite <- convert_all_list. cbn [app].
    destruct (M.convert_all lim segs caps) as [ps|]; reflexivity.
  - intros n x. reflexivity.
  - exact Em.
  - intros n t Hin. apply conv_of_in; assumption.
  - exact Hd.
  - intros n _ [].
Qed.
Print Assumptions matches_translated.
(* METHOD-END matches *)

(* METHOD-BEGIN wsgi_router_call *)
Definition PATH_INFO : str := Eval vm_compute in lit "PATH_INFO".
Definition PATH_PARAMS : str := Eval vm_compute in lit "PATH_PARAMS".

(* The WSGI router, with the model's search for self.search (a route is its position in the table, its endpoint
   the same number): `response` is the endpoint of the route the model finds for environ.get("PATH_INFO", ""),
   called with the environ unchanged but for environ["PATH_PARAMS"] = the model's parameters; or Response(404) with
   the environ as it was.  No exception. *)
Theorem wsgi_router_call_translated : forall (lim : N) (table : list (list M.seg)) (environ : PyLib.dict),
  G.wsgi_router_call (M.search lim table) (fun i : nat => i) environ
  = Ret (match M.wsgi_router lim table (PyLib.dict_lookup environ PATH_INFO) with
         | M.Ran i ps => (PyLib.Endpoint i, environ, [(PATH_PARAMS, ps)])
         | M.NotFound => (PyLib.Response 404%Z, environ, [])
         end).
Proof.
  intros lim table environ.
  unfold G.wsgi_router_call, M.wsgi_router, PyLib.dict_get, PATH_INFO, PATH_PARAMS.
  destruct (PyLib.dict_lookup environ _) as [p|];
    destruct (M.search lim table _) as [[i ps]|]; reflexivity.
Qed.
Print Assumptions wsgi_router_call_translated.
(* METHOD-END wsgi_router_call *)

(* METHOD-BEGIN asgi_router_call *)
Definition TYPE : str := Eval vm_compute in lit "type".
Definition LIFESPAN : str := Eval vm_compute in lit "lifespan".
Definition PATH : str := Eval vm_compute in lit "path".
Definition PATH_PARAMS_A : str := Eval vm_compute in lit "path_params".
Definition RUNTIME_ERROR : str := Eval vm_compute in lit "RuntimeError".

(* The ASGI router, with the model's search for self.search: a scope without "type" -> KeyError; a lifespan scope
   -> RuntimeError; a scope without "path" -> KeyError (none of the three is in the model, whose argument is the
   path); otherwise the model's asgi_router on scope["path"], the parameters under scope["path_params"]. *)
Theorem asgi_router_call_translated : forall (lim : N) (table : list (list M.seg)) (scope : PyLib.dict),
  G.asgi_router_call (M.search lim table) (fun i : nat => i) scope
  = match PyLib.dict_lookup scope TYPE with
    | None => Raise PyLib.KeyError
    | Some ty =>
        if str_eqb ty LIFESPAN then Raise RUNTIME_ERROR
        else
          match PyLib.dict_lookup scope PATH with
          | None => Raise PyLib.KeyError
          | Some path =>
              Ret (match M.asgi_router lim table path with
                   | M.Ran i ps => (PyLib.Endpoint i, scope, [(PATH_PARAMS_A, ps)])
                   | M.NotFound => (PyLib.Response 404%Z, scope, [])
                   end)
          end
    end.
Proof.
  intros lim table scope.
  unfold G.asgi_router_call, M.asgi_router, PyLib.dict_getitem, TYPE, LIFESPAN, PATH, PATH_PARAMS_A, RUNTIME_ERROR.
  destruct (PyLib.dict_lookup scope _) as [ty|]; cbn [PyLib.bind]; [|reflexivity].
  destruct (str_eqb ty _); [reflexivity|].
  destruct (PyLib.dict_lookup scope _) as [path|]; cbn [PyLib.bind]; [|reflexivity].
  destruct (M.search lim table path) as [[i ps]|]; reflexivity.
Qed.
Print Assumptions asgi_router_call_translated.
(* METHOD-END asgi_router_call *)

(* METHOD-BEGIN compile_path *)
Definition STR : str := Eval vm_compute in lit "str".

(* the match object of PARAM_REGEX at position pos, from what the model's try_param says about the text there *)
Definition mk_match (pos : nat) (name tn : str) (len : nat) : PyLib.rematch :=
  (pos, (pos + len)%nat, (Some name, if Nat.eqb len (2 + length name) then None else Some (58 :: tn))).

(* PARAM_REGEX.finditer(path): the non-overlapping matches from left to right *)
Fixpoint finditer_from (ucls : N -> N) (s : str) (pos skip : nat) : list PyLib.rematch :=
  match s with
  | [] => []
  | c :: r =>
      match skip with
      | S k => finditer_from ucls r (S pos) k
      | O =>
          match M.try_param ucls s with
          | Some (name, tn, len) => mk_match pos name tn len :: finditer_from ucls r (S pos) (len - 1)
          | None => finditer_from ucls r (S pos) 0
          end
      end
  end.

Definition model_finditer (ucls : N -> N) (path : str) : list PyLib.rematch := finditer_from ucls path 0 0.

Definition dset (acc : list (str * M.ty)) (kt : str * M.ty) : list (str * M.ty) := dict_set (fst kt) (snd kt) acc.

Lemma skipn_add {A : Type} : forall (a b : nat) (l : list A), skipn (a + b) l = skipn b (skipn a l).
Proof.
  induction a as [|a IH]; intros b l; [reflexivity|].
  destruct l as [|x l]; cbn [Nat.add skipn]; [destruct b; reflexivity | apply IH].
Qed.

Lemma take_word_head ucls : forall r c t, M.take_word ucls r = c :: t -> M.re_word ucls c = true.
Proof.
  intros [|x r] c t H; cbn [M.take_word] in H; [discriminate|].
  destruct (M.re_word ucls x) eqn:E; [|discriminate]. injection H as <- _. exact E.
Qed.

Lemma re_word_colon ucls : M.re_word ucls 58 = false.
Proof. reflexivity. Qed.

(* what try_param returns: the length is positive, and the type name is "str" when the group is absent and
   does not start with ':' when it is present *)
Lemma try_param_shape ucls s name tn len :
  M.try_param ucls s = Some (name, tn, len) ->
  (1 <= len)%nat /\
  PyLib.lstrip_chars [58] (if Nat.eqb len (2 + length name) then STR else 58 :: tn) = tn.
Proof.
  unfold M.try_param. destruct s as [|b [|c r]]; try discriminate.
  destruct (negb (b =? 123)); [discriminate|]. destruct (M.re_digit ucls c); [discriminate|].
  destruct (M.drop_word ucls r) as [|x r2]; [discriminate|].
  destruct (N.eq_dec x 125) as [->|Hx1].
  - intros [= <- <- <-]. rewrite Nat.eqb_refl. split; [lia | reflexivity].
  - destruct (N.eq_dec x 58) as [->|Hx2].
    + destruct (M.take_word ucls r2) as [|c2 t2] eqn:Et; [discriminate|].
      destruct (M.drop_word ucls r2) as [|y r3]; [discriminate|].
      destruct (N.eq_dec y 125) as [->|Hy].
      * intros [= <- <- <-].
        destruct (Nat.eqb _ _) eqn:En; [apply Nat.eqb_eq in En; cbn [length] in En; lia|]. clear En.
        split; [lia|].
        apply take_word_head in Et.
        cbn [PyLib.lstrip_chars existsb]. rewrite N.eqb_refl. cbn [orb].
        destruct (c2 =? 58) eqn:E; [apply N.eqb_eq in E; subst c2; rewrite re_word_colon in Et; discriminate|].
        reflexivity.
      * intros H. exfalso. destruct y as [|p]; [discriminate|].
        repeat match goal with q : positive |- _ => destruct q; try discriminate end. apply Hy. reflexivity.
    + intros H. exfalso. destruct x as [|p]; [discriminate|].
      repeat match goal with q : positive |- _ => destruct q; try discriminate end; [apply Hx1; reflexivity | apply Hx2; reflexivity].
Qed.

Lemma loop_spec ucls (path : str) : forall s pos skip pend pf idx pc,
  skipn idx path = pend ++ skipn skip s ->
  (idx + length pend = pos + skip)%nat ->
  (skip <> 0%nat -> pend = []) ->
  G.compile_path_loop (model_finditer ucls) M.ty_of_name path (finditer_from ucls s pos skip) pc idx pf
  = match M.scan1 ucls s skip with
    | Some (fmt, d) => Ret (pf ++ pend ++ fmt, fold_left dset d pc)
    | None => Raise PyLib.ValueError
    end.
Proof.
  induction s as [|c r IH]; intros pos skip pend pf idx pc H1 H2 H3.
  - cbn [finditer_from G.compile_path_loop M.scan1 fold_left]. unfold PyLib.slice_from. rewrite H1.
    destruct skip; cbn [skipn]; rewrite !app_nil_r; reflexivity.
  - destruct skip as [|k].
    + cbn [finditer_from M.scan1]. cbn [skipn] in H1.
      destruct (M.try_param ucls (c :: r)) as [[[name tn] len]|] eqn:Etp.
      * apply try_param_shape in Etp. destruct Etp as [Hlen Hstrip].
        cbn [G.compile_path_loop]. unfold mk_match at 1. unfold PyLib.groups2. cbn [fst snd].
        set (x := PyLib.lstrip_chars [58] _).
        assert (Hx : x = tn).
        { subst x. revert Hstrip. unfold STR. destruct (Nat.eqb len (2 + length name)); cbv beta iota; intros Hs; exact Hs. }
        rewrite Hx. clear x Hx Hstrip.
        destruct (M.ty_of_name tn) as [t|] eqn:Ety; cbn [PyLib.has negb PyLib.field_getitem PyLib.bind]; [|reflexivity].
        unfold PyLib.slice, PyLib.m_start, PyLib.m_end, mk_match. cbn [fst snd].
        rewrite H1.
        replace (pos - idx)%nat with (length pend) by lia.
        rewrite C08.Proofs.firstn_app_exact by reflexivity.
        rewrite (IH (S pos) (len - 1)%nat [] _ (pos + len)%nat _).
        -- destruct (M.scan1 ucls r (len - 1)) as [[fmt d]|]; [|reflexivity].
           cbn [fold_left]. repeat rewrite <- app_assoc. cbn [app]. repeat rewrite <- app_assoc. cbn [app]. reflexivity.
        -- cbn [app]. replace (pos + len)%nat with (idx + (length pend + len))%nat by lia.
           rewrite skipn_add, H1, skipn_add, C08.Proofs.skipn_app_exact by reflexivity.
           destruct len as [|len']; [lia|]. cbn [skipn]. replace (S len' - 1)%nat with len' by lia. reflexivity.
        -- cbn [length]. lia.
        -- reflexivity.
      * rewrite (IH (S pos) 0%nat (pend ++ [c]) pf idx pc).
        -- destruct (M.scan1 ucls r 0) as [[fmt d]|]; [|reflexivity].
           rewrite <- app_assoc. reflexivity.
        -- cbn [skipn]. rewrite <- app_assoc. exact H1.
        -- rewrite app_length. cbn [length]. lia.
        -- intros Hk. exfalso. apply Hk. reflexivity.
    + cbn [finditer_from M.scan1]. apply IH.
      * cbn [skipn] in H1. exact H1.
      * lia.
      * intros _. apply H3. discriminate.
Qed.

(* compile_path is the model's scan1: the format, and the dict the assignments param_convertors[name] = convertor
   build in order; the unknown-convertor ValueError is scan1's None *)
Theorem compile_path_translated : forall (ucls : N -> N) (path : str),
  G.compile_path (model_finditer ucls) M.ty_of_name path
  = match M.scan1 ucls path 0 with
    | Some (fmt, d) => Ret (fmt, fold_left dset d [])
    | None => Raise PyLib.ValueError
    end.
Proof.
  intros ucls path. unfold G.compile_path. cbv zeta. unfold model_finditer at 2.
  rewrite (loop_spec ucls path path 0%nat 0%nat [] [] 0%nat []); [|reflexivity|reflexivity|reflexivity].
  destruct (M.scan1 ucls path 0) as [[fmt d]|]; reflexivity.
Qed.
Print Assumptions compile_path_translated.
(* METHOD-END compile_path *)
