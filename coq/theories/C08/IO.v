(* C08 — wire interface of the model: one case line in, one observation line out.

   rx    <type> ( <text> ... )                        -> ( b ... )      does the convertor's pattern accept the text
   conv  <lim> <type> <text>                          -> <m> [ <ts> [ <m'> <eq> ] ]
            m  := ( 0 ) | ( 1 <value> )                  Route("{x:type}").matches(text)
            ts := ( "exc" "ValueError" ) | ( <text'> )   convertor.to_string(value)
            m' := the same for text', eq := value' == value
   route <lim> ( ( <cp> <class> ) ... ) ( <route text> ... ) <path?>
            path? := ( ) | ( <text> )                    PATH_INFO absent / present
         -> ( "cfg" )                                    a Route cannot be constructed
          | <wsgi> <asgi> ( <m> ... )                    wsgi, asgi := ( "404" ) | ( "ran" i <params> )
                                                         then Route.matches of every route
   value  := ( "s" text ) | ( "i" digits ) | ( "d" coefficient-digits exponent ) | ( "u" hex32 ) | ( "t" y m d )
   params := ( ( name value ) ... ) sorted by name *)
From Coq Require Import List NArith ZArith Bool.
From Baize Require Import Lib.Wire Lib.Order C08.Model.
Import ListNotations.
Local Open Scope N_scope.

(* trailing zeros of the coefficient moved into the exponent (numeric value unchanged) *)
Fixpoint norm_dec (c : N) (k : nat) : N * nat :=
  match k with
  | O => (c, O)
  | S k' => if c mod 10 =? 0 then norm_dec (c / 10) k' else (c, k)
  end.

Definition show_value (v : value) : sx :=
  match v with
  | VStr s => Lst [tag (lit "s"); Str s]
  | VInt n => Lst [tag (lit "i"); Str (dec n)]
  | VDec c k => let '(c', k') := norm_dec c k in Lst [tag (lit "d"); Str (dec c'); Num (- Z.of_nat k')]
  | VUuid n => Lst [tag (lit "u"); Str (hexw 32 n)]
  | VDate y m d => Lst [tag (lit "t"); of_N y; of_N m; of_N d]
  end.

Definition param_leb (a b : list N * value) : bool := bytes_leb (fst a) (fst b).

Definition show_params (ps : params) : sx :=
  Lst (map (fun p => Lst [Str (fst p); show_value (snd p)]) (sort_by param_leb ps)).

Definition show_match (o : option params) : sx :=
  match o with
  | None => Lst [Num 0]
  | Some ps => Lst [Num 1; show_params ps]
  end.

Definition show_response (r : response) : sx :=
  match r with
  | NotFound => Lst [tag (lit "404")]
  | Ran i ps => Lst [tag (lit "ran"); of_nat i; show_params ps]
  end.

(* which exception the constructor raises is not part of the observation *)
Definition show_cerr (e : cerr) : sx := Lst [tag (lit "cfg")].

Fixpoint lookup_cls (tb : list (N * N)) (c : N) : N :=
  match tb with
  | [] => 0
  | (k, v) :: r => if k =? c then v else lookup_cls r c
  end.

Definition cls_of_sx (s : sx) : N * N :=
  match s with
  | Lst [Num a; Num b] => (Z.to_N a, Z.to_N b)
  | _ => (0, 0)
  end.

Definition run_conv (lim : N) (t : ty) (s : list N) : list sx :=
  let segs := [Param (lit "x") t] in
  let m := route_match lim segs s in
  match m with
  | Some [(_, v)] =>
      match to_string lim t v with
      | None => [show_match m; Lst [tag (lit "exc"); tag (lit "ValueError")]]
      | Some s' =>
          let m' := route_match lim segs s' in
          let eq := match m' with Some [(_, v')] => value_eqb v' v | _ => false end in
          [show_match m; Lst [Str s']; show_match m'; of_bool eq]
      end
  | _ => [show_match m]
  end.

Definition run (c : list sx) : list sx :=
  match c with
  | [Str op; Str tn; Lst texts] =>
      if bytes_eqb op (lit "rx") then
        match ty_of_name tn with
        | Some t => [Lst (map (fun x => of_bool (accepts t (sx_s x))) texts)]
        | None => [tag (lit "badtype")]
        end
      else [tag (lit "badcase")]
  | [Str op; Num lim; Str tn; Str s] =>
      if bytes_eqb op (lit "conv") then
        match ty_of_name tn with
        | Some t => run_conv (Z.to_N lim) t s
        | None => [tag (lit "badtype")]
        end
      else [tag (lit "badcase")]
  | [Str op; Num lim; Lst cl; Lst routes; Lst p] =>
      if bytes_eqb op (lit "route") then
        let ucls := lookup_cls (map cls_of_sx cl) in
        let lim := Z.to_N lim in
        match compile_table ucls (map sx_s routes) with
        | inr e => [show_cerr e]
        | inl tb =>
            let path_info := match p with [Str x] => Some x | _ => None end in
            let path := match path_info with Some x => x | None => [] end in
            [show_response (wsgi_router lim tb path_info);
             show_response (asgi_router lim tb path);
             Lst (map (fun r => show_match (route_match lim r path)) tb)]
        end
      else [tag (lit "badcase")]
  | _ => [tag (lit "badcase")]
  end.

Definition run_line (l : list N) : list N := print_line (run (parse_line l)).
