(* C08 — proofs about the router model. *)
From Coq Require Import List NArith ZArith Bool Arith Lia.
From Coq Require DecimalFacts DecimalN DecimalPos.
From Baize Require Import Lib.Wire Lib.Order C08.Model.
Import ListNotations.
Local Open Scope N_scope.

(* ================================================================== small list facts *)

Lemma Forall_digit_forallb s :
  Forall (fun c => is_ascii_digit c = true) s <-> forallb is_ascii_digit s = true.
Proof. rewrite forallb_forall, Forall_forall. reflexivity. Qed.

Lemma firstn_app_exact {A} (a b : list A) n : length a = n -> firstn n (a ++ b) = a.
Proof.
  intros <-. rewrite firstn_app, Nat.sub_diag, firstn_all. cbn [firstn]. apply app_nil_r.
Qed.

Lemma skipn_app_exact {A} (a b : list A) n : length a = n -> skipn n (a ++ b) = b.
Proof.
  intros <-. rewrite skipn_app, Nat.sub_diag, skipn_all. reflexivity.
Qed.

(* ================================================================== A. automata and languages *)

Lemma run_cons t q c r :
  run t q (c :: r) = match step t q c with Some q' => run t q' r | None => false end.
Proof. reflexivity. Qed.

(* ---- str *)
Lemma run_str1 s : run TStr 1 s = true <-> Forall (fun c => c <> 47) s.
Proof.
  induction s as [|c r IH].
  - cbn. split; [constructor|reflexivity].
  - rewrite run_cons. cbn [step]. destruct (c =? 47) eqn:E.
    + apply N.eqb_eq in E. split; [discriminate|]. intros H. inversion H; subst. congruence.
    + apply N.eqb_neq in E. rewrite IH. split.
      * intros H. constructor; assumption.
      * intros H. inversion H; assumption.
Qed.

Lemma accepts_str s : accepts TStr s = true <-> In_lang TStr s.
Proof.
  unfold accepts. cbn [In_lang]. destruct s as [|c r].
  - cbn. split; [discriminate|]. intros [H _]. congruence.
  - rewrite run_cons. cbn [step]. destruct (c =? 47) eqn:E.
    + apply N.eqb_eq in E. split; [discriminate|]. intros [_ H]. inversion H; subst. congruence.
    + apply N.eqb_neq in E. rewrite run_str1. split.
      * intros H. split; [discriminate|]. constructor; assumption.
      * intros [_ H]. inversion H; assumption.
Qed.

(* ---- int *)
Lemma run_int1 s : run TInt 1 s = true <-> Forall (fun c => is_ascii_digit c = true) s.
Proof.
  induction s as [|c r IH].
  - cbn. split; [constructor|reflexivity].
  - rewrite run_cons. cbn [step]. destruct (is_ascii_digit c) eqn:E.
    + rewrite IH. split; [intros H; constructor; assumption|intros H; inversion H; assumption].
    + split; [discriminate|]. intros H. inversion H; subst. congruence.
Qed.

Lemma accepts_int s : accepts TInt s = true <-> In_lang TInt s.
Proof.
  unfold accepts. cbn [In_lang]. unfold digits_ne. destruct s as [|c r].
  - cbn. split; [discriminate|]. intros [H _]. congruence.
  - rewrite run_cons. cbn [step]. destruct (is_ascii_digit c) eqn:E.
    + rewrite run_int1. split.
      * intros H. split; [discriminate|]. constructor; assumption.
      * intros [_ H]. inversion H; assumption.
    + split; [discriminate|]. intros [_ H]. inversion H; subst. congruence.
Qed.

(* ---- decimal *)
Definition all_digits (s : list N) : Prop := Forall (fun c => is_ascii_digit c = true) s.

Lemma digit_not_dot c : is_ascii_digit c = true -> (c =? 46) = false.
Proof.
  unfold is_ascii_digit. intros H. apply andb_true_iff in H as [H1 H2].
  apply N.leb_le in H1. apply N.eqb_neq. lia.
Qed.

Lemma digit_not_dash c : is_ascii_digit c = true -> (c =? 45) = false.
Proof.
  unfold is_ascii_digit. intros H. apply andb_true_iff in H as [H1 H2].
  apply N.leb_le in H1. apply N.eqb_neq. lia.
Qed.

Lemma run_dec3 s : run TDec 3 s = true <-> all_digits s.
Proof.
  unfold all_digits. induction s as [|c r IH].
  - cbn. split; [constructor|reflexivity].
  - rewrite run_cons. cbn [step]. destruct (is_ascii_digit c) eqn:E.
    + rewrite IH. split; [intros H; constructor; assumption|intros H; inversion H; assumption].
    + split; [discriminate|]. intros H. inversion H; subst. congruence.
Qed.

Lemma run_dec2 s : run TDec 2 s = true <-> digits_ne s.
Proof.
  unfold digits_ne. destruct s as [|c r].
  - cbn. split; [discriminate|]. intros [H _]. congruence.
  - rewrite run_cons. cbn [step]. destruct (is_ascii_digit c) eqn:E.
    + rewrite run_dec3. unfold all_digits. split.
      * intros H. split; [discriminate|]. constructor; assumption.
      * intros [_ H]. inversion H; assumption.
    + split; [discriminate|]. intros [_ H]. inversion H; subst. congruence.
Qed.

Lemma run_dec1 s :
  run TDec 1 s = true <->
  all_digits s \/ exists a b, s = a ++ 46 :: b /\ all_digits a /\ digits_ne b.
Proof.
  unfold all_digits. induction s as [|c r IH].
  - cbn. split; [intros _; left; constructor|reflexivity].
  - rewrite run_cons. cbn [step]. destruct (is_ascii_digit c) eqn:E.
    + rewrite IH. split.
      * intros [H|(a & b & -> & Ha & Hb)].
        -- left. constructor; assumption.
        -- right. exists (c :: a), b. split; [reflexivity|]. split; [constructor; assumption|assumption].
      * intros [H|(a & b & Hs & Ha & Hb)].
        -- left. inversion H; assumption.
        -- destruct a as [|x a].
           ++ cbn in Hs. injection Hs as -> _. discriminate.
           ++ cbn in Hs. injection Hs as -> ->. right. exists a, b.
              split; [reflexivity|]. split; [inversion Ha; assumption|assumption].
    + destruct (c =? 46) eqn:E46.
      * apply N.eqb_eq in E46. subst c. rewrite run_dec2. split.
        -- intros H. right. exists [], r. split; [reflexivity|]. split; [constructor|assumption].
        -- intros [H|(a & b & Hs & Ha & Hb)].
           ++ inversion H; subst. discriminate.
           ++ destruct a as [|x a].
              ** cbn in Hs. injection Hs as ->. assumption.
              ** cbn in Hs. injection Hs as <- _. inversion Ha; subst. discriminate.
      * split; [discriminate|]. intros [H|(a & b & Hs & Ha & Hb)].
        -- inversion H; subst. congruence.
        -- destruct a as [|x a].
           ++ cbn in Hs. injection Hs as -> _. rewrite N.eqb_refl in E46. discriminate.
           ++ cbn in Hs. injection Hs as <- _. inversion Ha; subst. congruence.
Qed.

Lemma accepts_dec s : accepts TDec s = true <-> In_lang TDec s.
Proof.
  unfold accepts. cbn [In_lang]. unfold digits_ne. destruct s as [|c r].
  - cbn. split; [discriminate|]. intros [[H _]|(a & b & Hs & _)].
    + congruence.
    + destruct a; discriminate.
  - rewrite run_cons. cbn [step]. destruct (is_ascii_digit c) eqn:E.
    + rewrite run_dec1. unfold all_digits. split.
      * intros [H|(a & b & -> & Ha & Hb)].
        -- left. split; [discriminate|]. constructor; assumption.
        -- right. exists (c :: a), b. split; [reflexivity|]. split; [|assumption].
           split; [discriminate|]. constructor; assumption.
      * intros [[_ H]|(a & b & Hs & [Hane Ha] & Hb)].
        -- left. inversion H; assumption.
        -- destruct a as [|x a]; [congruence|]. cbn in Hs. injection Hs as -> ->.
           right. exists a, b. split; [reflexivity|]. split; [inversion Ha; assumption|assumption].
    + split; [discriminate|]. intros [[_ H]|(a & b & Hs & [Hane Ha] & Hb)].
      * inversion H; subst. congruence.
      * destruct a as [|x a]; [congruence|]. cbn in Hs. injection Hs as <- _.
        inversion Ha; subst. congruence.
Qed.

(* ---- fixed shapes *)
Lemma skipn_nth_error {A} (l : list A) q x :
  nth_error l q = Some x -> skipn q l = x :: skipn (S q) l.
Proof.
  revert q. induction l as [|y l IH]; intros [|q] H; cbn in H; try discriminate.
  - injection H as ->. reflexivity.
  - cbn [skipn]. rewrite (IH q H). reflexivity.
Qed.

Lemma run_shape t sh :
  (forall q c, step t q c = shape_step sh q c) ->
  (forall q, acc t q = Nat.eqb q (length sh)) ->
  forall s q, (q <= length sh)%nat ->
    (run t q s = true <-> Forall2 (fun k c => cls_ok k c = true) (skipn q sh) s).
Proof.
  intros Hstep Hacc. induction s as [|c r IH]; intros q Hq.
  - cbn [run]. rewrite Hacc. split.
    + intros H. apply Nat.eqb_eq in H. subst q. rewrite skipn_all. constructor.
    + intros H. inversion H as [Hs|]. apply Nat.eqb_eq.
      assert (Hl : length (skipn q sh) = 0%nat) by (rewrite <- Hs; reflexivity).
      rewrite skipn_length in Hl. lia.
  - rewrite run_cons, Hstep. unfold shape_step. destruct (nth_error sh q) as [k|] eqn:En.
    + rewrite (skipn_nth_error _ _ _ En).
      assert (Hlt : (q < length sh)%nat) by (apply nth_error_Some; congruence).
      destruct (cls_ok k c) eqn:Ek.
      * rewrite IH by lia. split.
        -- intros H. constructor; assumption.
        -- intros H. inversion H; assumption.
      * split; [discriminate|]. intros H. inversion H; subst. congruence.
    + split; [discriminate|]. intros H.
      apply nth_error_None in En. assert (q = length sh) by lia. subst q.
      rewrite skipn_all in H. inversion H.
Qed.

Lemma accepts_uuid s : accepts TUuid s = true <-> In_lang TUuid s.
Proof.
  unfold accepts. cbn [In_lang].
  rewrite (run_shape TUuid uuid_shape) by (reflexivity || (intros; reflexivity) || apply Nat.le_0_l).
  reflexivity.
Qed.

Lemma accepts_date s : accepts TDate s = true <-> In_lang TDate s.
Proof.
  unfold accepts. cbn [In_lang].
  rewrite (run_shape TDate date_shape) by (reflexivity || (intros; reflexivity) || apply Nat.le_0_l).
  reflexivity.
Qed.

Lemma run_any q s : run TAny q s = true.
Proof. revert q. induction s as [|c r IH]; intros q; [reflexivity|]. rewrite run_cons. cbn [step]. apply IH. Qed.

Lemma accepts_lang t s : accepts t s = true <-> In_lang t s.
Proof.
  destruct t.
  - apply accepts_str.
  - apply accepts_int.
  - apply accepts_dec.
  - apply accepts_uuid.
  - apply accepts_date.
  - unfold accepts. rewrite run_any. cbn. tauto.
Qed.

(* ================================================================== B. the matcher *)

Lemma strip_prefix_some p : forall s s', strip_prefix p s = Some s' <-> s = p ++ s'.
Proof.
  induction p as [|x p IH]; intros s s'.
  - cbn. split; [intros [= ->]; reflexivity|intros ->; reflexivity].
  - cbn [strip_prefix]. destruct s as [|y s].
    + split; [discriminate|]. cbn. discriminate.
    + destruct (x =? y) eqn:E.
      * apply N.eqb_eq in E. subst y. rewrite IH. cbn. split; [intros ->; reflexivity|intros [= ->]; reflexivity].
      * apply N.eqb_neq in E. split; [discriminate|]. cbn. intros [= -> _]. congruence.
Qed.

Lemma mparam_spec {A} t (k : list N -> option A) : forall s q,
  match mparam t k q s with
  | Some (n, a) =>
      (n <= length s)%nat /\ run t q (firstn n s) = true /\ k (skipn n s) = Some a /\
      forall m, (n < m)%nat -> (m <= length s)%nat -> run t q (firstn m s) = true -> k (skipn m s) = None
  | None =>
      forall m, (m <= length s)%nat -> run t q (firstn m s) = true -> k (skipn m s) = None
  end.
Proof.
  induction s as [|c r IH]; intros q.
  - cbn [mparam]. unfold stop_here. destruct (acc t q) eqn:Ea.
    + destruct (k []) as [a|] eqn:Ek.
      * cbn. repeat split; try assumption; try (intros; lia).
      * intros m _ _. destruct m; cbn; assumption.
    + intros m _ H. destruct m; cbn in H; congruence.
  - cbn [mparam]. unfold stop_here.
    assert (Hstop :
      match (if acc t q then match k (c :: r) with Some a => Some (0%nat, a) | None => None end else None) with
      | Some (n, a) => n = 0%nat /\ acc t q = true /\ k (c :: r) = Some a
      | None => acc t q = true -> k (c :: r) = None
      end).
    { destruct (acc t q); [|discriminate]. destruct (k (c :: r)); [repeat split|reflexivity]. }
    destruct (step t q c) as [q'|] eqn:Es.
    + specialize (IH q'). destruct (mparam t k q' r) as [[n a]|].
      * destruct IH as (H1 & H2 & H3 & H4). cbn [length firstn skipn]. rewrite run_cons, Es.
        repeat split; try assumption; try lia.
        intros m Hm1 Hm2 Hm3. destruct m as [|m]; [lia|]. cbn [firstn skipn] in *.
        rewrite run_cons, Es in Hm3. apply H4; try assumption; lia.
      * destruct (if acc t q then match k (c :: r) with Some a => Some (0%nat, a) | None => None end else None)
          as [[n a]|].
        -- destruct Hstop as (-> & Ha & Hk). cbn [firstn skipn run length]. repeat split; try assumption; try lia.
           intros m Hm1 Hm2 Hm3. destruct m as [|m]; [lia|]. cbn [firstn skipn] in *.
           rewrite run_cons, Es in Hm3. apply IH; [cbn in Hm2; lia|assumption].
        -- intros m Hm2 Hm3. destruct m as [|m].
           ++ cbn [firstn skipn run] in *. apply Hstop. assumption.
           ++ cbn [firstn skipn] in *. rewrite run_cons, Es in Hm3. apply IH; [cbn in Hm2; lia|assumption].
    + destruct (if acc t q then match k (c :: r) with Some a => Some (0%nat, a) | None => None end else None)
        as [[n a]|].
      * destruct Hstop as (-> & Ha & Hk). cbn [firstn skipn run length]. repeat split; try assumption; try lia.
        intros m Hm1 Hm2 Hm3. destruct m as [|m]; [lia|]. cbn [firstn] in Hm3.
        rewrite run_cons, Es in Hm3. discriminate.
      * intros m Hm2 Hm3. destruct m as [|m].
        -- cbn [firstn skipn run] in *. apply Hstop. assumption.
        -- cbn [firstn] in Hm3. rewrite run_cons, Es in Hm3. discriminate.
Qed.

Lemma match_sound : forall segs s caps, match_segs segs s = Some caps -> split_of segs s caps.
Proof.
  induction segs as [|g r IH]; intros s caps H.
  - cbn in H. destruct s; [|discriminate]. injection H as <-. constructor.
  - destruct g as [l|n t]; cbn [match_segs] in H.
    + destruct (strip_prefix l s) as [s'|] eqn:E; [|discriminate].
      apply strip_prefix_some in E. subst s. constructor. apply IH. assumption.
    + pose proof (mparam_spec t (match_segs r) s 0%nat) as Hm.
      destruct (mparam t (match_segs r) 0 s) as [[k caps']|]; [|discriminate].
      injection H as <-. destruct Hm as (H1 & H2 & H3 & _).
      rewrite <- (firstn_skipn k s) at 1. constructor.
      * apply accepts_lang. exact H2.
      * apply IH. exact H3.
Qed.

Lemma preferred_cons x a b : preferred a b -> preferred (x :: a) (x :: b).
Proof.
  intros [->|(pre & y & y' & r1 & r2 & -> & -> & Hl)].
  - left. reflexivity.
  - right. exists (x :: pre), y, y', r1, r2. repeat split; assumption.
Qed.

Lemma match_complete : forall segs s caps', split_of segs s caps' ->
  exists caps, match_segs segs s = Some caps /\ preferred caps caps'.
Proof.
  intros segs s caps' H. induction H as [|l r s caps' H IH|n t r x s caps' Hx H IH].
  - exists []. split; [reflexivity|left; reflexivity].
  - destruct IH as (caps & Hm & Hp). exists caps. split; [|assumption].
    cbn [match_segs]. assert (E : strip_prefix l (l ++ s) = Some s) by (apply strip_prefix_some; reflexivity).
    rewrite E. assumption.
  - destruct IH as (c2 & Hm & Hp). cbn [match_segs].
    pose proof (mparam_spec t (match_segs r) (x ++ s) 0%nat) as Hs.
    assert (Hf : firstn (length x) (x ++ s) = x) by (apply firstn_app_exact; reflexivity).
    assert (Hk : skipn (length x) (x ++ s) = s) by (apply skipn_app_exact; reflexivity).
    assert (Hr : run t 0 (firstn (length x) (x ++ s)) = true) by (rewrite Hf; apply accepts_lang; assumption).
    assert (Hl : (length x <= length (x ++ s))%nat) by (rewrite app_length; lia).
    destruct (mparam t (match_segs r) 0 (x ++ s)) as [[k a]|].
    + destruct Hs as (H1 & H2 & H3 & H4).
      destruct (Nat.lt_trichotomy k (length x)) as [Hlt|[Heq|Hgt]].
      * specialize (H4 (length x) Hlt Hl Hr). rewrite Hk in H4. congruence.
      * subst k. rewrite Hk in H3. rewrite Hf. assert (a = c2) by congruence. subst a.
        exists (x :: c2). split; [reflexivity|]. apply preferred_cons. assumption.
      * exists (firstn k (x ++ s) :: a). split; [reflexivity|].
        right. exists [], (firstn k (x ++ s)), x, a, caps'. repeat split.
        rewrite firstn_length. lia.
    + specialize (Hs (length x) Hl Hr). rewrite Hk in Hs. congruence.
Qed.

Lemma match_sound_complete_proof : forall segs path,
  (forall caps, match_segs segs path = Some caps ->
     split_of segs path caps /\
     Forall2 (fun t x => In_lang t x)
             (flat_map (fun g => match g with Param _ t => [t] | Lit _ => [] end) segs) caps) /\
  (match_segs segs path = None <-> ~ in_language segs path).
Proof.
  intros segs path. split.
  - intros caps H. apply match_sound in H. split; [assumption|].
    induction H; cbn [flat_map app]; try constructor; assumption.
  - split.
    + intros H [caps Hc]. apply match_complete in Hc as (c & Hc & _). congruence.
    + intros H. destruct (match_segs segs path) as [caps|] eqn:E; [|reflexivity].
      exfalso. apply H. exists caps. apply match_sound. assumption.
Qed.

Lemma preferred_antisym a b : preferred a b -> preferred b a -> a = b.
Proof.
  intros [->|(pre & x & x' & r1 & r2 & Ea & Eb & Hl)]; [reflexivity|].
  intros [E|(pre' & y & y' & r1' & r2' & Eb' & Ea' & Hl')]; [symmetry; assumption|].
  exfalso. rewrite Ea in Ea'. rewrite Eb in Eb'. clear Ea Eb a b.
  revert pre' Ea' Eb'. induction pre as [|p pre IH]; intros pre' Ea' Eb'.
  - destruct pre' as [|p' pre']; cbn in Ea', Eb'.
    + injection Ea' as -> _. injection Eb' as -> _. lia.
    + injection Ea' as -> _. injection Eb' as -> _. lia.
  - destruct pre' as [|p' pre']; cbn in Ea', Eb'.
    + injection Ea' as -> _. injection Eb' as -> _. lia.
    + injection Ea' as _ Ea'. injection Eb' as _ Eb'. apply (IH pre'); assumption.
Qed.

Lemma match_greedy_proof : forall segs path caps,
  match_segs segs path = Some caps <-> greedy_split segs path caps.
Proof.
  intros segs path caps. split.
  - intros H. split; [apply match_sound; assumption|].
    intros caps' Hc. apply match_complete in Hc as (c & Hc & Hp). congruence.
  - intros [Hs Hg]. destruct (match_complete _ _ _ Hs) as (c & Hc & Hp).
    assert (Hs' : split_of segs path c) by (apply match_sound; assumption).
    specialize (Hg c Hs'). rewrite (preferred_antisym _ _ Hg Hp). assumption.
Qed.

(* ================================================================== C. positional notation *)

Lemma pow_succ_nat b n : b ^ N.of_nat (S n) = b * b ^ N.of_nat n.
Proof. rewrite Nat2N.inj_succ. apply N.pow_succ_r'. Qed.

Lemma horner (b : N) (f : N -> N) : forall s a0,
  fold_left (fun a c => a * b + f c) s a0 = a0 * b ^ N.of_nat (length s) + posval b (map f s).
Proof.
  induction s as [|c r IH]; intros a0.
  - cbn. lia.
  - cbn [fold_left map posval length]. rewrite IH, map_length, pow_succ_nat. lia.
Qed.

Lemma undec_posval s : undec s = posval 10 (digit_vals s).
Proof. unfold undec, digit_vals. rewrite horner. lia. Qed.

Lemma unhex_posval s : unhex_s s = posval 16 (hex_vals s).
Proof. unfold unhex_s, hex_vals. rewrite horner. lia. Qed.

Lemma posval_app b x y : posval b (x ++ y) = posval b x * b ^ N.of_nat (length y) + posval b y.
Proof.
  induction x as [|d x IH].
  - cbn. lia.
  - cbn [app posval]. rewrite IH, app_length, Nat2N.inj_add, N.pow_add_r. lia.
Qed.

Lemma undec_app x y : undec (x ++ y) = undec x * 10 ^ N.of_nat (length y) + undec y.
Proof. rewrite !undec_posval. unfold digit_vals. rewrite map_app, posval_app, map_length. reflexivity. Qed.

Lemma posval_bound b ds : 0 < b -> Forall (fun d => d < b) ds -> posval b ds < b ^ N.of_nat (length ds).
Proof.
  intros Hb H. induction H as [|d r Hd Hr IH].
  - cbn. lia.
  - cbn [posval length]. rewrite pow_succ_nat.
    assert (d * b ^ N.of_nat (length r) + b ^ N.of_nat (length r) <= b * b ^ N.of_nat (length r)) by nia.
    lia.
Qed.

Lemma undec_zeros n : undec (repeat 48 n) = 0.
Proof.
  induction n as [|n IH]; [reflexivity|].
  change (repeat 48 (S n)) with ([48] ++ repeat 48 n). rewrite undec_app, IH. cbn. lia.
Qed.

(* ---- fixed-width printing *)
Lemma fixw_length b w : forall n, length (fixw b w n) = w.
Proof. induction w as [|w IH]; intros n; [reflexivity|]. cbn [fixw]. rewrite app_length, IH. cbn. lia. Qed.

Lemma fixw_lt b w : 0 < b -> forall n, Forall (fun d => d < b) (fixw b w n).
Proof.
  intros Hb. induction w as [|w IH]; intros n; [constructor|].
  cbn [fixw]. apply Forall_app. split; [apply IH|]. constructor; [|constructor].
  apply N.mod_lt. lia.
Qed.

Lemma posval_fixw b w : 0 < b -> forall n, posval b (fixw b w n) = n mod b ^ N.of_nat w.
Proof.
  intros Hb. induction w as [|w IH]; intros n.
  - cbn. rewrite N.mod_1_r. reflexivity.
  - cbn [fixw]. rewrite posval_app, IH. cbn [length posval].
    change (N.of_nat 1) with 1. change (N.of_nat 0) with 0. rewrite N.pow_1_r, N.pow_0_r.
    rewrite pow_succ_nat.
    rewrite N.mod_mul_r by (try apply N.pow_nonzero; lia). lia.
Qed.

Lemma decw_length w n : length (decw w n) = w.
Proof. unfold decw. rewrite map_length. apply fixw_length. Qed.

Lemma decw_digits w n : all_digits (decw w n).
Proof.
  unfold all_digits, decw. apply Forall_map. eapply Forall_impl; [|apply (fixw_lt 10 w); lia].
  intros d Hd. cbn beta in Hd. unfold is_ascii_digit. apply andb_true_iff. split; apply N.leb_le; lia.
Qed.

Lemma undec_decw w n : n < 10 ^ N.of_nat w -> undec (decw w n) = n.
Proof.
  intros H. rewrite undec_posval. unfold digit_vals, decw. rewrite map_map.
  rewrite (map_ext _ (fun d => d)) by (intros d; lia). rewrite map_id.
  rewrite posval_fixw by lia. apply N.mod_small. assumption.
Qed.

Lemma hexval_hexdigit d : d < 16 -> hexval (hexdigit d) = d.
Proof.
  intros H. unfold hexdigit. destruct (d <? 10) eqn:E.
  - apply N.ltb_lt in E. unfold hexval.
    replace ((48 <=? 48 + d) && (48 + d <=? 57)) with true; [lia|].
    symmetry. apply andb_true_iff. split; apply N.leb_le; lia.
  - apply N.ltb_ge in E. unfold hexval.
    replace ((48 <=? 87 + d) && (87 + d <=? 57)) with false.
    + replace ((97 <=? 87 + d) && (87 + d <=? 102)) with true; [lia|].
      symmetry. apply andb_true_iff. split; apply N.leb_le; lia.
    + symmetry. apply andb_false_iff. right. apply N.leb_gt. lia.
Qed.

Lemma hexdigit_lhex d : d < 16 -> is_lhex (hexdigit d) = true.
Proof.
  intros H. unfold hexdigit, is_lhex, is_ascii_digit. destruct (d <? 10) eqn:E.
  - apply N.ltb_lt in E. apply orb_true_iff. left. apply andb_true_iff. split; apply N.leb_le; lia.
  - apply N.ltb_ge in E. apply orb_true_iff. right. apply andb_true_iff. split; apply N.leb_le; lia.
Qed.

Lemma hexw_length w n : length (hexw w n) = w.
Proof. unfold hexw. rewrite map_length. apply fixw_length. Qed.

Lemma hexw_lhex w n : Forall (fun c => is_lhex c = true) (hexw w n).
Proof.
  unfold hexw. apply Forall_map. eapply Forall_impl; [|apply (fixw_lt 16 w); lia].
  intros d Hd. apply hexdigit_lhex. assumption.
Qed.

Lemma unhex_hexw w n : n < 16 ^ N.of_nat w -> unhex_s (hexw w n) = n.
Proof.
  intros H. rewrite unhex_posval. unfold hex_vals, hexw. rewrite map_map.
  rewrite (map_ext_in _ (fun d => d)).
  - rewrite map_id, posval_fixw by lia. apply N.mod_small. assumption.
  - intros d Hd. apply hexval_hexdigit.
    pose proof (fixw_lt 16 w ltac:(lia) n) as F. rewrite Forall_forall in F. apply F. assumption.
Qed.

Lemma hexval_lt c : hexval c < 16.
Proof.
  unfold hexval.
  destruct ((48 <=? c) && (c <=? 57)) eqn:E1.
  - apply andb_true_iff in E1 as [A B]. apply N.leb_le in A, B. lia.
  - destruct ((97 <=? c) && (c <=? 102)) eqn:E2.
    + apply andb_true_iff in E2 as [A B]. apply N.leb_le in A, B. lia.
    + destruct ((65 <=? c) && (c <=? 70)) eqn:E3.
      * apply andb_true_iff in E3 as [A B]. apply N.leb_le in A, B. lia.
      * lia.
Qed.

Lemma unhex_bound s : unhex_s s < 16 ^ N.of_nat (length s).
Proof.
  rewrite unhex_posval. unfold hex_vals. rewrite <- (map_length hexval s).
  apply posval_bound; [lia|]. apply Forall_map. apply Forall_forall. intros c _. apply hexval_lt.
Qed.

(* ================================================================== D. values denoted *)

Lemma take_digits_all s : all_digits s -> take_digits s = s /\ drop_digits s = [].
Proof.
  intros H. induction H as [|c r Hc Hr [IH1 IH2]]; [split; reflexivity|].
  cbn [take_digits drop_digits]. rewrite Hc, IH1, IH2. split; reflexivity.
Qed.

Lemma take_digits_dot a b : all_digits a ->
  take_digits (a ++ 46 :: b) = a /\ drop_digits (a ++ 46 :: b) = 46 :: b.
Proof.
  intros H. induction H as [|c r Hc Hr [IH1 IH2]]; [split; reflexivity|].
  cbn [app take_digits drop_digits]. rewrite Hc, IH1, IH2. split; reflexivity.
Qed.

Lemma split_on_nonnil sep s : split_on sep s <> [].
Proof.
  destruct s as [|c r]; cbn [split_on]; [discriminate|].
  destruct (split_on sep r); [discriminate|]. destruct (c =? sep); discriminate.
Qed.

Lemma split_on_notin sep s : Forall (fun c => (c =? sep) = false) s -> split_on sep s = [s].
Proof.
  intros H. induction H as [|c r Hc Hr IH]; [reflexivity|].
  cbn [split_on]. rewrite IH, Hc. reflexivity.
Qed.

Lemma split_on_app sep a b : Forall (fun c => (c =? sep) = false) a ->
  split_on sep (a ++ sep :: b) = a :: split_on sep b.
Proof.
  intros H. induction H as [|c r Hc Hr IH].
  - cbn [app split_on]. destruct (split_on sep b) as [|w ws] eqn:E.
    + exfalso. exact (split_on_nonnil _ _ E).
    + rewrite N.eqb_refl. reflexivity.
  - cbn [app split_on]. rewrite IH, Hc. reflexivity.
Qed.

Lemma digits_no_dot s : all_digits s -> Forall (fun c => (c =? 46) = false) s.
Proof. intros H. eapply Forall_impl; [|exact H]. intros c. apply digit_not_dot. Qed.

Lemma digits_no_dash s : all_digits s -> Forall (fun c => (c =? 45) = false) s.
Proof. intros H. eapply Forall_impl; [|exact H]. intros c. apply digit_not_dash. Qed.

Lemma sval_eq_refl d : sval_eq d d.
Proof. destruct d; cbn; reflexivity. Qed.

Lemma date_shape_inv s : In_lang TDate s ->
  exists c0 c1 c2 c3 c5 c6 c8 c9,
    s = [c0; c1; c2; c3; 45; c5; c6; 45; c8; c9] /\
    all_digits [c0; c1; c2; c3] /\ all_digits [c5; c6] /\ all_digits [c8; c9].
Proof.
  cbn [In_lang]. cbv [date_shape repeat app]. intros H.
  repeat match goal with
         | H : Forall2 _ (_ :: _) _ |- _ => inversion H; clear H; subst
         | H : Forall2 _ [] _ |- _ => inversion H; clear H; subst
         end.
  repeat match goal with
         | H : cls_ok KDash _ = true |- _ => cbn [cls_ok] in H; apply N.eqb_eq in H; subst
         | H : cls_ok KDigit _ = true |- _ => cbn [cls_ok] in H
         end.
  do 8 eexists. split; [reflexivity|]. unfold all_digits. repeat split; repeat constructor; assumption.
Qed.

Lemma typed_value_proof : forall lim t s, accepts t s = true ->
  match to_python lim t s with
  | Some v => exists d, denote t s = Some d /\ sval_eq (sem v) d
  | None => (t = TInt /\ over_limit lim (length s) = true) \/ (t = TDate /\ denote t s = None)
  end.
Proof.
  intros lim t s Ha. apply accepts_lang in Ha. destruct t.
  - cbn. eexists. split; reflexivity.
  - cbn [to_python denote]. destruct (over_limit lim (length s)) eqn:E.
    + left. split; reflexivity.
    + eexists. split; [reflexivity|]. cbn. rewrite undec_posval. reflexivity.
  - cbn [In_lang] in Ha. cbn [to_python denote]. destruct Ha as [[Hne Hd]|(a & b & -> & [Hane Ha] & [Hbne Hb])].
    + destruct (take_digits_all s Hd) as [-> ->]. cbn [tl length]. rewrite List.app_nil_r.
      rewrite (split_on_notin 46 s (digits_no_dot s Hd)).
      eexists. split; [reflexivity|]. cbn. rewrite undec_posval. reflexivity.
    + destruct (take_digits_dot a b Ha) as [-> ->]. cbn [tl].
      rewrite (split_on_app 46 a b (digits_no_dot a Ha)), (split_on_notin 46 b (digits_no_dot b Hb)).
      eexists. split; [reflexivity|]. cbn. rewrite undec_posval. unfold digit_vals.
      rewrite map_app, posval_app, map_length. reflexivity.
  - cbn [to_python denote]. eexists. split; [reflexivity|]. cbn. rewrite unhex_posval. reflexivity.
  - destruct (date_shape_inv s Ha) as (c0 & c1 & c2 & c3 & c5 & c6 & c8 & c9 & -> & Hy & Hm & Hd).
    cbn [to_python denote firstn skipn].
    change [c0; c1; c2; c3; 45; c5; c6; 45; c8; c9] with ([c0; c1; c2; c3] ++ 45 :: ([c5; c6] ++ 45 :: [c8; c9])).
    rewrite (split_on_app 45 _ _ (digits_no_dash _ Hy)), (split_on_app 45 _ _ (digits_no_dash _ Hm)),
      (split_on_notin 45 _ (digits_no_dash _ Hd)).
    rewrite <- !undec_posval.
    destruct (valid_date (undec [c0; c1; c2; c3]) (undec [c5; c6]) (undec [c8; c9])).
    + eexists. split; [reflexivity|]. cbn. reflexivity.
    + right. split; reflexivity.
  - cbn. eexists. split; reflexivity.
Qed.

Lemma to_python_convertible lim t s : accepts t s = true ->
  ((exists v, to_python lim t s = Some v) <-> convertible lim t s).
Proof.
  intros Ha. pose proof (typed_value_proof lim t s Ha) as H. unfold convertible. split.
  - intros [v Hv]. rewrite Hv in H. destruct H as (d & Hd & _). split; [congruence|].
    intros ->. cbn [to_python] in Hv. destruct (over_limit lim (length s)); [discriminate|reflexivity].
  - intros [H1 H2]. destruct (to_python lim t s) as [v|]; [eexists; reflexivity|].
    destruct H as [[-> Ho]|[-> Hn]]; [rewrite H2 in Ho by reflexivity; discriminate|congruence].
Qed.

(* ================================================================== E. Route.matches, search, Router *)

Lemma split_param_types segs path caps : split_of segs path caps ->
  Forall2 (fun t x => accepts t x = true) (param_types segs) caps.
Proof.
  intros H. induction H; cbn [param_types flat_map app]; try constructor; try assumption.
  apply accepts_lang. assumption.
Qed.

Lemma convert_all_some lim : forall segs caps,
  Forall2 (fun t x => accepts t x = true) (param_types segs) caps ->
  ((exists ps, convert_all lim segs caps = Some ps) <-> Forall2 (convertible lim) (param_types segs) caps).
Proof.
  induction segs as [|g r IH]; intros caps H.
  - cbn in H. inversion H; subst. cbn. split; [constructor|eexists; reflexivity].
  - destruct g as [l|n t].
    + cbn [convert_all]. apply IH. exact H.
    + cbn [param_types flat_map app] in H |- *. inversion H as [|t' x ts caps' Hx Hr]; subst.
      fold (param_types r) in *. cbn [convert_all].
      pose proof (to_python_convertible lim t x Hx) as Hc. specialize (IH caps' Hr). split.
      * intros [ps Hps]. destruct (to_python lim t x) as [v|] eqn:Ev; [|discriminate].
        destruct (convert_all lim r caps') as [ps'|] eqn:Er; [|discriminate].
        constructor; [apply Hc; eexists; reflexivity|apply IH; eexists; reflexivity].
      * intros Hf. inversion Hf as [|? ? ? ? Hcx Hcr]; subst.
        apply Hc in Hcx as [v ->]. apply IH in Hcr as [ps' ->]. eexists. reflexivity.
Qed.

Lemma convert_all_typed lim : forall segs caps ps,
  Forall2 (fun t x => accepts t x = true) (param_types segs) caps ->
  convert_all lim segs caps = Some ps -> typed_params segs caps ps.
Proof.
  induction segs as [|g r IH]; intros caps ps H Hc.
  - cbn in H. inversion H; subst. cbn in Hc. injection Hc as <-. constructor.
  - destruct g as [l|n t].
    + cbn [convert_all] in Hc. constructor. apply IH; assumption.
    + cbn [param_types flat_map app] in H. inversion H as [|t' x ts caps' Hx Hr]; subst.
      fold (param_types r) in *. cbn [convert_all] in Hc.
      pose proof (typed_value_proof lim t x Hx) as Hv.
      destruct (to_python lim t x) as [v|]; [|discriminate].
      destruct (convert_all lim r caps') as [ps'|] eqn:Er; [|discriminate].
      injection Hc as <-. destruct Hv as (d & Hd & He).
      econstructor; [exact Hd|exact He|]. apply IH; assumption.
Qed.

Lemma route_match_accepts_proof : forall lim segs path,
  (exists ps, route_match lim segs path = Some ps) <-> route_accepts lim segs path.
Proof.
  intros lim segs path. unfold route_match, route_accepts. split.
  - intros [ps H]. destruct (match_segs segs path) as [caps|] eqn:E; [|discriminate].
    exists caps. split; [apply match_greedy_proof; assumption|].
    apply convert_all_some; [|eexists; exact H].
    apply (split_param_types segs path). apply match_sound. assumption.
  - intros (caps & Hg & Hc). apply match_greedy_proof in Hg. rewrite Hg.
    apply convert_all_some; [|assumption].
    apply (split_param_types segs path). apply match_sound. assumption.
Qed.

Lemma route_match_typed_proof : forall lim segs path ps,
  route_match lim segs path = Some ps ->
  exists caps, greedy_split segs path caps /\ typed_params segs caps ps.
Proof.
  intros lim segs path ps H. unfold route_match in H.
  destruct (match_segs segs path) as [caps|] eqn:E; [|discriminate].
  exists caps. split; [apply match_greedy_proof; assumption|].
  apply (convert_all_typed lim); [|assumption].
  apply (split_param_types segs path). apply match_sound. assumption.
Qed.

Lemma route_match_none lim segs path : route_match lim segs path = None <-> ~ route_accepts lim segs path.
Proof.
  rewrite <- route_match_accepts_proof. split.
  - intros H [ps Hps]. congruence.
  - intros H. destruct (route_match lim segs path) as [ps|]; [|reflexivity]. exfalso. apply H. eexists. reflexivity.
Qed.

Lemma search_from_spec lim path : forall table i,
  match search_from lim i table path with
  | Some (j, ps) =>
      exists k segs, j = (i + k)%nat /\ nth_error table k = Some segs /\
        route_match lim segs path = Some ps /\
        forall k' segs', (k' < k)%nat -> nth_error table k' = Some segs' -> route_match lim segs' path = None
  | None => forall segs, In segs table -> route_match lim segs path = None
  end.
Proof.
  induction table as [|r rest IH]; intros i.
  - cbn. intros segs [].
  - cbn [search_from]. destruct (route_match lim r path) as [ps|] eqn:E.
    + exists 0%nat, r. repeat split; try assumption; try (intros; lia).
    + specialize (IH (S i)). destruct (search_from lim (S i) rest path) as [[j ps]|].
      * destruct IH as (k & segs & -> & Hn & Hm & Hprev). exists (S k), segs.
        repeat split; try assumption; try lia.
        intros k' segs' Hk Hn'. destruct k' as [|k'].
        -- cbn in Hn'. injection Hn' as <-. assumption.
        -- cbn in Hn'. apply (Hprev k'); [lia|assumption].
      * intros segs [<-|Hin]; [assumption|apply IH; assumption].
Qed.

Lemma first_match_proof : forall lim table path,
  match search lim table path with
  | Some (i, ps) =>
      exists segs, nth_error table i = Some segs /\
        route_accepts lim segs path /\
        (exists caps, greedy_split segs path caps /\ typed_params segs caps ps) /\
        forall j segs', (j < i)%nat -> nth_error table j = Some segs' -> ~ route_accepts lim segs' path
  | None => forall segs, In segs table -> ~ route_accepts lim segs path
  end.
Proof.
  intros lim table path. unfold search. pose proof (search_from_spec lim path table 0%nat) as H.
  destruct (search_from lim 0 table path) as [[i ps]|].
  - destruct H as (k & segs & -> & Hn & Hm & Hprev). cbn [Nat.add]. exists segs. repeat split.
    + assumption.
    + apply route_match_accepts_proof. eexists. exact Hm.
    + apply (route_match_typed_proof lim). assumption.
    + intros j segs' Hj Hn'. apply route_match_none. apply (Hprev j); assumption.
  - intros segs Hin. apply route_match_none. apply H. assumption.
Qed.

(* search answers Some exactly when some route accepts, and then with the least such index *)
Lemma first_match_least_proof : forall lim table path i,
  (exists ps, search lim table path = Some (i, ps)) <->
  (exists segs, nth_error table i = Some segs /\ route_accepts lim segs path) /\
  (forall j segs', (j < i)%nat -> nth_error table j = Some segs' -> ~ route_accepts lim segs' path).
Proof.
  intros lim table path i. pose proof (first_match_proof lim table path) as H. split.
  - intros [ps E]. rewrite E in H. destruct H as (segs & Hn & Ha & _ & Hp). split; [exists segs; split; assumption|assumption].
  - intros [(segs & Hn & Ha) Hp]. destruct (search lim table path) as [[i' ps]|].
    + destruct H as (segs0 & Hn0 & Ha0 & _ & Hp0).
      destruct (Nat.lt_trichotomy i i') as [Hlt|[->|Hgt]].
      * exfalso. apply (Hp0 i segs Hlt Hn). assumption.
      * eexists. reflexivity.
      * exfalso. apply (Hp i' segs0 Hgt Hn0). assumption.
    + exfalso. apply (H segs); [|assumption]. eapply nth_error_In. exact Hn.
Qed.

Lemma router_dispatch_proof : forall lim table path,
  wsgi_router lim table (Some path) = asgi_router lim table path /\
  wsgi_router lim table None = asgi_router lim table [] /\
  (asgi_router lim table path = NotFound <-> forall segs, In segs table -> ~ route_accepts lim segs path) /\
  (forall i ps, asgi_router lim table path = Ran i ps <-> search lim table path = Some (i, ps)).
Proof.
  intros lim table path. unfold wsgi_router, asgi_router. repeat split.
  - intros H. pose proof (first_match_proof lim table path) as F.
    destruct (search lim table path) as [[i ps]|]; [discriminate|assumption].
  - intros H. pose proof (first_match_proof lim table path) as F.
    destruct (search lim table path) as [[i ps]|]; [|reflexivity].
    destruct F as (segs & Hn & Ha & _). exfalso. apply (H segs); [eapply nth_error_In; exact Hn|assumption].
  - destruct (search lim table path) as [[i' ps']|]; [|discriminate]. intros [= -> ->]. reflexivity.
  - intros ->. reflexivity.
Qed.

(* ================================================================== F. round trips *)

(* ---- str(int) / int(str) *)
Lemma uint_digits_ok : forall u, all_digits (uint_digits u).
Proof. unfold all_digits. induction u; cbn [uint_digits]; constructor; try assumption; reflexivity. Qed.

Lemma dec_digits n : all_digits (dec n).
Proof. apply uint_digits_ok. Qed.

Definition undec_step (acc c : N) : N := acc * 10 + (c - 48).

Lemma undec_acc : forall u acc,
  fold_left undec_step (uint_digits u) (N.pos acc) = N.pos (Pos.of_uint_acc u acc).
Proof.
  induction u; intros acc; cbn [uint_digits fold_left Pos.of_uint_acc]; try reflexivity;
    rewrite <- IHu; f_equal; unfold undec_step; lia.
Qed.

Lemma undec_uint : forall u, undec (uint_digits u) = N.of_uint u.
Proof.
  unfold undec. change (fun acc c : N => acc * 10 + (c - 48)) with undec_step.
  unfold N.of_uint.
  induction u; cbn [uint_digits fold_left Pos.of_uint]; try reflexivity;
    try (rewrite <- undec_acc; f_equal; unfold undec_step; lia).
  rewrite <- IHu. f_equal.
Qed.

Lemma undec_dec n : undec (dec n) = n.
Proof. unfold dec. rewrite undec_uint. apply DecimalN.Unsigned.of_to. Qed.

Lemma dec_nonempty n : dec n <> [].
Proof.
  intros H. pose proof (undec_dec n) as E. rewrite H in E. cbn in E. subst n. cbn in H. discriminate.
Qed.

Definition digit_ctor (c : N) : Decimal.uint -> Decimal.uint :=
  match c - 48 with
  | 0 => Decimal.D0 | 1 => Decimal.D1 | 2 => Decimal.D2 | 3 => Decimal.D3 | 4 => Decimal.D4
  | 5 => Decimal.D5 | 6 => Decimal.D6 | 7 => Decimal.D7 | 8 => Decimal.D8 | _ => Decimal.D9
  end.

Fixpoint uint_of (s : list N) : Decimal.uint :=
  match s with
  | [] => Decimal.Nil
  | c :: r => digit_ctor c (uint_of r)
  end.

Lemma digit_cases c : is_ascii_digit c = true ->
  c = 48 \/ c = 49 \/ c = 50 \/ c = 51 \/ c = 52 \/ c = 53 \/ c = 54 \/ c = 55 \/ c = 56 \/ c = 57.
Proof.
  unfold is_ascii_digit. intros H. apply andb_true_iff in H as [A B]. apply N.leb_le in A, B. lia.
Qed.

Lemma uint_digits_of s : all_digits s -> uint_digits (uint_of s) = s.
Proof.
  intros H. induction H as [|c r Hc Hr IH]; [reflexivity|].
  cbn [uint_of].
  destruct (digit_cases c Hc) as [->|[->|[->|[->|[->|[->|[->|[->|[->| ->]]]]]]]]];
    cbn; rewrite IH; reflexivity.
Qed.

Lemma uint_digits_length u : length (uint_digits u) = Decimal.nb_digits u.
Proof. induction u; cbn [uint_digits length Decimal.nb_digits]; try rewrite IHu; reflexivity. Qed.

Lemma dec_undec_length s : s <> [] -> all_digits s -> (length (dec (undec s)) <= length s)%nat.
Proof.
  intros Hne Hd. pose proof (uint_digits_of s Hd) as E. remember (uint_of s) as u eqn:Eu. clear Eu.
  assert (Hu : u <> Decimal.Nil) by (intros ->; apply Hne; rewrite <- E; reflexivity).
  rewrite <- E. rewrite undec_uint. unfold dec.
  rewrite DecimalN.Unsigned.to_of, !uint_digits_length.
  apply DecimalFacts.nb_digits_unorm. assumption.
Qed.

Lemma over_limit_mono lim a b : (a <= b)%nat -> over_limit lim b = false -> over_limit lim a = false.
Proof.
  unfold over_limit. intros Hab H. destruct (lim =? 0); [reflexivity|]. cbn [negb andb] in *.
  apply N.ltb_ge in H. apply N.ltb_ge. lia.
Qed.

(* ---- decimal *)
Lemma repeat_snoc {A} (x : A) n : repeat x n ++ [x] = x :: repeat x n.
Proof. induction n as [|n IH]; [reflexivity|]. cbn [repeat app]. rewrite IH. reflexivity. Qed.

Lemma rev_repeat' {A} (x : A) n : rev (repeat x n) = repeat x n.
Proof. induction n as [|n IH]; [reflexivity|]. cbn [repeat rev]. rewrite IH. apply repeat_snoc. Qed.

Lemma strip_zeros_rev_spec r : exists z, r = repeat 48 z ++ strip_zeros_rev r.
Proof.
  induction r as [|c r [z IH]]; [exists 0%nat; reflexivity|].
  cbn [strip_zeros_rev]. destruct (c =? 48) eqn:E.
  - apply N.eqb_eq in E. subst c. exists (S z). cbn [repeat app]. rewrite <- IH. reflexivity.
  - exists 0%nat. reflexivity.
Qed.

Lemma rstrip0_spec s : exists z, s = rstrip0 s ++ repeat 48 z.
Proof.
  unfold rstrip0. destruct (strip_zeros_rev_spec (rev s)) as [z Hz]. exists z.
  rewrite <- (rev_involutive s) at 1. rewrite Hz at 1. rewrite rev_app_distr, rev_repeat'. reflexivity.
Qed.

Lemma zeros_digits n : all_digits (repeat 48 n).
Proof. unfold all_digits. induction n; cbn [repeat]; constructor; [reflexivity|assumption]. Qed.

Lemma dec_fmt_roundtrip lim c k :
  accepts TDec (dec_fmt c k) = true /\
  exists c' k', to_python lim TDec (dec_fmt c k) = Some (VDec c' k') /\
                c * 10 ^ N.of_nat k' = c' * 10 ^ N.of_nat k.
Proof.
  unfold dec_fmt.
  set (ds := dec c). set (ds' := repeat 48 (S k - length ds) ++ ds).
  assert (Hd' : all_digits ds') by (apply Forall_app; split; [apply zeros_digits|apply dec_digits]).
  assert (Hu : undec ds' = c).
  { unfold ds'. rewrite undec_app, undec_zeros. unfold ds. rewrite undec_dec. lia. }
  assert (Hlen : (S k <= length ds')%nat) by (unfold ds'; rewrite app_length, repeat_length; lia).
  set (j := (length ds' - k)%nat).
  assert (Hsplit : ds' = firstn j ds' ++ skipn j ds') by (symmetry; apply firstn_skipn).
  set (ip := firstn j ds') in *. set (fp0 := skipn j ds') in *.
  assert (Hipl : length ip = j) by (unfold ip; apply firstn_length_le; unfold j; lia).
  assert (Hfpl : length fp0 = k) by (unfold fp0; rewrite skipn_length; unfold j; lia).
  destruct (rstrip0_spec fp0) as [z Hz]. set (fp := rstrip0 fp0) in *.
  assert (Hk : k = (length fp + z)%nat) by (rewrite <- Hfpl, Hz, app_length, repeat_length; reflexivity).
  assert (Hall : all_digits ip /\ all_digits fp).
  { rewrite Hsplit, Hz in Hd'. apply Forall_app in Hd' as [A B]. apply Forall_app in B as [B _]. split; assumption. }
  destruct Hall as [Hip Hfp].
  assert (Hipne : ip <> []).
  { intros E. apply (f_equal (@length N)) in E. rewrite Hipl in E. cbn [length] in E. unfold j in E. lia. }
  assert (Hc : c = undec (ip ++ fp) * 10 ^ N.of_nat z).
  { rewrite <- Hu, Hsplit, Hz, app_assoc, undec_app, undec_zeros, repeat_length. lia. }
  destruct fp as [|f fp'] eqn:Efp.
  - split.
    + apply accepts_lang. left. split; assumption.
    + cbn [to_python]. destruct (take_digits_all ip Hip) as [-> ->]. cbn [tl length].
      rewrite List.app_nil_r. exists (undec ip), 0%nat. split; [reflexivity|].
      rewrite List.app_nil_r in Hc. cbn [length] in Hk. rewrite Hk, Hc. cbn [Nat.add].
      change (N.of_nat 0) with 0. rewrite N.pow_0_r. lia.
  - split.
    + apply accepts_lang. right. exists ip, (f :: fp'). split; [reflexivity|].
      split; split; try assumption; discriminate.
    + cbn [to_python]. destruct (take_digits_dot ip (f :: fp') Hip) as [-> ->]. cbn [tl].
      exists (undec (ip ++ f :: fp')), (length (f :: fp')). split; [reflexivity|].
      rewrite Hc at 1. rewrite Hk at 1. rewrite Nat2N.inj_add, N.pow_add_r. lia.
Qed.

(* ---- shapes assembled from pieces *)
Lemma shape_piece k m x : length x = m -> Forall (fun c => cls_ok k c = true) x ->
  Forall2 (fun k c => cls_ok k c = true) (repeat k m) x.
Proof.
  intros <- H. induction H; cbn [length repeat]; constructor; assumption.
Qed.

Lemma shape_piece_inv k m x : Forall2 (fun k c => cls_ok k c = true) (repeat k m) x ->
  length x = m /\ Forall (fun c => cls_ok k c = true) x.
Proof.
  revert x. induction m as [|m IH]; intros x H; cbn [repeat] in H; inversion H; subst.
  - split; [reflexivity|constructor].
  - destruct (IH _ H4) as [A B]. split; [cbn; congruence|constructor; assumption].
Qed.

Lemma dash_piece : Forall2 (fun k c => cls_ok k c = true) [KDash] [45].
Proof. constructor; [reflexivity|constructor]. Qed.

Lemma dash_piece_inv x : Forall2 (fun k c => cls_ok k c = true) [KDash] x -> x = [45].
Proof.
  intros H. inversion H as [|? c ? r Hc Hr]; subst. inversion Hr; subst.
  cbn in Hc. apply N.eqb_eq in Hc. subst. reflexivity.
Qed.

Lemma filter_nodash_hex x : Forall (fun c => cls_ok KHex c = true) x ->
  filter (fun c => negb (is_dash c)) x = x.
Proof.
  intros H. induction H as [|c r Hc Hr IH]; [reflexivity|].
  cbn [filter]. rewrite IH.
  assert (E : is_dash c = false).
  { unfold is_dash. cbn [cls_ok] in Hc. unfold is_lhex, is_ascii_digit in Hc. apply N.eqb_neq.
    apply orb_true_iff in Hc as [Hc|Hc]; apply andb_true_iff in Hc as [A B]; apply N.leb_le in A, B; lia. }
  rewrite E. reflexivity.
Qed.

Lemma Forall_firstn' {A} (P : A -> Prop) n l : Forall P l -> Forall P (firstn n l).
Proof. intros H. rewrite <- (firstn_skipn n l) in H. apply Forall_app in H. tauto. Qed.

Lemma Forall_skipn' {A} (P : A -> Prop) n l : Forall P l -> Forall P (skipn n l).
Proof. intros H. rewrite <- (firstn_skipn n l) in H. apply Forall_app in H. tauto. Qed.

Lemma skipn_add {A} (a b : nat) (l : list A) : skipn (a + b) l = skipn a (skipn b l).
Proof.
  revert l. induction b as [|b IH]; intros l.
  - rewrite Nat.add_0_r. reflexivity.
  - rewrite Nat.add_succ_r. destruct l as [|x l]; [rewrite !skipn_nil; reflexivity|].
    cbn [skipn]. apply IH.
Qed.

Lemma chunks {A} (l : list A) :
  firstn 8 l ++ firstn 4 (skipn 8 l) ++ firstn 4 (skipn 12 l) ++ firstn 4 (skipn 16 l) ++ skipn 20 l = l.
Proof.
  change 20%nat with (4 + 16)%nat. rewrite (skipn_add 4 16), firstn_skipn.
  change 16%nat with (4 + 12)%nat. rewrite (skipn_add 4 12), firstn_skipn.
  change 12%nat with (4 + 8)%nat. rewrite (skipn_add 4 8), firstn_skipn.
  apply firstn_skipn.
Qed.

Lemma uuid_shape_inv s : In_lang TUuid s ->
  exists h, length h = 32%nat /\ filter (fun c => negb (is_dash c)) s = h.
Proof.
  cbn [In_lang]. unfold uuid_shape. intros H.
  apply Forall2_app_inv_l in H as (a & r1 & Ha & H & ->).
  apply Forall2_app_inv_l in H as (d1 & r2 & Hd1 & H & ->).
  apply Forall2_app_inv_l in H as (b & r3 & Hb & H & ->).
  apply Forall2_app_inv_l in H as (d2 & r4 & Hd2 & H & ->).
  apply Forall2_app_inv_l in H as (c & r5 & Hc & H & ->).
  apply Forall2_app_inv_l in H as (d3 & r6 & Hd3 & H & ->).
  apply Forall2_app_inv_l in H as (d & r7 & Hd & H & ->).
  apply Forall2_app_inv_l in H as (d4 & e & Hd4 & He & ->).
  apply dash_piece_inv in Hd1, Hd2, Hd3, Hd4. subst d1 d2 d3 d4.
  apply shape_piece_inv in Ha as [La Fa], Hb as [Lb Fb], Hc as [Lc Fc], Hd as [Ld Fd], He as [Le Fe].
  exists (a ++ b ++ c ++ d ++ e). split.
  - rewrite !app_length. lia.
  - rewrite !filter_app. cbn [filter is_dash]. change (45 =? 45) with true. cbn [negb app].
    rewrite !filter_nodash_hex by assumption. reflexivity.
Qed.

Lemma filter_dash x :
  filter (fun c => negb (is_dash c)) (45 :: x) = filter (fun c => negb (is_dash c)) x.
Proof. reflexivity. Qed.

Lemma uuid_fmt_roundtrip lim n : n < 16 ^ 32 ->
  accepts TUuid (uuid_fmt n) = true /\ to_python lim TUuid (uuid_fmt n) = Some (VUuid n).
Proof.
  intros Hn. unfold uuid_fmt. set (h := hexw 32 n).
  assert (Hl : length h = 32%nat) by apply hexw_length.
  assert (Hh : Forall (fun c => cls_ok KHex c = true) h) by apply hexw_lhex.
  split.
  - apply accepts_lang. cbn [In_lang]. unfold uuid_shape.
    repeat first
      [ apply Forall2_app;
        [ apply shape_piece;
          [ rewrite ?firstn_length, ?skipn_length; lia
          | first [apply Forall_firstn'; try apply Forall_skipn'; assumption | apply Forall_skipn'; assumption] ] | ]
      | (cbn [app]; constructor; [reflexivity|]) ].
    apply shape_piece; [rewrite skipn_length; lia|apply Forall_skipn'; assumption].
  - cbn [to_python]. f_equal. f_equal.
    repeat (rewrite filter_app || rewrite filter_dash).
    rewrite !filter_nodash_hex by
      (first [apply Forall_firstn'; try apply Forall_skipn'; assumption | apply Forall_skipn'; assumption]).
    rewrite chunks. apply unhex_hexw. exact Hn.
Qed.

Lemma skipn_succ_app {A} (a : list A) x r n : length a = n -> skipn (S n) (a ++ x :: r) = r.
Proof.
  intros H. change (a ++ x :: r) with (a ++ [x] ++ r). rewrite app_assoc.
  apply skipn_app_exact. rewrite app_length. cbn. lia.
Qed.

Lemma days_in_month_le y m : days_in_month y m <= 31.
Proof.
  unfold days_in_month. destruct (m =? 2); [destruct (is_leap y); lia|].
  destruct ((m =? 4) || (m =? 6) || (m =? 9) || (m =? 11)); lia.
Qed.

Lemma date_fmt_roundtrip lim y m d : valid_date y m d = true ->
  accepts TDate (date_fmt y m d) = true /\ to_python lim TDate (date_fmt y m d) = Some (VDate y m d).
Proof.
  intros Hv. pose proof Hv as Hv'. unfold valid_date in Hv'.
  repeat (apply andb_true_iff in Hv' as [Hv' ?]).
  repeat match goal with H : (_ <=? _) = true |- _ => apply N.leb_le in H end.
  pose proof (days_in_month_le y m) as Hdm.
  assert (E4 : 10 ^ N.of_nat 4 = 10000) by reflexivity.
  assert (E2 : 10 ^ N.of_nat 2 = 100) by reflexivity.
  unfold date_fmt. split.
  - apply accepts_lang. cbn [In_lang]. unfold date_shape.
    apply Forall2_app; [apply shape_piece; [apply decw_length|apply decw_digits]|].
    cbn [app]. constructor; [reflexivity|].
    apply Forall2_app; [apply shape_piece; [apply decw_length|apply decw_digits]|].
    cbn [app]. constructor; [reflexivity|].
    apply shape_piece; [apply decw_length|apply decw_digits].
  - cbn [to_python].
    rewrite (firstn_app_exact (decw 4 y)) by apply decw_length.
    rewrite (skipn_succ_app (decw 4 y) 45 _ 4) by apply decw_length.
    rewrite (firstn_app_exact (decw 2 m)) by apply decw_length.
    change 8%nat with (3 + 5)%nat. rewrite (skipn_add 3 5).
    rewrite (skipn_succ_app (decw 4 y) 45 _ 4) by apply decw_length.
    rewrite (skipn_succ_app (decw 2 m) 45 _ 2) by apply decw_length.
    rewrite (firstn_all2 (n := 2) (decw 2 d)) by (rewrite decw_length; lia).
    rewrite !undec_decw by lia. rewrite Hv. reflexivity.
Qed.

Lemma mem_slash s : Forall (fun c => c <> 47) s -> mem_N 47 s = false.
Proof.
  intros H. induction H as [|c r Hc Hr IH]; [reflexivity|].
  unfold mem_N in *. cbn [existsb]. rewrite IH. apply orb_false_iff. split; [|reflexivity].
  apply N.eqb_neq. congruence.
Qed.

Lemma value_eq_refl v : value_eq v v.
Proof. unfold value_eq. apply sval_eq_refl. Qed.

Lemma roundtrip_proof : forall lim t s v, accepts t s = true -> to_python lim t s = Some v ->
  exists s', to_string lim t v = Some s' /\ accepts t s' = true /\
    exists v', to_python lim t s' = Some v' /\ value_eq v v'.
Proof.
  intros lim t s v Ha Hp. pose proof Ha as Hl. apply accepts_lang in Hl. destruct t.
  - cbn in Hp. injection Hp as <-. destruct Hl as [Hne Hf]. exists s. cbn [to_string].
    destruct s as [|c r]; [congruence|]. rewrite (mem_slash _ Hf).
    repeat split; try assumption. exists (VStr (c :: r)). split; [reflexivity|apply value_eq_refl].
  - cbn [to_python] in Hp. destruct (over_limit lim (length s)) eqn:Eo; [discriminate|]. injection Hp as <-.
    destruct Hl as [Hne Hd]. cbn [to_string].
    assert (Eo' : over_limit lim (length (dec (undec s))) = false)
      by (eapply over_limit_mono; [apply dec_undec_length; assumption|exact Eo]).
    rewrite Eo'. exists (dec (undec s)). split; [reflexivity|]. split.
    + apply accepts_lang. split; [apply dec_nonempty|apply dec_digits].
    + cbn [to_python]. rewrite Eo'. eexists. split; [reflexivity|]. rewrite undec_dec. apply value_eq_refl.
  - cbn [to_python] in Hp. injection Hp as <-. cbn [to_string].
    set (c := undec (take_digits s ++ tl (drop_digits s))). set (k := length (tl (drop_digits s))).
    destruct (dec_fmt_roundtrip lim c k) as (Hacc & c' & k' & Hp' & He).
    exists (dec_fmt c k). split; [reflexivity|]. split; [assumption|].
    exists (VDec c' k'). split; [assumption|]. unfold value_eq. cbn. exact He.
  - cbn [to_python] in Hp. injection Hp as <-. cbn [to_string].
    destruct (uuid_shape_inv s Hl) as (h & Hh & ->).
    assert (Hn : unhex_s h < 16 ^ 32).
    { pose proof (unhex_bound h) as B. rewrite Hh in B. exact B. }
    destruct (uuid_fmt_roundtrip lim _ Hn) as [A B].
    eexists. split; [reflexivity|]. split; [exact A|]. eexists. split; [exact B|apply value_eq_refl].
  - cbn [to_python] in Hp.
    destruct (valid_date _ _ _) eqn:Ev in Hp; [|discriminate]. injection Hp as <-. cbn [to_string].
    destruct (date_fmt_roundtrip lim _ _ _ Ev) as [A B].
    eexists. split; [reflexivity|]. split; [exact A|]. eexists. split; [exact B|apply value_eq_refl].
  - cbn in Hp. injection Hp as <-. exists s. cbn [to_string]. repeat split; try assumption.
    exists (VStr s). split; [reflexivity|apply value_eq_refl].
Qed.

(* ================================================================== G. compiling route texts *)

Definition lit_segs (text : list N) : list seg :=
  match text with [] => [] | _ :: _ => [Lit text] end.

Lemma try_param_nobrace ucls c r : c <> 123 -> try_param ucls (c :: r) = None.
Proof.
  intros H. unfold try_param. destruct r as [|c' r']; [reflexivity|].
  apply N.eqb_neq in H. rewrite H. reflexivity.
Qed.

Lemma try_field_nobrace ucls c r : c <> 123 -> try_field ucls (c :: r) = None.
Proof. intros H. unfold try_field. apply N.eqb_neq in H. rewrite H. reflexivity. Qed.

Lemma scan1_nobrace ucls s : ~ In 123 s -> scan1 ucls s 0 = Some (s, []).
Proof.
  induction s as [|c r IH]; intros H; [reflexivity|].
  cbn [scan1]. rewrite try_param_nobrace by (intros ->; apply H; left; reflexivity).
  rewrite IH by (intros Hin; apply H; right; assumption). reflexivity.
Qed.

Lemma scan2_nobrace ucls d s : ~ In 123 s -> scan2 ucls d s 0 = Some (lit_segs s).
Proof.
  induction s as [|c r IH]; intros H; [reflexivity|].
  cbn [scan2]. rewrite try_field_nobrace by (intros ->; apply H; left; reflexivity).
  rewrite IH by (intros Hin; apply H; right; assumption).
  destruct r; reflexivity.
Qed.

Lemma compile_literal_proof : forall ucls text, ~ In 123 text ->
  compile_route ucls text = inl (lit_segs text) /\
  forall lim path, route_match lim (lit_segs text) path = (if bytes_eqb path text then Some [] else None).
Proof.
  intros ucls text H. split.
  - unfold compile_route. rewrite (scan1_nobrace ucls text H), (scan2_nobrace ucls [] text H).
    destruct text; reflexivity.
  - intros lim path. unfold route_match.
    assert (E : match_segs (lit_segs text) path = if bytes_eqb path text then Some [] else None).
    { destruct (bytes_eqb path text) eqn:Eb.
      - apply bytes_eqb_eq in Eb. subst path. destruct text as [|c r]; [reflexivity|].
        cbn [lit_segs match_segs].
        assert (Es : strip_prefix (c :: r) (c :: r) = Some []) by (apply strip_prefix_some; rewrite List.app_nil_r; reflexivity).
        rewrite Es. reflexivity.
      - destruct text as [|c r].
        + cbn [lit_segs match_segs]. destruct path; [discriminate|reflexivity].
        + cbn [lit_segs match_segs]. destruct (strip_prefix (c :: r) path) as [s'|] eqn:Es; [|reflexivity].
          apply strip_prefix_some in Es. destruct s' as [|x s']; [|reflexivity].
          rewrite List.app_nil_r in Es. subst path.
          assert (bytes_eqb (c :: r) (c :: r) = true) by (apply bytes_eqb_eq; reflexivity). congruence. }
    rewrite E. destruct (bytes_eqb path text); [|reflexivity]. destruct text; reflexivity.
Qed.

Lemma distinct_NoDup l : distinct l = true -> NoDup l.
Proof.
  induction l as [|x r IH]; intros H; [constructor|].
  cbn [distinct] in H. apply andb_true_iff in H as [H1 H2]. constructor; [|apply IH; assumption].
  intros Hin. apply negb_true_iff in H1.
  assert (existsb (bytes_eqb x) r = true).
  { apply existsb_exists. exists x. split; [assumption|]. apply bytes_eqb_eq. reflexivity. }
  congruence.
Qed.

Lemma compile_names_distinct_proof : forall ucls text segs,
  compile_route ucls text = inl segs -> NoDup (param_names segs).
Proof.
  intros ucls text segs H. unfold compile_route in H.
  destruct (scan1 ucls text 0) as [[fmt d]|]; [|discriminate].
  destruct (scan2 ucls d fmt 0) as [sg|]; [|discriminate].
  destruct (forallb (valid_ident ucls) (param_names sg) && distinct (param_names sg)) eqn:E; [|discriminate].
  injection H as <-. apply andb_true_iff in E as [_ E]. apply distinct_NoDup. assumption.
Qed.

(* the documented form: literal text, one placeholder {name:type}, literal text *)
Lemma non_vacuity_route :
  compile_route (fun _ => 0) (lit "/u/{id:int}/x") = inl [Lit (lit "/u/"); Param (lit "id") TInt; Lit (lit "/x")]
  /\ search 4300 [[Lit (lit "/u/"); Param (lit "id") TDate]; [Lit (lit "/u/"); Param (lit "id") TInt; Lit (lit "/x")];
                  [Lit (lit "/u/"); Param (lit "p") TAny]] (lit "/u/0042/x")
     = Some (1%nat, [(lit "id", VInt 42)])
  /\ search 4300 [[Lit (lit "/d/"); Param (lit "d") TDate]] (lit "/d/2021-13-45") = None
  /\ to_string 4300 TDec (VDec 100 0) = Some (lit "100")
  /\ to_string 4300 TDec (VDec 1 7) = Some (lit "0.0000001").
Proof. vm_compute. repeat split. Qed.
