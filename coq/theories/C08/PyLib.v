(* C08 — the library the translated BaseRouter.search / Route.matches (C08/Generated_ref.v, tools/py2coq_c08.py)
   are made of: evaluation order with exceptions, try/except on one exception class, a dict comprehension.

   A dict with str keys is an insertion-ordered association list (Lib/PyStr.v: dict_set).  An exception is the
   name of its class (Lib/PyStr.v: outcome); `except ValueError` is the comparison of that name with "ValueError"
   (an oracle that raises a proper subclass of ValueError has to report it as ValueError).

   Every function here is compared with the running interpreter by evaluation inside coqc on every check run
   (tools/py2coq_c08.py: pylib_check). *)
From Coq Require Import List NArith ZArith Bool.
From Baize Require Import Lib.PyStr.
Import ListNotations.
Local Open Scope N_scope.

Definition ValueError : str := [86; 97; 108; 117; 101; 69; 114; 114; 111; 114].
Definition KeyError : str := [75; 101; 121; 69; 114; 114; 111; 114].

(* evaluation order: x = <may raise>; rest *)
Definition bind {A B : Type} (o : outcome A) (f : A -> outcome B) : outcome B :=
  match o with
  | Ret a => f a
  | Raise e => Raise e
  end.

(* try: body  except <exc>: handler      (both return on every path) *)
Definition try_except {A : Type} (body : outcome A) (exc : str) (handler : outcome A) : outcome A :=
  match body with
  | Ret a => Ret a
  | Raise e => if str_eqb e exc then handler else Raise e
  end.

(* {k: v for x in l}: the items are evaluated in order and assigned one after the other (a key seen before keeps
   its position and takes the new value); the first exception ends the comprehension *)
Fixpoint dictcomp_from {A V : Type} (f : A -> outcome (str * V)) (l : list A) (d : list (str * V))
  : outcome (list (str * V)) :=
  match l with
  | [] => Ret d
  | x :: r =>
      match f x with
      | Ret (k, v) => dictcomp_from f r (dict_set k v d)
      | Raise e => Raise e
      end
  end.

Definition dictcomp {A V : Type} (f : A -> outcome (str * V)) (l : list A) : outcome (list (str * V)) :=
  dictcomp_from f l [].

(* ---- Router.__call__: the environ / scope ----

   The part of the Python dict whose values are str is an insertion-ordered association list with str keys
   (Lib/PyStr.v: dict_set).  The items whose value is the parameter dict of the route found (environ["PATH_PARAMS"],
   scope["path_params"]) are kept in an association list of their own, which overlays the first one. *)
Definition dict := list (str * str).

(* the first entry under the key (dict_set never makes a second one) *)
Fixpoint dict_lookup (d : dict) (k : str) : option str :=
  match d with
  | [] => None
  | (k', v) :: r => if str_eqb k' k then Some v else dict_lookup r k
  end.

(* d.get(k, default) *)
Definition dict_get (d : dict) (k default : str) : str :=
  match dict_lookup d k with
  | Some v => v
  | None => default
  end.

(* d[k] *)
Definition dict_getitem (d : dict) (k : str) : outcome str :=
  match dict_lookup d k with
  | Some v => Ret v
  | None => Raise KeyError
  end.

(* what ends up in the variable `response` *)
Inductive response (App : Type) :=
| Endpoint (a : App)                                  (* route.endpoint of the route found *)
| Response (status : Z).                              (* Response(status) *)
Arguments Endpoint {App} a.
Arguments Response {App} status.

(* ---- compile_path: what re.finditer yields, slices, lstrip ----

   A match object of a pattern with two groups: start(), end(), and the two groups (None: did not take part). *)
Definition rematch := (nat * nat * (option str * option str))%type.
Definition m_start (m : rematch) : nat := fst (fst m).
Definition m_end (m : rematch) : nat := snd (fst m).

(* a, b = m.groups(default) *)
Definition groups2 (default : str) (m : rematch) : str * str :=
  (match fst (snd m) with Some s => s | None => default end,
   match snd (snd m) with Some s => s | None => default end).

(* s.lstrip(chars) *)
Fixpoint lstrip_chars (chars s : str) : str :=
  match s with
  | [] => []
  | c :: r => if existsb (N.eqb c) chars then lstrip_chars chars r else s
  end.

(* s[a:b], s[a:] for a, b >= 0 *)
Definition slice (a b : nat) (s : str) : str := firstn (b - a) (skipn a s).
Definition slice_from (a : nat) (s : str) : str := skipn a s.

(* k in d, d[k] for a dict given by its lookup function *)
Definition has {A : Type} (o : option A) : bool := match o with Some _ => true | None => false end.
Definition field_getitem {A : Type} (o : option A) : outcome A :=
  match o with
  | Some v => Ret v
  | None => Raise KeyError
  end.
