(* C08 — the router: executable model of baize/routing.py (convertors, compile_path,
   Route, BaseRouter.search) and of the WSGI / ASGI Router.__call__ 404 fallback.

   Text is [list N] (code points).  No proofs here. *)
From Coq Require Import List NArith ZArith Bool Arith.
From Baize Require Import Lib.Wire Lib.Order.
Import ListNotations.
Local Open Scope N_scope.

(* ------------------------------------------------------------------ convertor types *)

Inductive ty : Type := TStr | TInt | TDec | TUuid | TDate | TAny.

Definition ty_eqb (a b : ty) : bool :=
  match a, b with
  | TStr, TStr | TInt, TInt | TDec, TDec | TUuid, TUuid | TDate, TDate | TAny, TAny => true
  | _, _ => false
  end.

Definition is_lhex (c : N) : bool := is_ascii_digit c || ((97 <=? c) && (c <=? 102)).

(* character classes of the fixed-shape patterns *)
Inductive cls : Type := KDigit | KHex | KDash.

Definition cls_ok (k : cls) (c : N) : bool :=
  match k with
  | KDigit => is_ascii_digit c
  | KHex => is_lhex c
  | KDash => c =? 45
  end.

(* [0-9a-f]{8}-[0-9a-f]{4}-[0-9a-f]{4}-[0-9a-f]{4}-[0-9a-f]{12} *)
Definition uuid_shape : list cls :=
  repeat KHex 8 ++ [KDash] ++ repeat KHex 4 ++ [KDash] ++ repeat KHex 4 ++ [KDash]
  ++ repeat KHex 4 ++ [KDash] ++ repeat KHex 12.

(* [0-9]{4}-[0-9]{2}-[0-9]{2} *)
Definition date_shape : list cls :=
  repeat KDigit 4 ++ [KDash] ++ repeat KDigit 2 ++ [KDash] ++ repeat KDigit 2.

Definition shape_step (sh : list cls) (q : nat) (c : N) : option nat :=
  match nth_error sh q with
  | Some k => if cls_ok k c then Some (S q) else None
  | None => None
  end.

(* Each convertor's regular expression as a deterministic automaton over states [nat]:
     str      [^/]+                 0 start, 1 after >=1 characters
     int      [0-9]+                0 start, 1 after >=1 digits
     decimal  [0-9]+(\.[0-9]+)?     0 start, 1 integer digits, 2 after '.', 3 fraction digits
     uuid / date                    position in the shape
     any      (?s:.* )              0 *)
Definition step (t : ty) (q : nat) (c : N) : option nat :=
  match t with
  | TStr => if c =? 47 then None else Some 1%nat
  | TInt => if is_ascii_digit c then Some 1%nat else None
  | TDec =>
      match q with
      | 0%nat => if is_ascii_digit c then Some 1%nat else None
      | 1%nat => if is_ascii_digit c then Some 1%nat else if c =? 46 then Some 2%nat else None
      | 2%nat => if is_ascii_digit c then Some 3%nat else None
      | _ => if is_ascii_digit c then Some 3%nat else None
      end
  | TUuid => shape_step uuid_shape q c
  | TDate => shape_step date_shape q c
  | TAny => Some 0%nat
  end.

Definition acc (t : ty) (q : nat) : bool :=
  match t with
  | TStr | TInt => Nat.eqb q 1
  | TDec => Nat.eqb q 1 || Nat.eqb q 3
  | TUuid => Nat.eqb q (length uuid_shape)
  | TDate => Nat.eqb q (length date_shape)
  | TAny => true
  end.

Fixpoint run (t : ty) (q : nat) (s : list N) : bool :=
  match s with
  | [] => acc t q
  | c :: r => match step t q c with Some q' => run t q' r | None => false end
  end.

(* re.fullmatch(convertor.regex, s) is not None *)
Definition accepts (t : ty) (s : list N) : bool := run t 0 s.

(* ------------------------------------------------------------------ patterns and matching *)

Inductive seg : Type :=
| Lit (text : list N)
| Param (name : list N) (t : ty).

Fixpoint strip_prefix (p s : list N) : option (list N) :=
  match p with
  | [] => Some s
  | x :: p' =>
      match s with
      | y :: s' => if x =? y then strip_prefix p' s' else None
      | [] => None
      end
  end.

(* One group (?P<n>regex) followed by the continuation [k]: the engine tries the
   longest text first and gives characters back one at a time (every quantifier in
   the six patterns is greedy and each pattern's alternatives are ordered by
   decreasing length).  Result: number of characters captured, and k's result. *)
Definition stop_here {A : Type} (t : ty) (k : list N -> option A) (q : nat) (s : list N)
  : option (nat * A) :=
  if acc t q then match k s with Some a => Some (O, a) | None => None end else None.

Fixpoint mparam {A : Type} (t : ty) (k : list N -> option A) (q : nat) (s : list N)
  : option (nat * A) :=
  match s with
  | [] => stop_here t k q s
  | c :: r =>
      match step t q c with
      | Some q' =>
          match mparam t k q' r with
          | Some (n, a) => Some (S n, a)
          | None => stop_here t k q s
          end
      | None => stop_here t k q s
      end
  end.

(* Route.re_pattern.fullmatch(path): the captured texts in group order *)
Fixpoint match_segs (segs : list seg) (s : list N) : option (list (list N)) :=
  match segs with
  | [] => match s with [] => Some [] | _ :: _ => None end
  | Lit l :: r =>
      match strip_prefix l s with
      | Some s' => match_segs r s'
      | None => None
      end
  | Param _ t :: r =>
      match mparam t (match_segs r) 0 s with
      | Some (n, caps) => Some (firstn n s :: caps)
      | None => None
      end
  end.

(* ------------------------------------------------------------------ values *)

Inductive value : Type :=
| VStr (s : list N)
| VInt (n : N)
| VDec (c : N) (k : nat)          (* Decimal: coefficient c, exponent -k *)
| VUuid (n : N)                   (* UUID.int *)
| VDate (y m d : N).

Definition is_leap (y : N) : bool :=
  ((y mod 4 =? 0) && negb (y mod 100 =? 0)) || (y mod 400 =? 0).

Definition days_in_month (y m : N) : N :=
  if m =? 2 then (if is_leap y then 29 else 28)
  else if (m =? 4) || (m =? 6) || (m =? 9) || (m =? 11) then 30 else 31.

(* datetime.date(y, m, d) does not raise *)
Definition valid_date (y m d : N) : bool :=
  (1 <=? y) && (y <=? 9999) && (1 <=? m) && (m <=? 12) && (1 <=? d) && (d <=? days_in_month y m).

Fixpoint take_digits (s : list N) : list N :=
  match s with
  | c :: r => if is_ascii_digit c then c :: take_digits r else []
  | [] => []
  end.

Fixpoint drop_digits (s : list N) : list N :=
  match s with
  | c :: r => if is_ascii_digit c then drop_digits r else s
  | [] => []
  end.

Definition is_dash (c : N) : bool := c =? 45.

(* int(s, 16) for a string of hex digits *)
Definition unhex_s (s : list N) : N := fold_left (fun a c => a * 16 + hexval c) s 0.

(* lim = sys.get_int_max_str_digits() (0: no limit) *)
Definition over_limit (lim : N) (len : nat) : bool := negb (lim =? 0) && (lim <? N.of_nat len).

(* convertor.to_python(text) for a text the convertor's pattern accepts;
   None = ValueError (Route.matches then answers "no match") *)
Definition to_python (lim : N) (t : ty) (s : list N) : option value :=
  match t with
  | TStr | TAny => Some (VStr s)
  | TInt => if over_limit lim (length s) then None else Some (VInt (undec s))
  | TDec =>
      let a := take_digits s in
      let b := tl (drop_digits s) in
      Some (VDec (undec (a ++ b)) (length b))
  | TUuid => Some (VUuid (unhex_s (filter (fun c => negb (is_dash c)) s)))
  | TDate =>
      let y := undec (firstn 4 s) in
      let m := undec (firstn 2 (skipn 5 s)) in
      let d := undec (firstn 2 (skipn 8 s)) in
      if valid_date y m d then Some (VDate y m d) else None
  end.

(* n written with exactly w digits in base b (most significant first; n mod b^w) *)
Fixpoint fixw (b : N) (w : nat) (n : N) : list N :=
  match w with
  | O => []
  | S w' => fixw b w' (n / b) ++ [n mod b]
  end.

Definition decw (w : nat) (n : N) : list N := map (fun d => 48 + d) (fixw 10 w n).
Definition hexw (w : nat) (n : N) : list N := map hexdigit (fixw 16 w n).

Fixpoint strip_zeros_rev (r : list N) : list N :=
  match r with
  | c :: r' => if c =? 48 then strip_zeros_rev r' else r
  | [] => []
  end.

(* text.rstrip("0") *)
Definition rstrip0 (s : list N) : list N := rev (strip_zeros_rev (rev s)).

(* format(Decimal(c * 10^-k), "f"), then without trailing fraction zeros / bare point *)
Definition dec_fmt (c : N) (k : nat) : list N :=
  let ds := dec c in
  let ds' := repeat 48 (S k - length ds) ++ ds in
  let ip := firstn (length ds' - k) ds' in
  let fp := rstrip0 (skipn (length ds' - k) ds') in
  match fp with
  | [] => ip
  | _ :: _ => ip ++ 46 :: fp
  end.

Definition uuid_fmt (n : N) : list N :=
  let h := hexw 32 n in
  firstn 8 h ++ 45 :: firstn 4 (skipn 8 h) ++ 45 :: firstn 4 (skipn 12 h) ++ 45
  :: firstn 4 (skipn 16 h) ++ 45 :: skipn 20 h.

Definition date_fmt (y m d : N) : list N := decw 4 y ++ 45 :: decw 2 m ++ 45 :: decw 2 d.

Definition mem_N (c : N) (s : list N) : bool := existsb (N.eqb c) s.

(* convertor.to_string(value); None = ValueError / a value of another type *)
Definition to_string (lim : N) (t : ty) (v : value) : option (list N) :=
  match t, v with
  | TStr, VStr s => match s with [] => None | _ :: _ => if mem_N 47 s then None else Some s end
  | TAny, VStr s => Some s
  | TInt, VInt n => let s := dec n in if over_limit lim (length s) then None else Some s
  | TDec, VDec c k => Some (dec_fmt c k)
  | TUuid, VUuid n => Some (uuid_fmt n)
  | TDate, VDate y m d => Some (date_fmt y m d)
  | _, _ => None
  end.

(* Python's == on the values *)
Definition value_eqb (a b : value) : bool :=
  match a, b with
  | VStr x, VStr y => bytes_eqb x y
  | VInt x, VInt y => x =? y
  | VDec c1 k1, VDec c2 k2 => c1 * 10 ^ N.of_nat k2 =? c2 * 10 ^ N.of_nat k1
  | VUuid x, VUuid y => x =? y
  | VDate y1 m1 d1, VDate y2 m2 d2 => (y1 =? y2) && (m1 =? m2) && (d1 =? d2)
  | _, _ => false
  end.

(* ------------------------------------------------------------------ Route.matches, search *)

Definition params := list (list N * value).

(* the dict comprehension over match.groupdict(): any ValueError -> no match *)
Fixpoint convert_all (lim : N) (segs : list seg) (caps : list (list N)) : option params :=
  match segs with
  | [] => Some []
  | Lit _ :: r => convert_all lim r caps
  | Param n t :: r =>
      match caps with
      | [] => None
      | x :: caps' =>
          match to_python lim t x with
          | Some v =>
              match convert_all lim r caps' with
              | Some ps => Some ((n, v) :: ps)
              | None => None
              end
          | None => None
          end
      end
  end.

Definition route_match (lim : N) (segs : list seg) (path : list N) : option params :=
  match match_segs segs path with
  | Some caps => convert_all lim segs caps
  | None => None
  end.

(* BaseRouter.search: index of the first route that matches, with its parameters *)
Fixpoint search_from (lim : N) (i : nat) (table : list (list seg)) (path : list N)
  : option (nat * params) :=
  match table with
  | [] => None
  | r :: rest =>
      match route_match lim r path with
      | Some ps => Some (i, ps)
      | None => search_from lim (S i) rest path
      end
  end.

Definition search (lim : N) (table : list (list seg)) (path : list N) : option (nat * params) :=
  search_from lim 0 table path.

Inductive response : Type :=
| NotFound                                  (* Response(404) *)
| Ran (i : nat) (ps : params).              (* endpoint i called with PATH_PARAMS / path_params = ps *)

(* wsgi Router.__call__: environ.get("PATH_INFO", "") *)
Definition wsgi_router (lim : N) (table : list (list seg)) (path_info : option (list N)) : response :=
  match search lim table (match path_info with Some p => p | None => [] end) with
  | Some (i, ps) => Ran i ps
  | None => NotFound
  end.

(* asgi Router.__call__: scope["path"] *)
Definition asgi_router (lim : N) (table : list (list seg)) (path : list N) : response :=
  match search lim table path with
  | Some (i, ps) => Ran i ps
  | None => NotFound
  end.

(* ------------------------------------------------------------------ compile_path + Route.__init__ *)

Inductive cerr : Type := EValue | EKey | ERe.

Definition ty_of_name (n : list N) : option ty :=
  if bytes_eqb n (lit "str") then Some TStr
  else if bytes_eqb n (lit "int") then Some TInt
  else if bytes_eqb n (lit "decimal") then Some TDec
  else if bytes_eqb n (lit "uuid") then Some TUuid
  else if bytes_eqb n (lit "date") then Some TDate
  else if bytes_eqb n (lit "any") then Some TAny
  else None.

Section Compile.
  (* The Unicode database for code points >= 128, as the interpreter sees it:
     bit 0: \d matches, bit 1: \w matches, bit 2: may start an identifier,
     bit 3: may continue an identifier. *)
  Variable ucls : N -> N.

  Definition is_alpha (c : N) : bool := ((65 <=? c) && (c <=? 90)) || ((97 <=? c) && (c <=? 122)).
  Definition re_digit (c : N) : bool := if c <? 128 then is_ascii_digit c else N.testbit (ucls c) 0.
  Definition re_word (c : N) : bool :=
    if c <? 128 then is_alpha c || is_ascii_digit c || (c =? 95) else N.testbit (ucls c) 1.
  Definition id_start (c : N) : bool :=
    if c <? 128 then is_alpha c || (c =? 95) else N.testbit (ucls c) 2.
  Definition id_cont (c : N) : bool :=
    if c <? 128 then is_alpha c || is_ascii_digit c || (c =? 95) else N.testbit (ucls c) 3.

  Fixpoint take_word (s : list N) : list N :=
    match s with
    | c :: r => if re_word c then c :: take_word r else []
    | [] => []
    end.

  Fixpoint drop_word (s : list N) : list N :=
    match s with
    | c :: r => if re_word c then drop_word r else s
    | [] => []
    end.

  (* PARAM_REGEX = {([^\d]\w* )(:\w+)?}  anchored at the head of s:
     (name, convertor type name, number of characters matched) *)
  Definition try_param (s : list N) : option (list N * list N * nat) :=
    match s with
    | b :: c :: r =>
        if negb (b =? 123) then None
        else if re_digit c then None
        else
          let name := c :: take_word r in
          match drop_word r with
          | 125 :: _ => Some (name, lit "str", (2 + length name)%nat)
          | 58 :: r2 =>
              match take_word r2, drop_word r2 with
              | (_ :: _) as t, 125 :: _ => Some (name, t, (3 + length name + length t)%nat)
              | _, _ => None
              end
          | _ => None
          end
    | _ => None
    end.

  (* compile_path: (path_format, param_convertors in order of assignment); None = ValueError.
     [skip] characters at the head of s belong to a placeholder already emitted. *)
  Fixpoint scan1 (s : list N) (skip : nat) : option (list N * list (list N * ty)) :=
    match s with
    | [] => Some ([], [])
    | c :: r =>
        match skip with
        | S k => scan1 r k
        | O =>
            match try_param s with
            | Some (name, tn, len) =>
                match ty_of_name tn with
                | None => None
                | Some t =>
                    match scan1 r (len - 1) with
                    | Some (fmt, d) => Some (123 :: name ++ 125 :: fmt, (name, t) :: d)
                    | None => None
                    end
                end
            | None =>
                match scan1 r 0 with
                | Some (fmt, d) => Some (c :: fmt, d)
                | None => None
                end
            end
        end
    end.

  (* dict lookup after the assignments in list order: the last one wins *)
  Fixpoint lookup_last (n : list N) (d : list (list N * ty)) : option ty :=
    match d with
    | [] => None
    | (k, t) :: r =>
        match lookup_last n r with
        | Some t' => Some t'
        | None => if bytes_eqb k n then Some t else None
        end
    end.

  (* \{(\w+)\} anchored at the head of s (in the unescaped format) *)
  Definition try_field (s : list N) : option (list N * nat) :=
    match s with
    | b :: r =>
        if negb (b =? 123) then None
        else
          match take_word r, drop_word r with
          | (_ :: _) as w, 125 :: _ => Some (w, (2 + length w)%nat)
          | _, _ => None
          end
    | [] => None
    end.

  Definition cons_lit (c : N) (segs : list seg) : list seg :=
    match segs with
    | Lit t :: r => Lit (c :: t) :: r
    | _ => Lit [c] :: segs
    end.

  (* re.sub over re.escape(path_format); None = KeyError *)
  Fixpoint scan2 (d : list (list N * ty)) (s : list N) (skip : nat) : option (list seg) :=
    match s with
    | [] => Some []
    | c :: r =>
        match skip with
        | S k => scan2 d r k
        | O =>
            match try_field s with
            | Some (w, len) =>
                match lookup_last w d with
                | None => None
                | Some t =>
                    match scan2 d r (len - 1) with
                    | Some segs => Some (Param w t :: segs)
                    | None => None
                    end
                end
            | None =>
                match scan2 d r 0 with
                | Some segs => Some (cons_lit c segs)
                | None => None
                end
            end
        end
    end.

  Definition valid_ident (n : list N) : bool :=
    match n with
    | [] => false
    | c :: r => id_start c && forallb id_cont r
    end.

  Fixpoint param_names (segs : list seg) : list (list N) :=
    match segs with
    | [] => []
    | Lit _ :: r => param_names r
    | Param n _ :: r => n :: param_names r
    end.

  Fixpoint distinct (l : list (list N)) : bool :=
    match l with
    | [] => true
    | x :: r => negb (existsb (bytes_eqb x) r) && distinct r
    end.

  (* Route(path, endpoint): the compiled pattern or the exception of the constructor *)
  Definition compile_route (text : list N) : list seg + cerr :=
    match scan1 text 0 with
    | None => inr EValue
    | Some (fmt, d) =>
        match scan2 d fmt 0 with
        | None => inr EKey
        | Some segs =>
            let ns := param_names segs in
            if forallb valid_ident ns && distinct ns then inl segs else inr ERe
        end
    end.

  (* BaseRouter.__init__: routes are built in order, the first exception propagates *)
  Fixpoint compile_table (texts : list (list N)) : list (list seg) + cerr :=
    match texts with
    | [] => inl []
    | t :: r =>
        match compile_route t with
        | inr e => inr e
        | inl segs =>
            match compile_table r with
            | inr e => inr e
            | inl tb => inl (segs :: tb)
            end
        end
    end.
End Compile.

(* ------------------------------------------------------------------ specification vocabulary
   (used by the statements in Properties.v; nothing above depends on it) *)

Definition digits_ne (s : list N) : Prop := s <> [] /\ Forall (fun c => is_ascii_digit c = true) s.

(* the language of each convertor type *)
Definition In_lang (t : ty) (s : list N) : Prop :=
  match t with
  | TStr => s <> [] /\ Forall (fun c => c <> 47) s
  | TInt => digits_ne s
  | TDec => digits_ne s \/ exists a b, s = a ++ 46 :: b /\ digits_ne a /\ digits_ne b
  | TUuid => Forall2 (fun k c => cls_ok k c = true) uuid_shape s
  | TDate => Forall2 (fun k c => cls_ok k c = true) date_shape s
  | TAny => True
  end.

(* path = concatenation of the literals and one text per placeholder, in order *)
Inductive split_of : list seg -> list N -> list (list N) -> Prop :=
| so_nil : split_of [] [] []
| so_lit l r s caps : split_of r s caps -> split_of (Lit l :: r) (l ++ s) caps
| so_par n t r x s caps :
    In_lang t x -> split_of r s caps -> split_of (Param n t :: r) (x ++ s) (x :: caps).

Definition in_language (segs : list seg) (path : list N) : Prop := exists caps, split_of segs path caps.

(* caps is preferred to caps': equal, or longer at the first placeholder where they differ *)
Definition preferred (caps caps' : list (list N)) : Prop :=
  caps = caps' \/
  exists pre x x' rest rest',
    caps = pre ++ x :: rest /\ caps' = pre ++ x' :: rest' /\ (length x' < length x)%nat.

(* the split a backtracking engine with greedy quantifiers reports *)
Definition greedy_split (segs : list seg) (path : list N) (caps : list (list N)) : Prop :=
  split_of segs path caps /\ forall caps', split_of segs path caps' -> preferred caps caps'.

(* positional value of a digit list, most significant first *)
Fixpoint posval (b : N) (ds : list N) : N :=
  match ds with
  | [] => 0
  | d :: r => d * b ^ N.of_nat (length r) + posval b r
  end.

Definition digit_vals (s : list N) : list N := map (fun c => c - 48) s.
Definition hex_vals (s : list N) : list N := map hexval s.

(* what a text of a type's language denotes; a fraction is numerator / 10^scale *)
Inductive sval : Type :=
| SText (s : list N)
| SNat (n : N)
| SFrac (num : N) (scale : nat)
| SDate (y m d : N).

Definition sval_eq (a b : sval) : Prop :=
  match a, b with
  | SFrac n1 s1, SFrac n2 s2 => n1 * 10 ^ N.of_nat s2 = n2 * 10 ^ N.of_nat s1
  | _, _ => a = b
  end.

Definition sem (v : value) : sval :=
  match v with
  | VStr s => SText s
  | VInt n => SNat n
  | VDec c k => SFrac c k
  | VUuid n => SNat n
  | VDate y m d => SDate y m d
  end.

(* what a text of a type's language denotes (None: nothing, e.g. 2021-13-45).
   decimal: integer part and fraction are the fields around the '.';
   uuid: the 32 hex digits in order; date: the three fields around the '-'. *)
Definition denote (t : ty) (s : list N) : option sval :=
  match t with
  | TStr | TAny => Some (SText s)
  | TInt => Some (SNat (posval 10 (digit_vals s)))
  | TDec =>
      match split_on 46 s with
      | [a] => Some (SFrac (posval 10 (digit_vals a)) 0)
      | [a; b] =>
          Some (SFrac (posval 10 (digit_vals a) * 10 ^ N.of_nat (length b) + posval 10 (digit_vals b))
                      (length b))
      | _ => None
      end
  | TUuid => Some (SNat (posval 16 (hex_vals (filter (fun c => negb (c =? 45)) s))))
  | TDate =>
      match split_on 45 s with
      | [y; m; d] =>
          let yy := posval 10 (digit_vals y) in
          let mm := posval 10 (digit_vals m) in
          let dd := posval 10 (digit_vals d) in
          if valid_date yy mm dd then Some (SDate yy mm dd) else None
      | _ => None
      end
  end.

Definition value_eq (a b : value) : Prop := sval_eq (sem a) (sem b).

(* the placeholder types of a pattern, in order *)
Definition param_types (segs : list seg) : list ty :=
  flat_map (fun g => match g with Param _ t => [t] | Lit _ => [] end) segs.

(* a text of a type's language that the interpreter can turn into a value *)
Definition convertible (lim : N) (t : ty) (x : list N) : Prop :=
  denote t x <> None /\ (t = TInt -> over_limit lim (length x) = false).

(* a route accepts a path: the path is in the pattern's language and the texts of the
   split the regular-expression engine reports all denote values *)
Definition route_accepts (lim : N) (segs : list seg) (path : list N) : Prop :=
  exists caps, greedy_split segs path caps /\ Forall2 (convertible lim) (param_types segs) caps.

(* ps gives every placeholder, by name, a value equal to what its text denotes *)
Inductive typed_params : list seg -> list (list N) -> params -> Prop :=
| tp_nil : typed_params [] [] []
| tp_lit l r caps ps : typed_params r caps ps -> typed_params (Lit l :: r) caps ps
| tp_par n t r x caps v d ps :
    denote t x = Some d -> sval_eq (sem v) d -> typed_params r caps ps ->
    typed_params (Param n t :: r) (x :: caps) ((n, v) :: ps).
