(* C08 — The router dispatches to the first matching route with typed parameters.
   Statements only; every proof is a reference to C08/Proofs.v.

   Vocabulary (C08/Model.v): a compiled route is a list of [Lit text | Param name type];
   [In_lang t x]: x is in the language of convertor type t; [split_of segs path caps]: path is
   the concatenation of the literals and of one text per placeholder (caps, in order);
   [greedy_split]: the split in which every placeholder, from left to right, takes the longest
   text that still lets the rest match (what re.fullmatch reports); [denote t x]: the value the
   text denotes; [convertible lim t x]: it denotes one and (int) is within the interpreter's
   digit limit lim (0 = none); [route_accepts]: the greedy split exists and all its texts are
   convertible. *)
From Coq Require Import List NArith ZArith.
From Baize Require Import Lib.Wire Lib.Order C08.Model C08.Proofs.
Import ListNotations.
Local Open Scope N_scope.

(* Each convertor pattern (as an automaton) accepts exactly its type's language:
   str non-empty without '/', int / decimal over ASCII digits only, uuid canonical lower case,
   date dddd-dd-dd, any everything (line breaks included). *)
Theorem accepts_language : forall (t : ty) (s : list N), accepts t s = true <-> In_lang t s.
Proof. exact accepts_lang. Qed.

(* The matcher succeeds iff the ENTIRE path is in the concatenation language of the pattern,
   and then every captured text is in its placeholder's language. *)
Theorem match_sound_complete : forall (segs : list seg) (path : list N),
  (forall caps, match_segs segs path = Some caps ->
     split_of segs path caps /\ Forall2 (fun t x => In_lang t x) (param_types segs) caps) /\
  (match_segs segs path = None <-> ~ in_language segs path).
Proof. exact match_sound_complete_proof. Qed.

(* ... and the split it reports is the greedy one, which is unique. *)
Theorem match_greedy : forall (segs : list seg) (path : list N) (caps : list (list N)),
  match_segs segs path = Some caps <-> greedy_split segs path caps.
Proof. exact match_greedy_proof. Qed.

(* Route.matches answers "match" exactly for the paths the route accepts. *)
Theorem route_match_accepts : forall (lim : N) (segs : list seg) (path : list N),
  (exists ps, route_match lim segs path = Some ps) <-> route_accepts lim segs path.
Proof. exact route_match_accepts_proof. Qed.

(* BaseRouter.search: the first route, in declaration order, that accepts the path — with
   every placeholder bound to a value equal to what its text denotes — else nothing. *)
Theorem first_match : forall (lim : N) (table : list (list seg)) (path : list N),
  match search lim table path with
  | Some (i, ps) =>
      exists segs, nth_error table i = Some segs /\
        route_accepts lim segs path /\
        (exists caps, greedy_split segs path caps /\ typed_params segs caps ps) /\
        forall j segs', (j < i)%nat -> nth_error table j = Some segs' -> ~ route_accepts lim segs' path
  | None => forall segs, In segs table -> ~ route_accepts lim segs path
  end.
Proof. exact first_match_proof. Qed.

Theorem first_match_least : forall (lim : N) (table : list (list seg)) (path : list N) (i : nat),
  (exists ps, search lim table path = Some (i, ps)) <->
  (exists segs, nth_error table i = Some segs /\ route_accepts lim segs path) /\
  (forall j segs', (j < i)%nat -> nth_error table j = Some segs' -> ~ route_accepts lim segs' path).
Proof. exact first_match_least_proof. Qed.

(* The WSGI and the ASGI Router agree, answer 404 exactly when no route accepts the path, and
   otherwise run the endpoint search chose with its parameters (absent PATH_INFO = ""). *)
Theorem router_dispatch : forall (lim : N) (table : list (list seg)) (path : list N),
  wsgi_router lim table (Some path) = asgi_router lim table path /\
  wsgi_router lim table None = asgi_router lim table [] /\
  (asgi_router lim table path = NotFound <-> forall segs, In segs table -> ~ route_accepts lim segs path) /\
  (forall i ps, asgi_router lim table path = Ran i ps <-> search lim table path = Some (i, ps)).
Proof. exact router_dispatch_proof. Qed.

(* to_python gives the value the text denotes; it fails only for a text that denotes nothing
   (a date that is not in the calendar) or an int beyond the interpreter's digit limit. *)
Theorem typed_value : forall (lim : N) (t : ty) (s : list N), accepts t s = true ->
  match to_python lim t s with
  | Some v => exists d, denote t s = Some d /\ sval_eq (sem v) d
  | None => (t = TInt /\ over_limit lim (length s) = true) \/ (t = TDate /\ denote t s = None)
  end.
Proof. exact typed_value_proof. Qed.

(* Converting a parameter value back to text gives a text the same convertor accepts and
   converts to an equal value. *)
Theorem roundtrip : forall (lim : N) (t : ty) (s : list N) (v : value),
  accepts t s = true -> to_python lim t s = Some v ->
  exists s', to_string lim t v = Some s' /\ accepts t s' = true /\
    exists v', to_python lim t s' = Some v' /\ value_eq v v'.
Proof. exact roundtrip_proof. Qed.

(* Literal route text is matched verbatim: a route text without '{' compiles to that one
   literal and matches exactly the identical path. *)
Theorem compile_literal : forall (ucls : N -> N) (text : list N), ~ In 123 text ->
  compile_route ucls text = inl (lit_segs text) /\
  forall lim path, route_match lim (lit_segs text) path = (if bytes_eqb path text then Some [] else None).
Proof. exact compile_literal_proof. Qed.

(* A route that can be constructed has pairwise distinct placeholder names (path_params is a dict). *)
Theorem compile_names_distinct : forall (ucls : N -> N) (text : list N) (segs : list seg),
  compile_route ucls text = inl segs -> NoDup (param_names segs).
Proof. exact compile_names_distinct_proof. Qed.

(* non-vacuity: a three-route table where the first route's text denotes no value for its
   type, the second matches with a typed parameter; an invalid date is a 404; the decimal
   printer keeps integral zeros and avoids the exponent form. *)
Example non_vacuity :
  compile_route (fun _ => 0) (lit "/u/{id:int}/x") = inl [Lit (lit "/u/"); Param (lit "id") TInt; Lit (lit "/x")]
  /\ search 4300 [[Lit (lit "/u/"); Param (lit "id") TDate]; [Lit (lit "/u/"); Param (lit "id") TInt; Lit (lit "/x")];
                  [Lit (lit "/u/"); Param (lit "p") TAny]] (lit "/u/0042/x")
     = Some (1%nat, [(lit "id", VInt 42)])
  /\ search 4300 [[Lit (lit "/d/"); Param (lit "d") TDate]] (lit "/d/2021-13-45") = None
  /\ to_string 4300 TDec (VDec 100 0) = Some (lit "100")
  /\ to_string 4300 TDec (VDec 1 7) = Some (lit "0.0000001").
Proof. exact non_vacuity_route. Qed.

Print Assumptions accepts_language.
Print Assumptions match_sound_complete.
Print Assumptions match_greedy.
Print Assumptions route_match_accepts.
Print Assumptions first_match.
Print Assumptions first_match_least.
Print Assumptions router_dispatch.
Print Assumptions typed_value.
Print Assumptions roundtrip.
Print Assumptions compile_literal.
Print Assumptions compile_names_distinct.
