(* C06 — proofs.  Invariants by induction over the steps, for every producer
   (an arbitrary function nat -> ans) and every schedule. *)
From Coq Require Import List Bool Arith Lia.
From Baize Require Import C06.Model.
Import ListNotations.

Ltac split_step H :=
  cbn in H;
  repeat match type of H with
         | context [match ?x with _ => _ end] => destruct x eqn:?; cbn in H
         | context [if ?x then _ else _] => destruct x eqn:?; cbn in H
         end;
  try discriminate H; inversion H; subst; clear H.

Ltac brk :=
  repeat match goal with
         | H : _ /\ _ |- _ => destruct H
         | H : exists _, _ |- _ => destruct H
         | H : mkGen _ _ _ _ _ = gen0 |- _ => unfold gen0 in H; injection H; clear H; intros
         | H : ?a = ?a -> _ |- _ => specialize (H eq_refl)
         | H : forall k, Some (SItem ?a) = Some (SItem k) -> _ |- _ => specialize (H a eq_refl)
         | H : forall k, None = Some _ -> _ |- _ => clear H
         | H : forall k, Some SNone = Some (SItem k) -> _ |- _ => clear H
         | H : false = true -> _ |- _ => clear H
         | H : true = false -> _ |- _ => clear H
         | H : ?a = ?a |- _ => clear H
         | H : Some (SItem _) = Some (SItem _) |- _ => injection H; clear H; intros
         end; subst; cbn in *.

Ltac case_vars :=
  repeat match goal with
         | H : context [match ?x with _ => _ end] |- _ => is_var x; destruct x; cbn in *
         | |- context [match ?x with _ => _ end] => is_var x; destruct x; cbn in *
         | H : context [if ?x then _ else _] |- _ => is_var x; destruct x; cbn in *
         | |- context [if ?x then _ else _] => is_var x; destruct x; cbn in *
         end.

Ltac easy_end := try discriminate; try congruence; try lia; try tauto.

Ltac fin :=
  brk; repeat split; intros; brk; case_vars; brk; easy_end;
  try solve [intuition (subst; cbn in *; easy_end)].

Ltac some_step :=
  cbn;
  repeat match goal with
         | |- context [match ?x with _ => _ end] => destruct x; cbn
         | |- context [if ?x then _ else _] => destruct x; cbn
         end;
  eexists; reflexivity.

Lemma reachable_ind_inv {St L} (step : L -> St -> option St) (init : St) (P : St -> Prop) :
  P init -> (forall l s s', P s -> step l s = Some s' -> P s') ->
  forall s, reachable step init s -> P s.
Proof. intros H0 Hs s R. induction R; eauto. Qed.

Arguments items : simpl never.

Lemma items_app : forall a b, items (a ++ b) = items a ++ items b.
Proof. intros. unfold items. apply flat_map_app. Qed.

Lemma items_one : forall c, items [c] = match c with ChItem k => [k] | _ => [] end.
Proof. intros. unfold items. cbn. apply app_nil_r. Qed.

Lemma seq_snoc : forall d, seq 0 d ++ [d] = seq 0 (S d).
Proof. intros. rewrite seq_S. reflexivity. Qed.

(* ================================================================== S *)
Section S.
  Variable prod : producer.

  Definition InvS (s : sstate) : Prop :=
    let g := s_g s in
    closes g <= 1 /\ begun g = true /\
    items (s_out s) = seq 0 (length (items (s_out s))) /\
    match s_pc s with
    | SNext => gst g = GRun /\ cleanup g = 0 /\ closes g = 0 /\ length (items (s_out s)) = nexts g
    | SYield => gst g = GSusp /\ cleanup g = 0 /\ closes g = 0 /\ length (items (s_out s)) = nexts g
    | SEnd _ => gst g = GFin /\ cleanup g = 1 /\ length (items (s_out s)) <= nexts g
    end.

  Lemma invS_init : InvS s_init.
  Proof. unfold InvS; cbn. intuition. Qed.

  Lemma invS_step : forall l s s', InvS s -> stepS prod l s = Some s' -> InvS s'.
  Proof.
    intros l [pc [gs nx cl cs bg] out] s' I H. unfold InvS in *; cbn in *.
    destruct l; split_step H; cbn in *;
      repeat rewrite items_app; repeat rewrite items_one; cbn; repeat rewrite app_nil_r; repeat rewrite app_length; cbn;
      fin.
    rewrite Nat.add_1_r, <- seq_snoc. congruence.
  Qed.

  Lemma invS_reach : forall s, reachable (stepS prod) s_init s -> InvS s.
  Proof. apply reachable_ind_inv; [apply invS_init | apply invS_step]. Qed.

  Lemma s_no_deadlock : forall s, s_final s = false -> exists l s', stepS prod l s = Some s'.
  Proof.
    intros [pc g out]; unfold s_final; cbn. intros F.
    destruct pc; try discriminate F; exists LC; unfold stepS; some_step.
  Qed.

  Lemma s_closed_once : forall s, reachable (stepS prod) s_init s ->
    s_final s = true -> released (s_g s) /\ begun (s_g s) = true.
  Proof.
    intros s R F. apply invS_reach in R. unfold InvS, s_final, released in *.
    destruct (s_pc s); try discriminate F. destruct R as (A & B & _ & C & D & _).
    rewrite B, C, D. cbn. intuition.
  Qed.

  Lemma s_close_terminates : forall s s', stepS prod LX s = Some s' -> s_final s' = true.
  Proof. intros [pc g out] s' H. unfold stepS in H. split_step H. reflexivity. Qed.

  Lemma s_delivered : forall s, reachable (stepS prod) s_init s ->
    exists d, items (s_out s) = seq 0 d /\ d <= nexts (s_g s) /\
      (s_final s = false -> d = nexts (s_g s)).
  Proof.
    intros s R. apply invS_reach in R. unfold InvS, s_final in *.
    exists (length (items (s_out s))). destruct R as (_ & _ & A & B).
    destruct (s_pc s); intuition (try lia; try discriminate).
  Qed.
End S.

(* ================================================================== W *)

Definition stop_phase (c : cpc) : bool :=
  match c with CFin2 _ | CDrainTest _ | CDrainGet _ | CCancel _ | CWait _ | CEnd _ => true | _ => false end.
Definition ccl_phase (c : cpc) : bool :=
  match c with CDrainTest _ | CDrainGet _ | CCancel _ | CWait _ | CEnd _ => true | _ => false end.
Definition post_drain (c : cpc) : bool := match c with CCancel _ | CWait _ => true | _ => false end.
Definition will_put (p : ppc) : bool := match p with PNext | PPut _ | PPutNone _ => true | _ => false end.

(* the generator while the relay runs: not yet closed, cleanup ran iff it finished *)
Definition gen_ok (g : gen) : Prop :=
  closes g = 0 /\
  match gst g with
  | GFresh => begun g = false /\ cleanup g = 0
  | GRun | GSusp => begun g = true /\ cleanup g = 0
  | GFin => begun g = true /\ cleanup g = 1
  end.

Definition InvW (s : wstate) : Prop :=
  (stop_phase (wcp s) = true -> wstop s = true) /\
  (ccl_phase (wcp s) = true -> wccl s = true) /\
  (post_drain (wcp s) = true -> will_put (wpp s) = true -> wq s = None) /\
  (forall r, wcp s = CWait r -> wpp s <> PPend /\ wpp s <> PCancelled) /\
  (w_final s = true -> p_finished (wpp s) = true) /\
  match wpp s with
  | PPend | PCancelled => wg s = gen0
  | PNext => gen_ok (wg s) /\ gst (wg s) = GRun
  | PPut _ => gen_ok (wg s) /\ gst (wg s) = GSusp
  | PDone _ => closes (wg s) = 1 /\ gst (wg s) = GFin /\
               cleanup (wg s) = (if begun (wg s) then 1 else 0)
  | PTest => gen_ok (wg s) /\ gst (wg s) <> GRun /\ (gst (wg s) = GFin -> wstop s = true)
  | _ => gen_ok (wg s) /\ gst (wg s) <> GRun
  end.

Definition InvD (s : wstate) : Prop :=
  exists d, items (wout s) = seq 0 d /\ d <= nexts (wg s) /\
    (w_prefin (wcp s) = true ->
       d = wgot s /\
       (forall k, wq s = Some (SItem k) -> k = wgot s) /\
       wgot s + inq (wq s) <= nexts (wg s) /\
       match wpp s with
       | PPut k => S k = nexts (wg s) /\ k = wgot s + inq (wq s)
       | PNext => nexts (wg s) = wgot s + inq (wq s)
       | PTest => wstop s = false -> nexts (wg s) = wgot s + inq (wq s)
       | PPend => nexts (wg s) = 0 /\ wgot s = 0 /\ wq s = None
       | _ => True
       end).

Section W.
  Variable prod : producer.

  Lemma invW_init : InvW w_init.
  Proof. unfold InvW; cbn. intuition congruence. Qed.

  Lemma invW_step : forall l s s', InvW s -> stepW true prod l s = Some s' -> InvW s'.
  Proof.
    intros l [q st cc pp cp [gs nx cl cs bg] out got] s' I H.
    unfold InvW, gen_ok in *; cbn in *.
    destruct pp, cp, l; unfold stepW, stepP, stepC in H; split_step H; cbn in *; fin.
  Qed.

  Lemma invD_init : InvD w_init.
  Proof. exists 0. cbn. intuition (try discriminate; lia). Qed.

  Lemma invD_step : forall l s s', InvD s -> stepW true prod l s = Some s' -> InvD s'.
  Proof.
    intros l [q st cc pp cp [gs nx cl cs bg] out got] s' [d (Hi & Hd & Hp)] H.
    unfold InvD; cbn in *.
    destruct pp, cp, l; unfold stepW, stepP, stepC in H; split_step H; cbn in *;
      (first [ solve [exists d; rewrite ?items_app, ?items_one, ?app_nil_r; fin]
             | solve [exists (S d); rewrite ?items_app, ?items_one, <- ?seq_snoc; fin] | idtac ]).
  Qed.

  Lemma invW_reach : forall s, reachable (stepW true prod) w_init s -> InvW s.
  Proof. apply reachable_ind_inv; [apply invW_init | apply invW_step]. Qed.
  Lemma invD_reach : forall s, reachable (stepW true prod) w_init s -> InvD s.
  Proof. apply reachable_ind_inv; [apply invD_init | apply invD_step]. Qed.

  Lemma w_no_deadlock : forall s, reachable (stepW true prod) w_init s ->
    w_final s = false -> exists l s', stepW true prod l s = Some s'.
  Proof.
    intros s R F. apply invW_reach in R. revert R F.
    destruct s as [q st cc pp cp g out got]. unfold InvW; cbn. intros I F.
    destruct cp; try discriminate F;
      try (exists LC; unfold stepW, stepC; some_step).
    (* CWait: the relay is done, or it can take a step *)
    destruct I as (_ & _ & I3 & I4 & _).
    destruct (I4 r eq_refl) as [N1 N2]. specialize (I3 eq_refl).
    destruct pp; try congruence; cbn in I3; try (rewrite (I3 eq_refl));
      try (exists LP; unfold stepW, stepP; some_step).
    exists LC. unfold stepW, stepC; some_step.
  Qed.

  Lemma w_no_task_left : forall s, reachable (stepW true prod) w_init s ->
    w_final s = true -> p_finished (wpp s) = true.
  Proof. intros s R F. apply invW_reach in R. unfold InvW in R. tauto. Qed.

  Lemma w_closed_once : forall s, reachable (stepW true prod) w_init s ->
    w_final s = true ->
    released (wg s) /\ (wpp s = PCancelled /\ wg s = gen0 \/ closes (wg s) = 1).
  Proof.
    intros s R F. apply invW_reach in R. unfold InvW in R.
    destruct R as (_ & _ & _ & _ & I5 & I6). specialize (I5 F).
    unfold released. destruct (wpp s); try discriminate I5.
    - rewrite I6. cbn. intuition.
    - destruct I6 as (C & G & K). rewrite G, C. cbn. intuition.
  Qed.

  Lemma w_rank_decreases : forall s l s', reachable (stepW true prod) w_init s ->
    w_closing s = true -> stepW true prod l s = Some s' ->
    w_closing s' = true /\ rankW s' < rankW s.
  Proof.
    intros s l s' R C H. apply invW_reach in R. revert R C H.
    destruct s as [q st cc pp cp g out got]. unfold InvW, w_closing, rankW, pw; cbn.
    intros (I1 & _) C H.
    destruct cp; try discriminate C; cbn in I1;
      try (specialize (I1 eq_refl); subst st);
      destruct pp, l; unfold stepW, stepP, stepC in H; split_step H; cbn;
      try (split; [reflexivity|]); try lia; unfold pw_ns, pw_stop; case_vars; try lia.
  Qed.

  Lemma w_rank_bound : forall s, w_closing s = true -> rankW s <= 40.
  Proof.
    intros [q st cc pp cp g out got]. unfold w_closing, rankW, pw; cbn. intros C.
    destruct cp; try discriminate C; destruct st, pp, q; cbn; lia.
  Qed.

  Lemma w_closing_stop : forall s, reachable (stepW true prod) w_init s ->
    w_closing s = true -> wstop s = true \/ exists r, wcp s = CFin1 r.
  Proof.
    intros s R C. apply invW_reach in R. destruct R as (I1 & _).
    unfold w_closing in C. destruct (wcp s); try discriminate C; cbn in I1; eauto.
  Qed.

  Lemma w_nexts_after_stop : forall s l s', wstop s = true -> stepW true prod l s = Some s' ->
    wstop s' = true /\ nextsW s' <= nextsW s /\
    (l = LP -> wpp s = PNext -> nextsW s' < nextsW s).
  Proof.
    intros [q st cc pp cp g out got] l s'; cbn. intros -> H. unfold nextsW.
    destruct pp, l; unfold stepW, stepP, stepC in H; split_step H; cbn;
      repeat split; try lia; try congruence; try discriminate.
  Qed.

  Lemma w_delivered : forall s, reachable (stepW true prod) w_init s ->
    exists d, items (wout s) = seq 0 d /\ d <= nexts (wg s) /\
      (w_closing s = false -> wpp s = PNext -> nexts (wg s) = d + inq (wq s)).
  Proof.
    intros s R. apply invD_reach in R. destruct R as [d (A & B & C)].
    exists d. repeat split; auto. unfold w_closing. intros P N.
    destruct (w_prefin (wcp s)); try discriminate P.
    destruct (C eq_refl) as (-> & _ & _ & K). rewrite N in K. exact K.
  Qed.
End W.

