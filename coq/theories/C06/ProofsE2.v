From Coq Require Import List Bool Arith Lia.
From Baize Require Import C06.Model C06.ProofsSW C06.ProofsA C06.ProofsE0.
Import ListNotations.

Arguments enq : simpl never.
Arguments deq : simpl never.

Definition InvPE (s : estate) : Prop :=
  exists d, items (e_out s) = seq 0 d /\ d <= nexts (e_g s) /\
    (e_mfinal (e_m s) = false ->
       (forall k, e_q s = Some (SItem k) -> k = d) /\
       d + inq (e_q s) <= nexts (e_g s) /\
       match e_r s with
       | RPut k => S k = nexts (e_g s) /\ k = d + inq (e_q s)
       | RNext => nexts (e_g s) = d + inq (e_q s)
       | RNone | RInit => nexts (e_g s) = 0 /\ d = 0 /\ e_q s = None
       | _ => True
       end).

Ltac witness d :=
  first [ solve [exists d; split; [assumption | split; assumption]]
        | solve [exists d; rewrite ?items_app, ?items_one, ?app_nil_r; split; [assumption | split; assumption]]
        | solve [exists d; rewrite ?items_app, ?items_one, ?app_nil_r; fin]
        | solve [exists (S d); rewrite ?items_app, ?items_one, <- ?seq_snoc; fin] ].

Ltac pe_step I H d :=
  ev H; try discriminate H;
  try match type of H with
      | context [match ?p ?n with _ => _ end] => is_var p; destruct (p n) eqn:?; ev H
      end;
  clear I; injection H as H; subst; cbn in *; witness d.

Section E2.
  Variable prod : producer.

  Lemma invPE_init : InvPE e_init.
  Proof. exists 0. cbn. intuition (try discriminate; lia). Qed.

  Lemma invPE_step : forall l s s', InvE s -> InvPE s -> stepE prod l s = Some s' -> InvPE s'.
  Proof.
    intros l [m mw w ww cc r rw q st [gs nx cl cs bg] out rq] s' I [d (D1 & D2 & D3)] H.
    unfold InvE, GinvE, w_cancelled_or_done, e_done in I; unfold InvPE; cbn in *.
    destruct l as [ | | | | | []].
    - destruct m, mw; pe_step I H d.
    - destruct r, rw; pe_step I H d.
    - destruct w, ww; pe_step I H d.
    - destruct w, ww; pe_step I H d.
    - destruct m, mw; pe_step I H d.
    - (* Main *)
      destruct m.
      + pose proof I as (I1 & _). destruct (I1 eq_refl) as (-> & -> & -> & -> & ->). clear I1.
        destruct mw; pe_step I H d.
      + destruct mw; [ev H; discriminate H | | pe_step I H d].
        destruct r as [ | | | k | e | [ | | ]], rw; prune I H; destruct q as [[k'|]|], w; prune I H; pe_step I H d.
      + destruct mw; [ev H; discriminate H | | ].
        all: (destruct cc, w; prune I H; destruct r as [ | | | k | e | [ | | ]], rw; prune I H;
             destruct q as [[k'|]|]; prune I H; pe_step I H d).
      + destruct mw; pe_step I H d.
      + destruct mw; pe_step I H d.
    - destruct w, ww, cc; try (destruct disc); pe_step I H d.
    - destruct r as [ | | | k | e | e ], rw; try (ev H; discriminate H); prune I H.
      all: destruct q as [[k'|]|], st; prune I H.
      all: destruct m, mw; prune I H.
      all: pe_step I H d.
  Qed.
End E2.
