From Coq Require Import List Bool Arith Lia.
From Baize Require Import C06.Model C06.ProofsSW C06.ProofsA C06.ProofsE0 C06.ProofsE1 C06.ProofsE2 C06.ProofsE3.
Import ListNotations.

Arguments enq : simpl never.
Arguments deq : simpl never.

Ltac rk_step I H :=
  ev H; try discriminate H;
  try match type of H with
      | context [match ?p ?n with _ => _ end] => is_var p; destruct (p n) eqn:?; ev H
      end;
  clear I; injection H as H; subst;
  cbv [rankE pingsE e_slots e_local e_base e_mwrank e_mfinal e_m e_mw e_r e_rw e_q e_cc];
  repeat split; try reflexivity; try discriminate; try lia.

Section E4.
  Variable prod : producer.

  Lemma e_rank_decreases : forall s l s', reachable (stepE prod) e_init s ->
    e_cc s = true -> stepE prod l s = Some s' ->
    e_cc s' = true /\ rankE s' < rankE s /\
    pingsE s' <= pingsE s /\ (l = EvT -> pingsE s' < pingsE s).
  Proof.
    intros s l s' R C H. apply invPE_reach in R. destruct R as [I _]. revert I C H.
    destruct s as [m mw w ww cc r rw q st g out rq].
    unfold InvE, GinvE, w_cancelled_or_done, e_done; cbn. intros I -> H.
    assert (W : w = WDone) by (apply I; reflexivity). subst w.
    destruct l as [ | | | | | []].
    - destruct m, mw; rk_step I H.
    - destruct r, rw; try (ev H; discriminate H); destruct m, mw, q; rk_step I H.
    - ev H; discriminate H.
    - ev H; discriminate H.
    - destruct m, mw; try (ev H; discriminate H); destruct r, rw, q; rk_step I H.
    - (* Main *)
      destruct m.
      + exfalso. destruct I as (I1 & _). destruct (I1 eq_refl) as (_ & ? & _). discriminate.
      + destruct mw; [ev H; discriminate H | | ].
        all: destruct r as [ | | | k | e | [ | | ]], rw; prune I H; destruct q as [[k'|]|]; prune I H; rk_step I H.
      + destruct mw; [ev H; discriminate H | | ].
        all: destruct r as [ | | | k | e | [ | | ]], rw; prune I H; destruct q as [[k'|]|]; prune I H; rk_step I H.
      + destruct mw; try (ev H; discriminate H); destruct r, rw, q; rk_step I H.
      + destruct mw; try (ev H; discriminate H); prune I H.
    - ev H; discriminate H.
    - destruct r as [ | | | k | e | e ], rw; try (ev H; discriminate H); prune I H.
      all: destruct q as [[k'|]|], st; prune I H.
      all: destruct m, mw; prune I H.
      all: rk_step I H.
  Qed.

  Lemma e_rank_bound : forall s, reachable (stepE prod) e_init s ->
    e_cc s = true -> rankE s <= 26 /\ pingsE s <= 1.
  Proof.
    intros s R C. apply invPE_reach in R. destruct R as [I _]. revert I C.
    destruct s as [m mw w ww cc r rw q st g out rq].
    unfold InvE; cbn. intros (I1 & _) ->.
    destruct m; [destruct (I1 eq_refl) as (_ & _ & _ & _ & ?); discriminate | | | | ];
      destruct mw, r, rw, q; cbv [rankE pingsE e_slots e_local e_base e_mwrank e_mfinal e_m e_mw e_r e_rw e_q];
      split; lia.
  Qed.
End E4.
