(* C06 — Streaming responses always terminate and release the producer.
   Statements only.  Four transition systems (Model.v): S = WSGI StreamResponse,
   W = WSGI SendEventResponse with the repaired relay ([stepW true]; [stepW false] is
   the relay as it was), A = ASGI StreamResponse, E = ASGI SendEventResponse.
   Every theorem is for every producer (an arbitrary function nat -> ans: unbounded
   item count, stop or exception anywhere) and every reachable state, i.e. every
   schedule of enabled steps. *)
From Coq Require Import List Bool Arith.
From Baize Require Import C06.Model C06.Proofs C06.ProofsPool.
Import ListNotations.

(* In every reachable state in which the response has not ended and released
   everything, some step is enabled: no thread / task waits for something that can
   never happen.  (The enabled step may be the producer answering its pending `next`
   - LP at PNext, EvP - or the ping timer - LC at CGet on the empty queue, EvT -; a
   put on the full queue, the wait for the relay's future and a task without a pending
   wake-up are not steps.)  ASGI: once `__call__` has returned, what remains is
   enabled without the environment - the cleanup already scheduled on the event loop. *)
Theorem no_deadlock : forall prod : producer,
  (forall s, reachable (stepS prod) s_init s -> s_final s = false ->
     exists l s', stepS prod l s = Some s') /\
  (forall s, reachable (stepW true prod) w_init s -> w_final s = false ->
     exists l s', stepW true prod l s = Some s') /\
  (forall s, reachable (stepA prod) a_init s -> a_final s = false ->
     exists l s', stepA prod l s = Some s' /\ (a_done s = true -> is_run l = true)) /\
  (forall s, reachable (stepE prod) e_init s -> e_final s = false ->
     exists l s', stepE prod l s = Some s' /\ (e_done s = true -> is_run l = true)).
Proof. exact no_deadlock_proof. Qed.

(* The relay as it was before the repair deadlocks: after [orig_schedule] (22 enabled
   steps, never-ending producer) the closing consumer waits for the relay's future,
   the relay waits to put its sentinel into the full queue, and no step is enabled. *)
Theorem no_deadlock_orig_refuted :
  let s := run (stepW false endless) orig_schedule w_init in
  reachable (stepW false endless) w_init s /\
  w_final s = false /\
  (exists r e k, wcp s = CWait r /\ wpp s = PPutNone e /\ wq s = Some (SItem k)) /\
  forall l, stepW false endless l s = None.
Proof. exact no_deadlock_orig_refuted_proof. Qed.

(* After the close (S: LX; W: the consumer is in its `finally` block) / the disconnect
   (A, E: _client_closed is set) a ranking function bounded by a constant strictly
   decreases with every step of every thread, task and environment event, so every
   schedule ends after at most that many steps; among them at most one producer step
   (W: once should_stop is set, which is the consumer's first step of the `finally`
   block; A) resp. at most one expiry of the ping timer (E). *)
Theorem close_terminates : forall prod : producer,
  (forall s s', stepS prod LX s = Some s' -> s_final s' = true) /\
  (forall s, reachable (stepW true prod) w_init s -> w_closing s = true ->
     rankW s <= 40 /\ (wstop s = true \/ exists r, wcp s = CFin1 r) /\
     forall l s', stepW true prod l s = Some s' -> w_closing s' = true /\ rankW s' < rankW s) /\
  (forall s l s', wstop s = true -> stepW true prod l s = Some s' ->
     wstop s' = true /\ nextsW s' <= nextsW s /\ nextsW s <= 1 /\
     (l = LP -> wpp s = PNext -> nextsW s' < nextsW s)) /\
  (forall s, reachable (stepA prod) a_init s -> a_cc s = true ->
     rankA s <= 7 /\ nextsA s <= 1 /\
     forall l s', stepA prod l s = Some s' ->
       a_cc s' = true /\ rankA s' < rankA s /\ nextsA s' <= nextsA s /\ (l = EvP -> nextsA s' < nextsA s)) /\
  (forall s, reachable (stepE prod) e_init s -> e_cc s = true ->
     rankE s <= 26 /\ pingsE s <= 1 /\
     forall l s', stepE prod l s = Some s' ->
       e_cc s' = true /\ rankE s' < rankE s /\ pingsE s' <= pingsE s /\ (l = EvT -> pingsE s' < pingsE s)).
Proof. exact close_terminates_proof. Qed.

(* When the response has ended the user's generator is released: its cleanup block
   ran exactly once if its body was ever entered (and not at all otherwise), it is
   not left suspended, and close()/aclose() was called at most once - exactly once
   except when the relay was cancelled before it started (W: the generator is then
   untouched; E: likewise, or the generator had already finished). *)
Theorem generator_closed_once : forall prod : producer,
  (forall s, reachable (stepS prod) s_init s -> s_final s = true ->
     released (s_g s) /\ begun (s_g s) = true) /\
  (forall s, reachable (stepW true prod) w_init s -> w_final s = true ->
     released (wg s) /\ (wpp s = PCancelled /\ wg s = gen0 \/ closes (wg s) = 1)) /\
  (forall s, reachable (stepA prod) a_init s -> a_mfinal (a_m s) = true ->
     released (a_g s) /\ closes (a_g s) = 1 /\ begun (a_g s) = true) /\
  (forall s, reachable (stepE prod) e_init s -> r_done (e_r s) = true -> released (e_g s)) /\
  (forall s, e_final s = true -> r_done (e_r s) = true).
Proof. exact generator_closed_once_proof. Qed.

(* Nothing is left behind: when the WSGI iterable has ended the relay's future is
   finished or was cancelled before it ran; when the ASGI call has returned and the
   event loop is idle the watcher and the relay task are finished. *)
Theorem no_task_left : forall prod : producer,
  (forall s, reachable (stepW true prod) w_init s -> w_final s = true -> p_finished (wpp s) = true) /\
  (forall s, reachable (stepA prod) a_init s -> a_done s = true -> a_quiet s = true ->
     w_finished (a_w s) = true) /\
  (forall s, reachable (stepE prod) e_init s -> e_done s = true -> e_quiet s = true ->
     w_finished (e_w s) = true /\ r_done (e_r s) = true).
Proof. exact no_task_left_proof. Qed.

(* What was handed to the server is items 0 .. d-1 in order (pings and the final
   body aside), nothing that was not produced; and before the close / disconnect
   nothing is lost: every item produced so far is delivered or in the queue slot. *)
Theorem delivered_is_prefix : forall prod : producer,
  (forall s, reachable (stepS prod) s_init s ->
     exists d, items (s_out s) = seq 0 d /\ d <= nexts (s_g s) /\
       (s_final s = false -> d = nexts (s_g s))) /\
  (forall s, reachable (stepW true prod) w_init s ->
     exists d, items (wout s) = seq 0 d /\ d <= nexts (wg s) /\
       (w_closing s = false -> wpp s = PNext -> nexts (wg s) = d + inq (wq s))) /\
  (forall s, reachable (stepA prod) a_init s ->
     exists d, items (a_out s) = seq 0 d /\ d <= nexts (a_g s) /\
       (a_mfinal (a_m s) = false -> d = nexts (a_g s))) /\
  (forall s, reachable (stepE prod) e_init s ->
     exists d, items (e_out s) = seq 0 d /\ d <= nexts (e_g s) /\
       (e_mfinal (e_m s) = false -> e_r s = RNext -> nexts (e_g s) = d + inq (e_q s))).
Proof. exact delivered_is_prefix_proof. Qed.

(* An exhausted thread pool (more event streams open than SendEventResponse.thread_pool has workers,
   the others idle): the relay's job stays queued — wpp = PPend, and step LP is not available.  With the
   job still queued (relay as repaired or as it was): in every reachable state the consumer's own step is
   available unless the response has ended, i.e. it never waits for the job; in ANY state a response closed at a
   yield ends after at most six consumer steps and no relay step, with the queued job cancelled
   (nothing left in the pool), the generator untouched and nothing more written; and until it is closed
   the stream only pings. *)
Theorem pool_exhausted : forall (fixed : bool) (prod : producer) (s : wstate),
  wpp s = PPend ->
  (reachable (stepW fixed prod) w_init s -> w_final s = false ->
     exists s', stepC s = Some s' /\ (wpp s' = PPend \/ wpp s' = PCancelled /\ w_final s' = true)) /\
  (wcp s = CYield ->
     let s' := run (stepW fixed prod) [LX; LC; LC; LC; LC; LC; LC] s in
     wcp s' = CEnd OClosed /\ wpp s' = PCancelled /\ wg s' = wg s /\ wout s' = wout s) /\
  (wcp s = CLoopDone -> wq s = None ->
     let s' := run (stepW fixed prod) [LC; LC] s in
     wcp s' = CYield /\ wout s' = wout s ++ [ChPing] /\ wpp s' = PPend /\ wq s' = None).
Proof.
  intros fixed prod s Hp. split; [|split].
  - intros Hr. exact (pool_exhausted_consumer_free_proof fixed prod s Hr Hp).
  - exact (pool_exhausted_close_returns_proof fixed prod s Hp).
  - exact (pool_exhausted_pings_proof fixed prod s Hp).
Qed.

(* non-vacuity: the initial state has the job queued and the consumer at its loop head *)
Example pool_exhausted_example : wpp w_init = PPend /\ wcp w_init = CLoopDone /\ wq w_init = None.
Proof. repeat split. Qed.

(* non-vacuity: a closed WSGI event stream and a disconnected ASGI event stream that
   have ended are reachable *)
Example closed_state_reachable :
  exists s, reachable (stepW true endless) w_init s /\ w_final s = true /\ wcp s = CEnd OClosed /\
            wpp s = PDone false /\ items (wout s) = [0].
Proof. exact ex_w_closed_reachable. Qed.

Example disconnected_state_reachable :
  exists s, reachable (stepE endless) e_init s /\ e_cc s = true /\ e_final s = true /\
            e_quiet s = true /\ items (e_out s) = [0] /\ cleanup (e_g s) = 1.
Proof. exact ex_e_disconnected_reachable. Qed.

Print Assumptions no_deadlock.
Print Assumptions no_deadlock_orig_refuted.
Print Assumptions close_terminates.
Print Assumptions generator_closed_once.
Print Assumptions no_task_left.
Print Assumptions delivered_is_prefix.
Print Assumptions pool_exhausted.
