From Coq Require Import List Bool Arith Lia.
From Baize Require Import C06.Model C06.ProofsSW C06.ProofsA C06.ProofsE0 C06.ProofsE1 C06.ProofsE2.
Import ListNotations.

Arguments enq : simpl never.
Arguments deq : simpl never.

Section E3.
  Variable prod : producer.

  Lemma invPE_reach : forall s, reachable (stepE prod) e_init s -> InvE s /\ InvPE s.
  Proof.
    apply reachable_ind_inv.
    - split; [apply invE_init | apply invPE_init].
    - intros l s s' [I P] H. split; [eapply invE_step; eauto | eapply invPE_step; eauto].
  Qed.

  Lemma e_no_deadlock : forall s, reachable (stepE prod) e_init s ->
    e_final s = false ->
    exists l s', stepE prod l s = Some s' /\ (e_done s = true -> is_run l = true).
  Proof.
    intros s R F. apply invPE_reach in R. destruct R as [I _]. revert I F.
    destruct s as [m mw w ww cc r rw q st g out rq].
    unfold InvE, e_final, e_done, w_cancelled_or_done; cbn.
    intros (_ & I2 & I3 & _ & _ & _ & _ & _ & _ & _ & _ & I12 & _) F.
    destruct m; cbn in *.
    1-4: destruct mw;
      [ first [ exists EvS; eexists; split; [reflexivity | discriminate]
              | exists EvT; eexists; split; [reflexivity | discriminate] ]
      | exists (Run TMain); eexists; split; [reflexivity | discriminate]
      | exists (Run TMain); eexists; split; [reflexivity | discriminate] ].
    destruct (I3 eq_refl) as [I3a I3b]. destruct I2 as [I2a I2b]; [discriminate|].
    rewrite (I12 eq_refl).
    destruct w; try contradiction; cbn in F.
    1-2: subst ww; exists (Run TWatch); eexists; (split; [reflexivity | reflexivity]).
    all: destruct r; try discriminate F; try congruence;
      destruct I3a as [I3a|I3a]; try discriminate I3a; subst rw;
      exists (Run TRelay); eexists; (split; [reflexivity | reflexivity]).
  Qed.

  Lemma e_no_task_left : forall s, reachable (stepE prod) e_init s ->
    e_done s = true -> e_quiet s = true ->
    w_finished (e_w s) = true /\ r_done (e_r s) = true.
  Proof.
    intros s R D Q. apply invPE_reach in R. destruct R as [I _]. revert I D Q.
    destruct s as [m mw w ww cc r rw q st g out rq].
    unfold InvE, e_done, e_quiet, w_cancelled_or_done; cbn.
    intros (_ & I2 & I3 & _) D Q. destruct m; try discriminate D.
    destruct (I3 eq_refl) as [I3a I3b]. destruct I2 as [I2a I2b]; [discriminate|].
    destruct mw; try discriminate Q; cbn in Q.
    split.
    - destruct w; try contradiction; try reflexivity; subst ww; discriminate Q.
    - destruct I3a as [I3a|I3a]; auto. subst rw.
      destruct w, ww, r; cbn in Q; try discriminate Q; congruence.
  Qed.

  Lemma e_closed_once : forall s, reachable (stepE prod) e_init s ->
    r_done (e_r s) = true -> released (e_g s).
  Proof.
    intros s R D. apply invPE_reach in R. destruct R as [I _].
    unfold InvE, GinvE in I. destruct I as (_ & _ & _ & _ & _ & _ & _ & _ & _ & _ & _ & _ & G).
    unfold released. destruct (e_r s); try discriminate D.
    destruct G as [-> | (A & B & C & E)]; [cbn; intuition|]. rewrite A, B, E. cbn. intuition.
  Qed.

  Lemma e_delivered : forall s, reachable (stepE prod) e_init s ->
    exists d, items (e_out s) = seq 0 d /\ d <= nexts (e_g s) /\
      (e_mfinal (e_m s) = false -> e_r s = RNext -> nexts (e_g s) = d + inq (e_q s)).
  Proof.
    intros s R. apply invPE_reach in R. destruct R as [_ [d (A & B & C)]].
    exists d. repeat split; auto. intros F N. destruct (C F) as (_ & _ & K). rewrite N in K. exact K.
  Qed.
End E3.
