From Coq Require Import List Bool Arith Lia.
From Baize Require Import C06.Model C06.ProofsSW C06.ProofsA.
Import ListNotations.

(* ================================================================== E *)

Arguments enq : simpl never.
Arguments deq : simpl never.

Definition r_blocked (p : rpc) : bool := match p with RPut _ | RPutNone _ => true | _ => false end.
Definition r_putnone (p : rpc) : bool := match p with RPutNone _ => true | _ => false end.

Definition GinvE (s : estate) : Prop :=
  let g := e_g s in
  match e_r s with
  | RNone | RInit => g = gen0
  | RNext => gst g = GRun /\ cleanup g = 0 /\ closes g = 0 /\ begun g = true
  | RPut _ => gst g = GSusp /\ cleanup g = 0 /\ closes g = 0 /\ begun g = true
  | RPutNone _ => gst g = GFin /\ cleanup g = 1 /\ closes g = 0 /\ begun g = true
  | RDone _ => g = gen0 \/ (gst g = GFin /\ cleanup g = 1 /\ closes g <= 1 /\ begun g = true)
  end.

Definition InvE (s : estate) : Prop :=
  (e_m s = EMSendStart ->
     e_r s = RNone /\ e_w s = WNone /\ e_q s = None /\ e_stop s = false /\ e_cc s = false) /\
  (e_m s <> EMSendStart -> e_r s <> RNone /\ e_w s <> WNone) /\
  (e_mfinal (e_m s) = true ->
     (r_done (e_r s) = true \/ e_rw s = RwCancel) /\ w_cancelled_or_done (e_w s) (e_ww s)) /\
  (e_rw s = RwCancel -> e_mfinal (e_m s) = true /\ e_q s = None) /\
  (r_done (e_r s) = true -> e_rw s = RwNone) /\
  (e_r s = RNone -> e_rw s = RwNone) /\
  (e_r s = RInit -> e_rw s <> RwOk) /\
  (e_stop s = true -> r_done (e_r s) = true \/ r_putnone (e_r s) = true \/ e_rw s = RwCancel) /\
  (e_m s = EMGet -> e_mw s = MwOk -> e_q s <> None) /\
  (r_blocked (e_r s) = true -> e_rw s = RwOk -> e_q s = None) /\
  (e_cc s = true -> e_w s = WDone) /\
  (e_done s = true -> e_mw s = MwNone) /\
  GinvE s.

Ltac ev H := cbv - [enq deq Nat.add Nat.mul] in H.

Ltac split_ev H :=
  ev H;
  repeat match type of H with
         | context [match ?x with _ => _ end] => is_var x; destruct x; ev H
         | context [if ?x then _ else _] => is_var x; destruct x; ev H
         | context [match ?p ?n with _ => _ end] => is_var p; destruct (p n) eqn:?; ev H
         end;
  try discriminate H; inversion H; subst; clear H.

Ltac quick_end :=
  try assumption; intros; try assumption;
  repeat match goal with |- _ /\ _ => split end;
  try assumption; try discriminate; try congruence.

Ltac fwd :=
  repeat match goal with
         | H : ?P -> _, H' : ?P |- _ => specialize (H H')
         | H : _ \/ _ |- _ => destruct H
         | H : _ /\ _ |- _ => destruct H
         | H : ?a = ?a -> _ |- _ => specialize (H eq_refl)
         | H : ?a <> ?b -> _ |- _ =>
             let N := fresh "N" in assert (N : a <> b) by discriminate; specialize (H N); clear N
         | H : ?a = ?b -> _ |- _ =>
             let N := fresh "N" in assert (N : a <> b) by discriminate; clear H N
         end.
Ltac mid := intros; fwd; try congruence; try tauto; try lia.

Ltac prune I H := try solve [exfalso; clear H; cbn in I; mid].

Ltac done_step H :=
  ev H; try discriminate H;
  try match type of H with
      | context [match ?p ?n with _ => _ end] => is_var p; destruct (p n) eqn:?; ev H
      end;
  injection H as H; subst; cbn in *; brk; fwd;
  repeat match goal with |- _ /\ _ => split end; quick_end; try solve [mid]; fin.


