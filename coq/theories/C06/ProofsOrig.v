From Coq Require Import List Bool Arith Lia.
From Baize Require Import C06.Model C06.ProofsSW.
Import ListNotations.

(* ------------------------------------------------------------------ the relay as it was *)

Lemma run_reachable {St L} (step : L -> St -> option St) (init : St) :
  forall sch s, reachable step init s -> reachable step init (run step sch s).
Proof.
  induction sch as [|l r IH]; intros s R; cbn; auto.
  destruct (step l s) eqn:E; auto. apply IH. eapply reach_step; eauto.
Qed.

Definition endless : producer := fun _ => AItem.

(* relay: start, test, next (item 0), put, test, next (item 1); consumer: loop test, get
   item 0 (yield); relay: put item 1, test, next (item 2) and is blocked putting it;
   the server closes: flags, drain item 1 ... *)
Definition orig_schedule : list wlabel :=
  [LP; LP; LP; LP; LP; LP;  LC; LC;  LP; LP; LP;
   LX; LC; LC; LC; LC; LC; LC; LC;
   LP; LP; LP].

Lemma w_orig_deadlock :
  let s := run (stepW false endless) orig_schedule w_init in
  reachable (stepW false endless) w_init s /\
  w_final s = false /\
  (exists r e k, wcp s = CWait r /\ wpp s = PPutNone e /\ wq s = Some (SItem k)) /\
  forall l, stepW false endless l s = None.
Proof.
  cbv zeta. split; [apply run_reachable; constructor|].
  vm_compute. split; [reflexivity|]. split; [do 3 eexists; repeat split|]. intros x; destruct x; reflexivity.
Qed.

(* the same schedule is harmless for the repaired relay *)
Lemma w_fixed_same_schedule :
  exists s', stepW true endless LP (run (stepW true endless) orig_schedule w_init) = Some s'.
Proof. vm_compute. eauto. Qed.
