From Coq Require Import List Bool Arith Lia.
From Baize Require Import C06.Model C06.ProofsSW.
Import ListNotations.

(* ================================================================== A *)

Definition w_cancelled_or_done (p : wpc) (k : wwake) : Prop :=
  match p with WRecv | WInit => k = WwCancel | WNone => False | _ => True end.

Definition InvA (s : astate) : Prop :=
  let g := a_g s in
  (a_m s = AMSendStart -> a_w s = WNone /\ g = gen0 /\ a_cc s = false /\ a_out s = []) /\
  (a_m s <> AMSendStart -> a_w s <> WNone) /\
  (a_mfinal (a_m s) = true -> w_cancelled_or_done (a_w s) (a_ww s)) /\
  (a_cc s = true -> a_w s = WDone) /\
  (a_done s = true -> a_mw s = false) /\
  match a_m s with
  | AMSendStart => True
  | AMNext => gst g = GRun /\ cleanup g = 0 /\ closes g = 0 /\ begun g = true
  | AMSendBody => gst g = GSusp /\ cleanup g = 0 /\ closes g = 0 /\ begun g = true
  | _ => gst g = GFin /\ cleanup g = 1 /\ closes g = 1 /\ begun g = true
  end /\
  exists d, items (a_out s) = seq 0 d /\ d <= nexts g /\ (a_mfinal (a_m s) = false -> d = nexts g).

Section A.
  Variable prod : producer.

  Lemma invA_init : InvA a_init.
  Proof. unfold InvA; cbn. repeat split; try congruence. exists 0; cbn; auto. Qed.

  Lemma invA_step : forall l s s', InvA s -> stepA prod l s = Some s' -> InvA s'.
  Proof.
    intros l [m mw w ww cc [gs nx cl cs bg] out rq] s' I H.
    unfold InvA, w_cancelled_or_done, a_done in *; cbn in *.
    destruct I as (I1 & I2 & I3 & I4 & I5 & I6 & d & D1 & D2 & D3).
    destruct m, l as [ | | | | |[]];
      unfold stepA, a_run_main, a_run_watch, a_cancel_w, cancel_w, a_set_m, a_set_g, a_push, a_deq in H;
      split_step H; cbn in *;
      repeat match goal with |- _ /\ _ => split end;
      match goal with
      | |- exists _, _ =>
          first [ solve [exists d; rewrite ?items_app, ?items_one, ?app_nil_r; fin]
                | solve [exists (S d); rewrite ?items_app, ?items_one, <- ?seq_snoc; fin]
                | idtac ]
      | |- _ => fin
      end.
  Qed.

  Lemma invA_reach : forall s, reachable (stepA prod) a_init s -> InvA s.
  Proof. apply reachable_ind_inv; [apply invA_init | apply invA_step]. Qed.

  Lemma a_no_deadlock : forall s, reachable (stepA prod) a_init s ->
    a_final s = false ->
    exists l s', stepA prod l s = Some s' /\ (a_done s = true -> is_run l = true).
  Proof.
    intros s R F. apply invA_reach in R. revert R F.
    destruct s as [m mw w ww cc g out rq].
    unfold InvA, a_final, a_done, w_cancelled_or_done; cbn.
    intros (_ & I2 & I3 & _ & I5 & _) F.
    destruct m; cbn in *.
    1-4: destruct mw;
      [ exists (Run TMain); eexists; split; [unfold stepA; cbn; reflexivity | discriminate]
      | first [ exists EvS; eexists; split; [unfold stepA; cbn; reflexivity | discriminate]
              | exists EvP; eexists; split; [unfold stepA; cbn; reflexivity | discriminate] ] ].
    specialize (I3 eq_refl). rewrite (I5 eq_refl).
    destruct w; try discriminate F; try contradiction; subst ww;
      exists (Run TWatch); eexists; (split; [unfold stepA, a_run_watch; cbn; reflexivity | reflexivity]).
  Qed.

  Lemma a_no_task_left : forall s, reachable (stepA prod) a_init s ->
    a_done s = true -> a_quiet s = true -> w_finished (a_w s) = true.
  Proof.
    intros s R D Q. apply invA_reach in R. revert R D Q.
    destruct s as [m mw w ww cc g out rq].
    unfold InvA, a_done, a_quiet, w_cancelled_or_done; cbn.
    intros (_ & _ & I3 & _) D Q. destruct m; try discriminate D. specialize (I3 eq_refl).
    destruct w; try contradiction; try reflexivity; subst ww; destruct mw; discriminate Q.
  Qed.

  Lemma a_closed_once : forall s, reachable (stepA prod) a_init s ->
    a_mfinal (a_m s) = true -> released (a_g s) /\ closes (a_g s) = 1 /\ begun (a_g s) = true.
  Proof.
    intros s R F. apply invA_reach in R. unfold InvA in R.
    destruct R as (_ & _ & _ & _ & _ & I6 & _). unfold released.
    destruct (a_m s); try discriminate F; destruct I6 as (A & B & C & D); rewrite A, B, C, D; cbn; intuition.
  Qed.

  Lemma a_rank_decreases : forall s l s', reachable (stepA prod) a_init s ->
    a_cc s = true -> stepA prod l s = Some s' ->
    a_cc s' = true /\ rankA s' < rankA s /\
    nextsA s' <= nextsA s /\ (l = EvP -> nextsA s' < nextsA s).
  Proof.
    intros s l s' R C H. apply invA_reach in R. revert R C H.
    destruct s as [m mw w ww cc g out rq]. unfold InvA, rankA, nextsA; cbn.
    unfold a_done; cbn.
    intros (I1 & _ & _ & I4 & I5 & _) -> H. specialize (I4 eq_refl). subst w.
    destruct m, l as [ | | | | |[]];
      unfold stepA, a_run_main, a_run_watch, a_cancel_w, cancel_w, a_set_m, a_set_g, a_push, a_deq in H;
      split_step H; cbn; repeat split; try lia; try discriminate;
      try (destruct (I1 eq_refl) as (? & _); discriminate);
      try (specialize (I5 eq_refl); discriminate);
      destruct mw; try discriminate; cbn; lia.
  Qed.

  Lemma a_rank_bound : forall s, reachable (stepA prod) a_init s ->
    a_cc s = true -> rankA s <= 7 /\ nextsA s <= 1.
  Proof.
    intros s R C. apply invA_reach in R. revert R C.
    destruct s as [m mw w ww cc g out rq]. unfold InvA, rankA, nextsA; cbn.
    intros (I1 & _) ->. destruct m, mw; cbn; try lia.
    all: destruct (I1 eq_refl) as (_ & _ & ? & _); discriminate.
  Qed.

  Lemma a_delivered : forall s, reachable (stepA prod) a_init s ->
    exists d, items (a_out s) = seq 0 d /\ d <= nexts (a_g s) /\
      (a_mfinal (a_m s) = false -> d = nexts (a_g s)).
  Proof. intros s R. apply invA_reach in R. unfold InvA in R. tauto. Qed.
End A.
