(* C06 — proofs.  The parts (one file each so that they build in parallel):
     ProofsSW    invariants and lemmas of S (WSGI stream) and W (WSGI event stream)
     ProofsOrig  the deadlock of the relay as it was, as a computed witness
     ProofsA     A (ASGI stream)
     ProofsE0-4  E (ASGI event stream): definitions and tactics, control/generator
                 invariant, delivery invariant, theorems, ranking function
   This file packages them into the statements of Properties.v. *)
From Coq Require Import List Bool Arith Lia.
From Baize Require Import C06.Model.
From Baize Require Export C06.ProofsSW C06.ProofsOrig C06.ProofsA
  C06.ProofsE0 C06.ProofsE1 C06.ProofsE2 C06.ProofsE3 C06.ProofsE4.
Import ListNotations.

Lemma no_deadlock_proof : forall prod : producer,
  (forall s, reachable (stepS prod) s_init s -> s_final s = false ->
     exists l s', stepS prod l s = Some s') /\
  (forall s, reachable (stepW true prod) w_init s -> w_final s = false ->
     exists l s', stepW true prod l s = Some s') /\
  (forall s, reachable (stepA prod) a_init s -> a_final s = false ->
     exists l s', stepA prod l s = Some s' /\ (a_done s = true -> is_run l = true)) /\
  (forall s, reachable (stepE prod) e_init s -> e_final s = false ->
     exists l s', stepE prod l s = Some s' /\ (e_done s = true -> is_run l = true)).
Proof.
  intros prod. split; [|split; [|split]].
  - intros s _. apply s_no_deadlock.
  - apply w_no_deadlock.
  - apply a_no_deadlock.
  - apply e_no_deadlock.
Qed.

Lemma no_deadlock_orig_refuted_proof :
  let s := run (stepW false endless) orig_schedule w_init in
  reachable (stepW false endless) w_init s /\
  w_final s = false /\
  (exists r e k, wcp s = CWait r /\ wpp s = PPutNone e /\ wq s = Some (SItem k)) /\
  forall l, stepW false endless l s = None.
Proof. exact w_orig_deadlock. Qed.

Lemma close_terminates_proof : forall prod : producer,
  (forall s s', stepS prod LX s = Some s' -> s_final s' = true) /\
  (forall s, reachable (stepW true prod) w_init s -> w_closing s = true ->
     rankW s <= 40 /\ (wstop s = true \/ exists r, wcp s = CFin1 r) /\
     forall l s', stepW true prod l s = Some s' -> w_closing s' = true /\ rankW s' < rankW s) /\
  (forall s l s', wstop s = true -> stepW true prod l s = Some s' ->
     wstop s' = true /\ nextsW s' <= nextsW s /\ nextsW s <= 1 /\
     (l = LP -> wpp s = PNext -> nextsW s' < nextsW s)) /\
  (forall s, reachable (stepA prod) a_init s -> a_cc s = true ->
     rankA s <= 7 /\ nextsA s <= 1 /\
     forall l s', stepA prod l s = Some s' ->
       a_cc s' = true /\ rankA s' < rankA s /\ nextsA s' <= nextsA s /\ (l = EvP -> nextsA s' < nextsA s)) /\
  (forall s, reachable (stepE prod) e_init s -> e_cc s = true ->
     rankE s <= 26 /\ pingsE s <= 1 /\
     forall l s', stepE prod l s = Some s' ->
       e_cc s' = true /\ rankE s' < rankE s /\ pingsE s' <= pingsE s /\ (l = EvT -> pingsE s' < pingsE s)).
Proof.
  intros prod. split; [|split; [|split; [|split]]].
  - apply s_close_terminates.
  - intros s R C. split; [apply w_rank_bound; auto|]. split; [apply (w_closing_stop prod); auto|].
    intros l s' H. eapply (w_rank_decreases prod); eauto.
  - intros s l s' St H. destruct (w_nexts_after_stop prod s l s' St H) as (A & B & C).
    repeat split; auto. unfold nextsW. destruct (wpp s); lia.
  - intros s R C. destruct (a_rank_bound prod s R C) as [A B]. repeat split; auto;
      intros; eapply (a_rank_decreases prod); eauto.
  - intros s R C. destruct (e_rank_bound prod s R C) as [A B]. repeat split; auto;
      intros; eapply (e_rank_decreases prod); eauto.
Qed.

Lemma generator_closed_once_proof : forall prod : producer,
  (forall s, reachable (stepS prod) s_init s -> s_final s = true ->
     released (s_g s) /\ begun (s_g s) = true) /\
  (forall s, reachable (stepW true prod) w_init s -> w_final s = true ->
     released (wg s) /\ (wpp s = PCancelled /\ wg s = gen0 \/ closes (wg s) = 1)) /\
  (forall s, reachable (stepA prod) a_init s -> a_mfinal (a_m s) = true ->
     released (a_g s) /\ closes (a_g s) = 1 /\ begun (a_g s) = true) /\
  (forall s, reachable (stepE prod) e_init s -> r_done (e_r s) = true -> released (e_g s)) /\
  (forall s, e_final s = true -> r_done (e_r s) = true).
Proof.
  intros prod. split; [|split; [|split; [|split]]].
  - apply s_closed_once.
  - apply w_closed_once.
  - apply a_closed_once.
  - apply e_closed_once.
  - intros s F. unfold e_final in F. apply andb_true_iff in F. tauto.
Qed.

Lemma no_task_left_proof : forall prod : producer,
  (forall s, reachable (stepW true prod) w_init s -> w_final s = true -> p_finished (wpp s) = true) /\
  (forall s, reachable (stepA prod) a_init s -> a_done s = true -> a_quiet s = true ->
     w_finished (a_w s) = true) /\
  (forall s, reachable (stepE prod) e_init s -> e_done s = true -> e_quiet s = true ->
     w_finished (e_w s) = true /\ r_done (e_r s) = true).
Proof.
  intros prod. split; [|split].
  - apply w_no_task_left.
  - apply a_no_task_left.
  - apply e_no_task_left.
Qed.

Lemma delivered_is_prefix_proof : forall prod : producer,
  (forall s, reachable (stepS prod) s_init s ->
     exists d, items (s_out s) = seq 0 d /\ d <= nexts (s_g s) /\
       (s_final s = false -> d = nexts (s_g s))) /\
  (forall s, reachable (stepW true prod) w_init s ->
     exists d, items (wout s) = seq 0 d /\ d <= nexts (wg s) /\
       (w_closing s = false -> wpp s = PNext -> nexts (wg s) = d + inq (wq s))) /\
  (forall s, reachable (stepA prod) a_init s ->
     exists d, items (a_out s) = seq 0 d /\ d <= nexts (a_g s) /\
       (a_mfinal (a_m s) = false -> d = nexts (a_g s))) /\
  (forall s, reachable (stepE prod) e_init s ->
     exists d, items (e_out s) = seq 0 d /\ d <= nexts (e_g s) /\
       (e_mfinal (e_m s) = false -> e_r s = RNext -> nexts (e_g s) = d + inq (e_q s))).
Proof.
  intros prod. split; [|split; [|split]].
  - apply s_delivered.
  - apply w_delivered.
  - apply a_delivered.
  - apply e_delivered.
Qed.

(* ---------- non-vacuity: closing / disconnected and final states are reachable ---------- *)

Definition three_then_stop : producer := fun k => if k <? 3 then AItem else AStop.

Lemma ex_w_closed_reachable :
  exists s, reachable (stepW true endless) w_init s /\ w_final s = true /\ wcp s = CEnd OClosed /\
            wpp s = PDone false /\ items (wout s) = [0].
Proof.
  exists (run (stepW true endless)
            (orig_schedule ++ [LP; LP; LP; LP; LC]) w_init).
  split; [apply run_reachable; constructor|]. vm_compute. auto.
Qed.

Definition ex_e_schedule : list alabel :=
  [EvS; Run TMain; Run TWatch; Run TRelay; EvP; Run TRelay; Run TMain; EvD; Run TWatch;
   EvS; Run TMain; Run TRelay; EvS; Run TMain].

Lemma ex_e_disconnected_reachable :
  exists s, reachable (stepE endless) e_init s /\ e_cc s = true /\ e_final s = true /\
            e_quiet s = true /\ items (e_out s) = [0] /\ cleanup (e_g s) = 1.
Proof.
  exists (run (stepE endless) ex_e_schedule e_init).
  split; [apply run_reachable; constructor|]. vm_compute. auto 10.
Qed.
