From Coq Require Import List Bool Arith Lia.
From Baize Require Import C06.Model C06.ProofsSW C06.ProofsA C06.ProofsE0.
Import ListNotations.

Arguments enq : simpl never.
Arguments deq : simpl never.

Section E.
  Variable prod : producer.

  Lemma invE_init : InvE e_init.
  Proof. unfold InvE, GinvE; cbn. repeat split; try congruence; try discriminate. Qed.

  Lemma invE_env : forall l s s', is_run l = false -> InvE s -> stepE prod l s = Some s' -> InvE s'.
  Proof.
    intros l [m mw w ww cc r rw q st [gs nx cl cs bg] out rq] s' NR I H.
    unfold InvE, GinvE, w_cancelled_or_done, e_done in *; cbn in *.
    destruct l; try discriminate NR.
    - (destruct m, mw; ev H; try discriminate H; inversion H; subst; clear H).
      all: cbn in *.
      all: brk.
      all: (repeat match goal with |- _ /\ _ => split end).
      all: quick_end.
      all: fin.
    - (destruct r, rw; done_step H).
    - (destruct w, ww; done_step H).
    - (destruct w, ww; done_step H).
    - (destruct m, mw; done_step H).
  Qed.

  Lemma invE_watch : forall s s', InvE s -> stepE prod (Run TWatch) s = Some s' -> InvE s'.
  Proof.
    intros [m mw w ww cc r rw q st [gs nx cl cs bg] out rq] s' I H.
    unfold InvE, GinvE, w_cancelled_or_done, e_done in *; cbn in *.
    (destruct w, ww, cc; try (destruct disc); done_step H).
  Qed.

  Lemma invE_main : forall s s', InvE s -> stepE prod (Run TMain) s = Some s' -> InvE s'.
  Proof.
    intros [m mw w ww cc r rw q st [gs nx cl cs bg] out rq] s' I H.
    unfold InvE, GinvE, w_cancelled_or_done, e_done in *; cbn in *.
    destruct m.
    - (* SendStart *)
      pose proof I as (I1 & _). destruct (I1 eq_refl) as (-> & -> & -> & -> & ->). clear I1.
      (destruct mw; done_step H).
    - (* Get *)
      destruct mw; [ev H; discriminate H | | done_step H].
      (destruct r as [ | | | k | e | [ | | ]], rw; prune I H; destruct q as [[k'|]|], w; prune I H; done_step H).
    - (* SendBody *)
      destruct mw; [ev H; discriminate H | | ].
      all: (destruct cc, w; prune I H; destruct r as [ | | | k | e | [ | | ]], rw; prune I H; destruct q as [[k'|]|]; prune I H; done_step H).
    - destruct mw; done_step H.
    - destruct mw; done_step H.
  Qed.

  Lemma invE_relay : forall s s', InvE s -> stepE prod (Run TRelay) s = Some s' -> InvE s'.
  Proof.
    intros [m mw w ww cc r rw q st [gs nx cl cs bg] out rq] s' I H.
    unfold InvE, GinvE, w_cancelled_or_done, e_done in *; cbn in *.
    (destruct r as [ | | | k | e | e ], rw; try (ev H; discriminate H); prune I H).
    all: (destruct q as [[k'|]|], st; prune I H).
    all: (destruct m, mw; prune I H).
    all: done_step H.
  Qed.

  Lemma invE_step : forall l s s', InvE s -> stepE prod l s = Some s' -> InvE s'.
  Proof.
    intros l s s' I H. destruct l as [ | | | | | []].
    - exact (invE_env EvS s s' eq_refl I H).
    - exact (invE_env EvP s s' eq_refl I H).
    - exact (invE_env EvR s s' eq_refl I H).
    - exact (invE_env EvD s s' eq_refl I H).
    - exact (invE_env EvT s s' eq_refl I H).
    - eapply invE_main; eauto.
    - eapply invE_watch; eauto.
    - eapply invE_relay; eauto.
  Qed.

  Lemma invE_reach : forall s, reachable (stepE prod) e_init s -> InvE s.
  Proof. apply reachable_ind_inv; [apply invE_init | apply invE_step]. Qed.
End E.
