(* C06 — streaming responses terminate and release the producer.

   Four transition systems with small atomic steps (no proofs in this file):

     S  WSGI StreamResponse        baize/wsgi/responses.py  `yield from self.iterable`
     W  WSGI SendEventResponse     relay thread + Queue(maxsize=1) + should_stop /
                                   client_closed flags + thread-pool future.
                                   [fixed = true]  the repaired relay (planned fix 0010),
                                   [fixed = false] the relay as it was (sentinel always put)
     A  ASGI StreamResponse        tasks Main (`__call__` + render_stream) and Watcher
                                   (`wait_close`)
     E  ASGI SendEventResponse     tasks Main, Watcher, Relay (`push`), the one-slot
                                   asyncio.Queue, the ping timer of `wait_for`

   The user's generator is an oracle [producer]: the k-th `next` is answered by
   [prod k] with an item (whose value is its index), the end of the generator or
   an exception.  A schedule is a list of choices among the enabled steps; a
   blocked step (put on the full queue, wait for the future, a task without a
   pending wake-up) is not enabled: [step] returns [None].

   W: labels LP (the relay thread executes its next atomic statement), LC (the
   consumer does; at a `yield`: the server resumes the iterable), LX (the server
   closes the iterable; only at a `yield`).
   A/E: environment events (send completed, producer answered, receive returned
   a message / the disconnect, ping timer fired) and [Run t]: the event loop
   resumes task t, which then runs up to its next suspension point (asyncio is
   cooperative: the code between two awaits is atomic).  Cancellation is a
   pending wake-up that replaces whatever the task was waiting for and is
   delivered when the task is resumed.  [rq] is the FIFO order in which asyncio
   would resume the woken tasks; it is only a hint used by the executable
   [drain] (the theorems allow any order). *)
From Coq Require Import List Bool Arith.
Import ListNotations.

(* ------------------------------------------------------------------ producer *)

Inductive ans := AItem | AStop | ARaise.
Definition producer := nat -> ans.

Inductive chunk := ChItem (k : nat) | ChPing | ChFinal.

(* the user's generator: never started / inside a `next` / suspended at a
   `yield` / finished.  [cleanup] counts executions of its `finally` block,
   [closes] the calls of close()/aclose() on it. *)
Inductive gstate := GFresh | GRun | GSusp | GFin.
Record gen := mkGen { gst : gstate; nexts : nat; cleanup : nat; closes : nat; begun : bool }.
Definition gen0 : gen := mkGen GFresh 0 0 0 false.

Definition g_begin (g : gen) : gen := mkGen GRun (nexts g) (cleanup g) (closes g) true.
Definition g_answer (a : ans) (g : gen) : gen :=
  match a with
  | AItem => mkGen GSusp (S (nexts g)) (cleanup g) (closes g) (begun g)
  | _ => mkGen GFin (S (nexts g)) (S (cleanup g)) (closes g) (begun g)
  end.
Definition live (x : gstate) : bool := match x with GRun | GSusp => true | _ => false end.
(* close(): GeneratorExit at the yield of a started generator runs its cleanup *)
Definition g_close (g : gen) : gen :=
  mkGen GFin (nexts g) (if live (gst g) then S (cleanup g) else cleanup g) (S (closes g)) (begun g).
(* an exception (CancelledError) thrown into the running generator *)
Definition g_throw (g : gen) : gen :=
  mkGen GFin (nexts g) (if live (gst g) then S (cleanup g) else cleanup g) (closes g) (begun g).

Inductive outcome := OReturn | OClosed | ORaise.

(* ------------------------------------------------------------------ S: WSGI stream *)

Inductive spc := SNext | SYield | SEnd (o : outcome).
Record sstate := mkS { s_pc : spc; s_g : gen; s_out : list chunk }.
Inductive wlabel := LP | LC | LX.

Definition s_init : sstate := mkS SNext (g_begin gen0) [].

Definition stepS (prod : producer) (l : wlabel) (s : sstate) : option sstate :=
  match l, s_pc s with
  | LC, SNext =>
      let g := s_g s in
      match prod (nexts g) with
      | AItem => Some (mkS SYield (g_answer AItem g) (s_out s ++ [ChItem (nexts g)]))
      | AStop => Some (mkS (SEnd OReturn) (g_answer AStop g) (s_out s))
      | ARaise => Some (mkS (SEnd ORaise) (g_answer ARaise g) (s_out s))
      end
  | LC, SYield => Some (mkS SNext (g_begin (s_g s)) (s_out s))
  | LX, SYield => Some (mkS (SEnd OClosed) (g_close (s_g s)) (s_out s))
  | _, _ => None
  end.

(* ------------------------------------------------------------------ W: WSGI event stream *)

Inductive slot := SItem (k : nat) | SNone.

Inductive ppc :=
| PPend                 (* submitted to the pool, not yet picked up *)
| PCancelled            (* future cancelled before it ran *)
| PTest                 (* while not should_stop *)
| PNext                 (* next(i) *)
| PPut (k : nat)        (* q.put(item k) *)
| PFinTest (e : bool)   (* finally: if not client_closed   (e: an exception is propagating) *)
| PPutNone (e : bool)   (* q.put(None) *)
| PClose (e : bool)     (* g.close() *)
| PDone (e : bool).     (* future finished (e: with the producer's exception) *)

Inductive reason := RNormal | RClose.

Inductive cpc :=
| CLoopDone             (* while not (push_future.done() ... *)
| CLoopEmpty            (*            ... and q.empty()) *)
| CGet                  (* q.get(timeout=ping_interval) *)
| CYield                (* suspended at a yield: the server resumes or closes *)
| CFin1 (r : reason)    (* finally: should_stop = True *)
| CFin2 (r : reason)    (* client_closed = True *)
| CDrainTest (r : reason) (* while not q.empty() *)
| CDrainGet (r : reason)  (* q.get_nowait() *)
| CCancel (r : reason)  (* push_future.cancel() *)
| CWait (r : reason)    (* push_future.exception() *)
| CEnd (o : outcome).

Record wstate := mkW {
  wq : option slot; wstop : bool; wccl : bool;
  wpp : ppc; wcp : cpc; wg : gen; wout : list chunk; wgot : nat }.

Definition w_init : wstate := mkW None false false PPend CLoopDone gen0 [] 0.

Definition w_q x s := mkW x (wstop s) (wccl s) (wpp s) (wcp s) (wg s) (wout s) (wgot s).
Definition w_stop x s := mkW (wq s) x (wccl s) (wpp s) (wcp s) (wg s) (wout s) (wgot s).
Definition w_ccl x s := mkW (wq s) (wstop s) x (wpp s) (wcp s) (wg s) (wout s) (wgot s).
Definition w_pp x s := mkW (wq s) (wstop s) (wccl s) x (wcp s) (wg s) (wout s) (wgot s).
Definition w_cp x s := mkW (wq s) (wstop s) (wccl s) (wpp s) x (wg s) (wout s) (wgot s).
Definition w_g x s := mkW (wq s) (wstop s) (wccl s) (wpp s) (wcp s) x (wout s) (wgot s).
Definition w_out x s := mkW (wq s) (wstop s) (wccl s) (wpp s) (wcp s) (wg s) x (wgot s).
Definition w_got x s := mkW (wq s) (wstop s) (wccl s) (wpp s) (wcp s) (wg s) (wout s) x.

Definition p_finished (p : ppc) : bool :=
  match p with PDone _ | PCancelled => true | _ => false end.

Definition stepP (fixed : bool) (prod : producer) (s : wstate) : option wstate :=
  match wpp s with
  | PPend => Some (w_pp PTest s)
  | PTest => Some (if wstop s then w_pp (PFinTest false) s
                   else w_pp PNext (w_g (g_begin (wg s)) s))
  | PNext =>
      let g := wg s in
      match prod (nexts g) with
      | AItem => Some (w_pp (PPut (nexts g)) (w_g (g_answer AItem g) s))
      | AStop => Some (w_pp PTest (w_stop true (w_g (g_answer AStop g) s)))
      | ARaise => Some (w_pp (PFinTest true) (w_g (g_answer ARaise g) s))
      end
  | PPut k =>
      match wq s with
      | None => Some (w_pp PTest (w_q (Some (SItem k)) s))
      | Some _ => None
      end
  | PFinTest e => Some (if fixed && wccl s then w_pp (PClose e) s else w_pp (PPutNone e) s)
  | PPutNone e =>
      match wq s with
      | None => Some (w_pp (PClose e) (w_q (Some SNone) s))
      | Some _ => None
      end
  | PClose e => Some (w_pp (PDone e) (w_g (g_close (wg s)) s))
  | PDone _ | PCancelled => None
  end.

Definition end_of (r : reason) : outcome :=
  match r with RNormal => OReturn | RClose => OClosed end.

Definition stepC (s : wstate) : option wstate :=
  match wcp s with
  | CLoopDone => Some (w_cp (if p_finished (wpp s) then CLoopEmpty else CGet) s)
  | CLoopEmpty => Some (w_cp (match wq s with None => CFin1 RNormal | Some _ => CGet end) s)
  | CGet =>
      match wq s with
      | Some (SItem k) =>
          Some (w_cp CYield (w_got (S (wgot s)) (w_out (wout s ++ [ChItem k]) (w_q None s))))
      | Some SNone => Some (w_cp (CFin1 RNormal) (w_q None s))
      | None => Some (w_cp CYield (w_out (wout s ++ [ChPing]) s))      (* queue.Empty: ping *)
      end
  | CYield => Some (w_cp CLoopDone s)
  | CFin1 r => Some (w_cp (CFin2 r) (w_stop true s))
  | CFin2 r => Some (w_cp (CDrainTest r) (w_ccl true s))
  | CDrainTest r => Some (w_cp (match wq s with None => CCancel r | Some _ => CDrainGet r end) s)
  | CDrainGet r => Some (w_cp (CDrainTest r) (w_q None s))
  | CCancel r =>
      match wpp s with
      | PPend => Some (w_cp (CEnd (end_of r)) (w_pp PCancelled s))
      | PCancelled => Some (w_cp (CEnd (end_of r)) s)
      | _ => Some (w_cp (CWait r) s)
      end
  | CWait r =>
      match wpp s with
      | PDone true => Some (w_cp (CEnd ORaise) s)
      | PDone false => Some (w_cp (CEnd (end_of r)) s)
      | _ => None
      end
  | CEnd _ => None
  end.

Definition stepW (fixed : bool) (prod : producer) (l : wlabel) (s : wstate) : option wstate :=
  match l with
  | LP => stepP fixed prod s
  | LC => stepC s
  | LX => match wcp s with CYield => Some (w_cp (CFin1 RClose) s) | _ => None end
  end.

(* ------------------------------------------------------------------ ASGI: common *)

Inductive task := TMain | TWatch | TRelay.
Definition task_eqb (a b : task) : bool :=
  match a, b with TMain, TMain | TWatch, TWatch | TRelay, TRelay => true | _, _ => false end.

Inductive alabel :=
| EvS            (* the pending send completed *)
| EvP            (* the producer answered the pending __anext__ *)
| EvR            (* receive() returned a message that is not a disconnect *)
| EvD            (* receive() returned http.disconnect *)
| EvT            (* the ping timer of wait_for fired *)
| Run (t : task).

Definition enq (t : task) (rq : list task) : list task :=
  if existsb (task_eqb t) rq then rq else rq ++ [t].
Definition deq (t : task) (rq : list task) : list task :=
  filter (fun x => negb (task_eqb t x)) rq.

(* watcher task `wait_close` *)
Inductive wpc := WNone | WInit | WRecv | WDone | WCancelled.
Inductive wwake := WwNone | WwMsg (disc : bool) | WwCancel.

(* wait_close_future.cancel() *)
Definition cancel_w (w : wpc * wwake * list task) : wpc * wwake * list task :=
  let '(p, k, rq) := w in
  match p with
  | WInit => (p, WwCancel, enq TWatch rq)
  | WRecv => (p, WwCancel, enq TWatch rq)
  | _ => (p, k, rq)
  end.

(* ------------------------------------------------------------------ A: ASGI stream *)

Inductive ampc := AMSendStart | AMNext | AMSendBody | AMSendFinal | AMDone (o : outcome).

Record astate := mkA {
  a_m : ampc; a_mw : bool;          (* Main: suspension point, wake-up pending *)
  a_w : wpc; a_ww : wwake;          (* Watcher *)
  a_cc : bool;                      (* self._client_closed *)
  a_g : gen; a_out : list chunk; a_rq : list task }.

Definition a_init : astate := mkA AMSendStart false WNone WwNone false gen0 [] [].

Definition a_cancel_w (s : astate) : astate :=
  let '(p, k, rq) := cancel_w (a_w s, a_ww s, a_rq s) in
  mkA (a_m s) (a_mw s) p k (a_cc s) (a_g s) (a_out s) rq.

Definition a_set_m (m : ampc) (s : astate) : astate :=
  mkA m false (a_w s) (a_ww s) (a_cc s) (a_g s) (a_out s) (a_rq s).
Definition a_set_g (g : gen) (s : astate) : astate :=
  mkA (a_m s) (a_mw s) (a_w s) (a_ww s) (a_cc s) g (a_out s) (a_rq s).
Definition a_push (c : chunk) (s : astate) : astate :=
  mkA (a_m s) (a_mw s) (a_w s) (a_ww s) (a_cc s) (a_g s) (a_out s ++ [c]) (a_rq s).
Definition a_deq (t : task) (s : astate) : astate :=
  mkA (a_m s) (a_mw s) (a_w s) (a_ww s) (a_cc s) (a_g s) (a_out s) (deq t (a_rq s)).

Definition a_send_pending (m : ampc) : bool :=
  match m with AMSendStart | AMSendBody | AMSendFinal => true | _ => false end.

(* Main resumed at its suspension point *)
Definition a_run_main (prod : producer) (s0 : astate) : astate :=
  let s := a_deq TMain s0 in
  match a_m s with
  | AMSendStart =>
      (* ensure_future(wait_close); generator.asend(None) -> __anext__ of the iterable *)
      let s1 := mkA AMNext false WInit WwNone (a_cc s) (g_begin (a_g s)) (a_out s) (enq TWatch (a_rq s)) in
      s1
  | AMNext =>
      let g := a_g s in
      match prod (nexts g) with
      | AItem => a_set_m AMSendBody (a_push (ChItem (nexts g)) (a_set_g (g_answer AItem g) s))
      | AStop =>
          (* render_stream: finally aclose(); __call__: except StopAsyncIteration, finally
             cancel the watcher, aclose the finished generator, send the final body *)
          a_set_m AMSendFinal (a_push ChFinal (a_cancel_w (a_set_g (g_close (g_answer AStop g)) s)))
      | ARaise =>
          a_set_m (AMDone ORaise) (a_cancel_w (a_set_g (g_close (g_answer ARaise g)) s))
      end
  | AMSendBody =>
      if a_cc s
      then a_set_m AMSendFinal (a_push ChFinal (a_set_g (g_close (a_g s)) (a_cancel_w s)))
      else a_set_m AMNext (a_set_g (g_begin (a_g s)) s)
  | AMSendFinal => a_set_m (AMDone OReturn) s
  | AMDone _ => s
  end.

Definition a_run_watch (s0 : astate) : option astate :=
  let s := a_deq TWatch s0 in
  let mk p k c := mkA (a_m s) (a_mw s) p k c (a_g s) (a_out s) (a_rq s) in
  match a_w s, a_ww s with
  | WInit, WwCancel => Some (mk WCancelled WwNone (a_cc s))
  | WInit, _ => Some (if a_cc s then mk WDone WwNone (a_cc s) else mk WRecv WwNone (a_cc s))
  | WRecv, WwMsg d => Some (if d then mk WDone WwNone true else mk WRecv WwNone false)
  | WRecv, WwCancel => Some (mk WCancelled WwNone (a_cc s))
  | _, _ => None
  end.

Definition stepA (prod : producer) (l : alabel) (s : astate) : option astate :=
  match l with
  | EvS => if a_send_pending (a_m s) && negb (a_mw s)
           then Some (mkA (a_m s) true (a_w s) (a_ww s) (a_cc s) (a_g s) (a_out s) (enq TMain (a_rq s)))
           else None
  | EvP => match a_m s, a_mw s with
           | AMNext, false =>
               Some (mkA (a_m s) true (a_w s) (a_ww s) (a_cc s) (a_g s) (a_out s) (enq TMain (a_rq s)))
           | _, _ => None
           end
  | EvR | EvD =>
      match a_w s, a_ww s with
      | WRecv, WwNone =>
          Some (mkA (a_m s) (a_mw s) (a_w s) (WwMsg (match l with EvD => true | _ => false end))
                    (a_cc s) (a_g s) (a_out s) (enq TWatch (a_rq s)))
      | _, _ => None
      end
  | EvT => None
  | Run TMain => if a_mw s then Some (a_run_main prod s) else None
  | Run TWatch => a_run_watch s
  | Run TRelay => None
  end.

(* ------------------------------------------------------------------ E: ASGI event stream *)

Inductive empc := EMSendStart | EMGet | EMSendBody | EMSendFinal | EMDone (o : outcome).
Inductive mwake := MwNone | MwOk | MwTimeout.

Inductive rexc := ENone | EExc | ECancel.
Inductive rpc :=
| RNone                 (* not created yet *)
| RInit                 (* created, not yet started *)
| RNext                 (* await i.__anext__() *)
| RPut (k : nat)        (* await q.put(item k), the queue was full *)
| RPutNone (e : rexc)   (* finally: await q.put(None), the queue was full *)
| RDone (e : rexc).
Inductive rwake := RwNone | RwOk | RwCancel.

Record estate := mkE {
  e_m : empc; e_mw : mwake;
  e_w : wpc; e_ww : wwake; e_cc : bool;
  e_r : rpc; e_rw : rwake;
  e_q : option slot; e_stop : bool;
  e_g : gen; e_out : list chunk; e_rq : list task }.

Definition e_init : estate :=
  mkE EMSendStart MwNone WNone WwNone false RNone RwNone None false gen0 [] [].

Definition e_set_m m k s := mkE m k (e_w s) (e_ww s) (e_cc s) (e_r s) (e_rw s) (e_q s) (e_stop s) (e_g s) (e_out s) (e_rq s).
Definition e_set_w p k c s := mkE (e_m s) (e_mw s) p k c (e_r s) (e_rw s) (e_q s) (e_stop s) (e_g s) (e_out s) (e_rq s).
Definition e_set_r p k s := mkE (e_m s) (e_mw s) (e_w s) (e_ww s) (e_cc s) p k (e_q s) (e_stop s) (e_g s) (e_out s) (e_rq s).
Definition e_set_q x s := mkE (e_m s) (e_mw s) (e_w s) (e_ww s) (e_cc s) (e_r s) (e_rw s) x (e_stop s) (e_g s) (e_out s) (e_rq s).
Definition e_set_stop x s := mkE (e_m s) (e_mw s) (e_w s) (e_ww s) (e_cc s) (e_r s) (e_rw s) (e_q s) x (e_g s) (e_out s) (e_rq s).
Definition e_set_g x s := mkE (e_m s) (e_mw s) (e_w s) (e_ww s) (e_cc s) (e_r s) (e_rw s) (e_q s) (e_stop s) x (e_out s) (e_rq s).
Definition e_push c s := mkE (e_m s) (e_mw s) (e_w s) (e_ww s) (e_cc s) (e_r s) (e_rw s) (e_q s) (e_stop s) (e_g s) (e_out s ++ [c]) (e_rq s).
Definition e_set_rq x s := mkE (e_m s) (e_mw s) (e_w s) (e_ww s) (e_cc s) (e_r s) (e_rw s) (e_q s) (e_stop s) (e_g s) (e_out s) x.
Definition e_enq t s := e_set_rq (enq t (e_rq s)) s.
Definition e_deq t s := e_set_rq (deq t (e_rq s)) s.

Definition e_cancel_w (s : estate) : estate :=
  let '(p, k, rq) := cancel_w (e_w s, e_ww s, e_rq s) in
  e_set_rq rq (e_set_w p k (e_cc s) s).

Definition r_suspended (p : rpc) : bool :=
  match p with RNext | RPut _ | RPutNone _ => true | _ => false end.
Definition r_done (p : rpc) : bool := match p with RDone _ => true | _ => false end.

(* q.get_nowait() released the slot: the blocked putter (the relay) is woken *)
Definition e_wake_putter (s : estate) : estate :=
  match e_r s, e_rw s with
  | RPut _, RwNone | RPutNone _, RwNone => e_enq TRelay (e_set_r (e_r s) RwOk s)
  | _, _ => s
  end.
(* q.put_nowait() filled the slot: the blocked getter (Main in wait_for(q.get())) is woken *)
Definition e_wake_getter (s : estate) : estate :=
  match e_m s, e_mw s with
  | EMGet, MwNone => e_enq TMain (e_set_m EMGet MwOk s)
  | _, _ => s
  end.
(* push_future.cancel() on a task that is not done *)
Definition e_cancel_r (s : estate) : estate :=
  match e_r s with
  | RInit => e_enq TRelay (e_set_r RInit RwCancel s)
  | RNext | RPut _ | RPutNone _ => e_enq TRelay (e_set_r (e_r s) RwCancel s)
  | _ => s
  end.

(* render_stream's finally block, then the rest of __call__ *)
Definition e_fin (r : reason) (s0 : estate) : estate :=
  let s1 := e_set_stop true s0 in
  let s2 := match e_q s1 with Some _ => e_wake_putter (e_set_q None s1) | None => s1 end in
  match e_r s2 with
  | RDone EExc =>
      (* cancel() is False, exception() is the producer's: re-raised; __call__'s finally
         cancels the watcher (already done on the close path) *)
      e_set_m (EMDone ORaise) MwNone (e_cancel_w s2)
  | _ =>
      let s3 := e_cancel_r s2 in
      e_set_m EMSendFinal MwNone (e_push ChFinal (e_cancel_w s3))
  end.

(* one round of `while not (push_future.done() and q.empty())` *)
Definition e_loop (s : estate) : estate :=
  if r_done (e_r s) && match e_q s with None => true | Some _ => false end
  then e_fin RNormal s
  else match e_q s with
       | Some (SItem k) => e_set_m EMSendBody MwNone (e_push (ChItem k) (e_wake_putter (e_set_q None s)))
       | Some SNone => e_fin RNormal (e_wake_putter (e_set_q None s))
       | None => e_set_m EMGet MwNone s
       end.

Definition e_run_main (s0 : estate) : estate :=
  let s := e_deq TMain s0 in
  match e_m s, e_mw s with
  | EMSendStart, _ =>
      (* ensure_future(wait_close); first asend: ensure_future(push()); first loop round *)
      let s1 := e_enq TWatch (e_set_w WInit WwNone (e_cc s) s) in
      let s2 := e_enq TRelay (e_set_r RInit RwNone s1) in
      e_loop s2
  | EMGet, MwTimeout => e_set_m EMSendBody MwNone (e_push ChPing s)
  | EMGet, _ => e_loop s
  | EMSendBody, _ =>
      if e_cc s then e_fin RClose (e_cancel_w s) else e_loop s
  | EMSendFinal, _ => e_set_m (EMDone OReturn) MwNone s
  | EMDone _, _ => s
  end.

(* relay: finally block of push() *)
Definition e_rfin (e : rexc) (s : estate) : estate :=
  match e_q s with
  | None => e_set_r (RDone e) RwNone (e_set_g (g_close (e_g s)) (e_wake_getter (e_set_q (Some SNone) s)))
  | Some _ => e_set_r (RPutNone e) RwNone s
  end.
(* relay: `while not should_stop:` *)
Definition e_rloop (s : estate) : estate :=
  if e_stop s then e_rfin ENone s
  else e_set_r RNext RwNone (e_set_g (g_begin (e_g s)) s).
Definition e_rput (k : nat) (s : estate) : estate :=
  match e_q s with
  | None => e_rloop (e_wake_getter (e_set_q (Some (SItem k)) s))
  | Some _ => e_set_r (RPut k) RwNone s
  end.

Definition e_run_relay (prod : producer) (s0 : estate) : option estate :=
  let s := e_deq TRelay s0 in
  match e_r s, e_rw s with
  | RInit, RwCancel => Some (e_set_r (RDone ECancel) RwNone s)
  | RInit, _ => Some (e_rloop s)
  | RNext, RwOk =>
      let g := e_g s in
      match prod (nexts g) with
      | AItem => Some (e_rput (nexts g) (e_set_g (g_answer AItem g) s))
      | AStop => Some (e_rloop (e_set_stop true (e_set_g (g_answer AStop g) s)))
      | ARaise => Some (e_rfin EExc (e_set_g (g_answer ARaise g) s))
      end
  | RNext, RwCancel => Some (e_rfin ECancel (e_set_g (g_throw (e_g s)) s))
  | RPut k, RwOk => Some (e_rput k s)
  | RPut k, RwCancel => Some (e_rfin ECancel s)
  | RPutNone e, RwOk => Some (e_rfin e s)
  | RPutNone e, RwCancel => Some (e_set_r (RDone ECancel) RwNone s)   (* aclose() is skipped *)
  | _, _ => None
  end.

Definition e_run_watch (s0 : estate) : option estate :=
  let s := e_deq TWatch s0 in
  match e_w s, e_ww s with
  | WInit, WwCancel => Some (e_set_w WCancelled WwNone (e_cc s) s)
  | WInit, _ => Some (if e_cc s then e_set_w WDone WwNone (e_cc s) s else e_set_w WRecv WwNone (e_cc s) s)
  | WRecv, WwMsg d => Some (if d then e_set_w WDone WwNone true s else e_set_w WRecv WwNone false s)
  | WRecv, WwCancel => Some (e_set_w WCancelled WwNone (e_cc s) s)
  | _, _ => None
  end.

Definition e_send_pending (m : empc) : bool :=
  match m with EMSendStart | EMSendBody | EMSendFinal => true | _ => false end.

Definition stepE (prod : producer) (l : alabel) (s : estate) : option estate :=
  match l with
  | EvS => match e_mw s with
           | MwNone => if e_send_pending (e_m s) then Some (e_enq TMain (e_set_m (e_m s) MwOk s)) else None
           | _ => None
           end
  | EvP => match e_r s, e_rw s with
           | RNext, RwNone => Some (e_enq TRelay (e_set_r RNext RwOk s))
           | _, _ => None
           end
  | EvR | EvD =>
      match e_w s, e_ww s with
      | WRecv, WwNone =>
          Some (e_enq TWatch (e_set_w WRecv (WwMsg (match l with EvD => true | _ => false end)) (e_cc s) s))
      | _, _ => None
      end
  | EvT => match e_m s, e_mw s with
           | EMGet, MwNone => Some (e_enq TMain (e_set_m EMGet MwTimeout s))
           | EMGet, MwOk => Some (e_set_m EMGet MwTimeout s)
           | _, _ => None
           end
  | Run TMain => match e_mw s with MwNone => None | _ => Some (e_run_main s) end
  | Run TWatch => e_run_watch s
  | Run TRelay => e_run_relay prod s
  end.

(* ------------------------------------------------------------------ schedules *)

Section Runs.
  Context {St L : Type} (step : L -> St -> option St).
  (* a schedule is a list of labels; a label that is not enabled is skipped *)
  Fixpoint run (sch : list L) (s : St) : St :=
    match sch with
    | [] => s
    | l :: r => match step l s with Some s' => run r s' | None => run r s end
    end.
  Inductive reachable (init : St) : St -> Prop :=
  | reach_init : reachable init init
  | reach_step : forall s l s', reachable init s -> step l s = Some s' -> reachable init s'.
End Runs.

(* ------------------------------------------------------------------ coarse steps
   The harness cannot stop the real code between any two statements: it stops the
   threads at the queue / future / producer operations (W) and lets the event loop
   run until no task is ready after each environment event (A, E).  A coarse step
   is a fixed sequence of fine steps, so every coarse run is a fine run. *)

Definition p_ctrl (p : ppc) : bool := match p with PTest | PFinTest _ => false | _ => true end.
Definition c_ctrl (c : cpc) : bool := match c with CFin1 _ | CFin2 _ => false | _ => true end.

Fixpoint settleP (fuel : nat) (fixed : bool) (prod : producer) (s : wstate) : wstate :=
  match fuel with
  | O => s
  | S f => if p_ctrl (wpp s) then s
           else match stepP fixed prod s with Some s' => settleP f fixed prod s' | None => s end
  end.
Fixpoint settleC (fuel : nat) (s : wstate) : wstate :=
  match fuel with
  | O => s
  | S f => if c_ctrl (wcp s) then s
           else match stepC s with Some s' => settleC f s' | None => s end
  end.

(* choices: 0 = relay thread, 1 = consumer (at a yield: resume), 2 = close at a yield *)
Definition coarseW (fixed : bool) (prod : producer) (c : nat) (s : wstate) : option wstate :=
  match c with
  | 0 => option_map (settleP 4 fixed prod) (stepP fixed prod s)
  | 1 => option_map (settleC 4) (stepC s)
  | 2 => option_map (settleC 4) (stepW fixed prod LX s)
  | _ => None
  end.

(* A thread pool without a free worker (more event streams open than the pool has workers, the others
   idle): the relay's job stays queued, step 0 is never available.  Everything else as coarseW. *)
Definition coarseWsat (fixed : bool) (prod : producer) (c : nat) (s : wstate) : option wstate :=
  match c with 0 => None | _ => coarseW fixed prod c s end.

Definition coarseS (prod : producer) (c : nat) (s : sstate) : option sstate :=
  match c with
  | 1 => stepS prod LC s
  | 2 => stepS prod LX s
  | _ => None
  end.

(* the event loop resumes the woken tasks in FIFO order until none is left *)
Fixpoint drainA (fuel : nat) (prod : producer) (s : astate) : astate :=
  match fuel with
  | O => s
  | S f => match a_rq s with
           | [] => s
           | t :: _ => match stepA prod (Run t) s with
                       | Some s' => drainA f prod s'
                       | None => drainA f prod (a_deq t s)
                       end
           end
  end.
Fixpoint drainE (fuel : nat) (prod : producer) (s : estate) : estate :=
  match fuel with
  | O => s
  | S f => match e_rq s with
           | [] => s
           | t :: _ => match stepE prod (Run t) s with
                       | Some s' => drainE f prod s'
                       | None => drainE f prod (e_deq t s)
                       end
           end
  end.

(* choices: 0 = send done, 1 = producer answers, 2 = other message, 3 = disconnect, 4 = timer *)
Definition ev_of (c : nat) : option alabel :=
  match c with 0 => Some EvS | 1 => Some EvP | 2 => Some EvR | 3 => Some EvD | 4 => Some EvT | _ => None end.

Definition coarseA (prod : producer) (c : nat) (s : astate) : option astate :=
  match ev_of c with
  | Some l => option_map (drainA 16 prod) (stepA prod l s)
  | None => None
  end.
Definition coarseE (prod : producer) (c : nat) (s : estate) : option estate :=
  match ev_of c with
  | Some l => option_map (drainE 16 prod) (stepE prod l s)
  | None => None
  end.

(* ------------------------------------------------------------------ specification vocabulary *)

Definition items (out : list chunk) : list nat :=
  flat_map (fun c => match c with ChItem k => [k] | _ => [] end) out.
Definition inq (q : option slot) : nat := match q with Some (SItem _) => 1 | _ => 0 end.

(* the generator's cleanup ran exactly once if its body was ever entered (never
   otherwise), it is not left suspended, close() was called at most once *)
Definition released (g : gen) : Prop :=
  cleanup g = (if begun g then 1 else 0) /\ live (gst g) = false /\ closes g <= 1.

(* S *)
Definition s_final (s : sstate) : bool := match s_pc s with SEnd _ => true | _ => false end.

(* W *)
Definition w_final (s : wstate) : bool := match wcp s with CEnd _ => true | _ => false end.
Definition w_prefin (c : cpc) : bool :=
  match c with CLoopDone | CLoopEmpty | CGet | CYield => true | _ => false end.
(* the consumer is in its `finally` block (or past it): the iterable was closed or is exhausted *)
Definition w_closing (s : wstate) : bool := negb (w_prefin (wcp s)).

(* ranking function of W: steps the consumer still has to take, plus three times the
   steps the relay can still take (one relay `put` costs the consumer two more drain steps) *)
Definition pw_stop (p : ppc) : nat :=
  match p with
  | PDone _ | PCancelled => 0 | PClose _ => 1 | PPutNone _ => 2 | PFinTest _ => 3
  | PTest => 4 | PPut _ => 5 | PNext => 6 | PPend => 5
  end.
Definition pw_ns (p : ppc) (q : option slot) : nat :=
  match q with
  | Some _ => match p with PPut _ => 5 | PNext => 6 | PTest => 7 | PPend => 8 | _ => pw_stop p end
  | None => match p with PPut _ => 8 | PNext => 9 | PTest => 10 | PPend => 11 | _ => pw_stop p end
  end.
Definition pw (s : wstate) : nat := if wstop s then pw_stop (wpp s) else pw_ns (wpp s) (wq s).
Definition cw (c : cpc) (q : option slot) : nat :=
  match c with
  | CEnd _ => 0 | CWait _ => 1 | CCancel _ => 2
  | CDrainTest _ => match q with None => 3 | Some _ => 5 end
  | CDrainGet _ => 4 | CFin2 _ => 6 | CFin1 _ => 7 | _ => 8
  end.
Definition rankW (s : wstate) : nat := cw (wcp s) (wq s) + 3 * pw s.
(* `next` calls of the relay that are still possible once should_stop is set *)
Definition nextsW (s : wstate) : nat := match wpp s with PNext => 1 | _ => 0 end.

(* A *)
Definition a_mfinal (m : ampc) : bool := match m with AMSendFinal | AMDone _ => true | _ => false end.
Definition a_done (s : astate) : bool := match a_m s with AMDone _ => true | _ => false end.
Definition w_finished (p : wpc) : bool := match p with WDone | WCancelled => true | _ => false end.
Definition a_final (s : astate) : bool := a_done s && w_finished (a_w s).
Definition is_run (l : alabel) : bool := match l with Run _ => true | _ => false end.
(* no task has a wake-up pending: the event loop is idle *)
Definition w_quiet (p : wpc) (k : wwake) : bool :=
  match p, k with WInit, _ => false | WRecv, WwNone => true | WRecv, _ => false | _, _ => true end.
Definition a_quiet (s : astate) : bool := negb (a_mw s) && w_quiet (a_w s) (a_ww s).
Definition a_base (m : ampc) : nat :=
  match m with AMDone _ => 0 | AMSendFinal => 2 | AMSendBody => 4 | AMNext => 6 | AMSendStart => 8 end.
Definition rankA (s : astate) : nat := a_base (a_m s) + (if a_mw s then 0 else 1).
Definition nextsA (s : astate) : nat := match a_m s, a_mw s with AMNext, false => 1 | _, _ => 0 end.

(* E *)
Definition e_mfinal (m : empc) : bool := match m with EMSendFinal | EMDone _ => true | _ => false end.
Definition e_done (s : estate) : bool := match e_m s with EMDone _ => true | _ => false end.
Definition e_final (s : estate) : bool := e_done s && w_finished (e_w s) && r_done (e_r s).
Definition r_quiet (p : rpc) (k : rwake) : bool :=
  match p, k with RInit, _ => false | _, RwNone => true | _, _ => false end.
Definition e_quiet (s : estate) : bool :=
  match e_mw s with MwNone => true | _ => false end && w_quiet (e_w s) (e_ww s) && r_quiet (e_r s) (e_rw s).
Definition e_base (m : empc) : nat :=
  match m with EMDone _ => 0 | EMSendFinal => 4 | EMSendBody => 8 | EMGet => 12 | EMSendStart => 16 end.
Definition e_mwrank (k : mwake) : nat := match k with MwNone => 2 | MwOk => 1 | MwTimeout => 0 end.
(* successful `put`s that are still possible: a free slot, and Main may take one more item *)
Definition e_slots (s : estate) : nat :=
  if e_mfinal (e_m s) then 0
  else match e_q s with None => 1 | Some _ => 0 end + match e_m s with EMGet => 1 | _ => 0 end.
Definition e_local (p : rpc) (k : rwake) : nat :=
  match k with
  | RwCancel => 1
  | _ => match p with
         | RInit => 4
         | RNext => match k with RwOk => 2 | _ => 3 end
         | RPut _ | RPutNone _ => match k with RwOk => 0 | _ => 1 end
         | _ => 0
         end
  end.
Definition rankE (s : estate) : nat :=
  e_base (e_m s) + e_mwrank (e_mw s) + e_local (e_r s) (e_rw s) + 4 * e_slots s.
(* ping intervals that can still pass before Main leaves wait_for(q.get()) for good *)
Definition pingsE (s : estate) : nat :=
  match e_m s, e_mw s with EMGet, MwTimeout => 0 | EMGet, _ => 1 | _, _ => 0 end.
