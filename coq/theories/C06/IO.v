(* C06 — wire interface.

   case line:   kind ( n ending ) ( c1 c2 ... )
     kind    0 WSGI stream, 1 WSGI event stream (repaired relay), 2 ASGI stream,
             3 ASGI event stream, 4 WSGI event stream with the relay as it was,
             5 WSGI event stream on a thread pool without a free worker (choice 0 never available)
     n, ending   the producer: n items, then 0 = stops, 1 = raises, 2 = never ends
     c1 c2 ...   the schedule (coarse choices, see Model.v); a choice that is not
                 enabled is skipped; after the schedule the run is completed by a
                 fixed policy (close / disconnect as soon as possible, then whatever
                 is enabled) so that every case ends
   observation: ( out ) outcome ( gst begun ) nexts cleanup closes left ( pa ta na ) closed
     out       chunks handed to the server: item index, -1 ping, -2 final empty body
     outcome   return | closed | raise | deadlock | running
     gst       0 generator never started nor closed, 1 still suspended / running, 2 finished
     begun     1 when the generator's body was ever entered
     left      relay thread / tasks not finished at the end
     pa ta na  after the close / disconnect: producer answers, timer expiries, all steps
     closed    1 when the server closed the iterable / the client disconnected during the run
   enumeration: 9 kind ( n ending ) depth   ->  all maximal schedules of enabled
     choices up to that depth (used by the harness to generate its cases) *)
From Coq Require Import List NArith ZArith Bool Arith.
From Baize Require Import Lib.Wire C06.Model.
Import ListNotations.

Definition mkprod (n ending : nat) : producer :=
  fun k => if k <? n then AItem
           else match ending with 0 => AStop | 1 => ARaise | _ => AItem end.

Section Exec.
  Context {St : Type}.
  Variable coarse : nat -> St -> option St.
  Variable kind_of : nat -> St -> nat.     (* 1 = producer answer, 2 = timer expiry *)
  Variable is_close : nat -> bool.          (* the server's close / the disconnect *)
  Variable policy : St -> option nat.

  Record acc := mkAcc { ac_s : St; ac_closed : bool; ac_p : nat; ac_t : nat; ac_n : nat }.

  (* the counters count the steps taken after the close / disconnect *)
  Definition exec1 (c : nat) (a : acc) : acc :=
    match coarse c (ac_s a) with
    | None => a
    | Some s' =>
        if ac_closed a
        then mkAcc s' true (if Nat.eqb (kind_of c (ac_s a)) 1 then S (ac_p a) else ac_p a)
                      (if Nat.eqb (kind_of c (ac_s a)) 2 then S (ac_t a) else ac_t a)
                      (S (ac_n a))
        else mkAcc s' (is_close c) (ac_p a) (ac_t a) (ac_n a)
    end.

  Definition exec (sch : list nat) (s : St) : acc :=
    fold_left (fun a c => exec1 c a) sch (mkAcc s false 0 0 0).

  (* completion; the bool says whether it stopped by itself (no choice left) *)
  Fixpoint complete (fuel : nat) (a : acc) : acc * bool :=
    match fuel with
    | O => (a, false)
    | S f => match policy (ac_s a) with
             | None => (a, true)
             | Some c => complete f (exec1 c a)
             end
    end.

  (* maximal schedules of enabled choices; choice 2 is budgeted when lim2 *)
  Fixpoint enum (choices : list nat) (lim2 : bool) (d : nat) (n2 : nat) (s : St) : list (list nat) :=
    match d with
    | O => [[]]
    | S d' =>
        let succ := flat_map (fun c =>
          if lim2 && Nat.eqb c 2 && Nat.eqb n2 0 then []
          else match coarse c s with
               | Some s' => map (cons c) (enum choices lim2 d' (if lim2 && Nat.eqb c 2 then pred n2 else n2) s')
               | None => []
               end) choices in
        match succ with [] => [[]] | _ => succ end
    end.
End Exec.

(* ---------- per machine ---------- *)

Definition first_enabled {St} (coarse : nat -> St -> option St) (cs : list nat) (s : St) : option nat :=
  find (fun c => match coarse c s with Some _ => true | None => false end) cs.

(* S *)
Definition s_policy (prod : producer) (s : sstate) : option nat :=
  first_enabled (coarseS prod) [2; 1] s.

(* W *)
Definition w_kind (c : nat) (s : wstate) : nat :=
  match c, wpp s with 0, PNext => 1 | _, _ => 0 end.
Definition w_policy (fixed : bool) (prod : producer) (s : wstate) : option nat :=
  if w_final s then None else first_enabled (coarseW fixed prod) [2; 1; 0] s.

(* A, E *)
Definition a_kind (c : nat) (s : astate) : nat := match c with 1 => 1 | 4 => 2 | _ => 0 end.
Definition e_kind (c : nat) (s : estate) : nat := match c with 1 => 1 | 4 => 2 | _ => 0 end.
Definition a_policy (prod : producer) (s : astate) : option nat :=
  if a_done s then None else first_enabled (coarseA prod) [3; 0; 1; 4] s.
Definition e_policy (prod : producer) (s : estate) : option nat :=
  if e_done s then None else first_enabled (coarseE prod) [3; 0; 1; 4] s.

Definition w_unfinished (p : wpc) (k : wwake) : nat :=
  match p with WInit | WRecv => 1 | _ => 0 end.
Definition r_unfinished (p : rpc) : nat :=
  match p with RNone | RDone _ => 0 | _ => 1 end.

(* ---------- printing ---------- *)

Definition show_chunk (c : chunk) : sx :=
  match c with ChItem k => of_nat k | ChPing => Num (-1)%Z | ChFinal => Num (-2)%Z end.
Definition show_gst (g : gstate) : sx :=
  match g with GFresh => Num 0%Z | GRun | GSusp => Num 1%Z | GFin => Num 2%Z end.
Definition show_outcome (o : outcome) : sx :=
  match o with OReturn => tag (lit "return") | OClosed => tag (lit "closed") | ORaise => tag (lit "raise") end.

Definition show_obs (out : list chunk) (o : sx) (g : gen) (left : nat) (p t n : nat) (closed : bool) : list sx :=
  [ Lst (map show_chunk out); o; Lst [show_gst (gst g); of_bool (begun g)]; of_nat (nexts g);
    of_nat (cleanup g); of_nat (closes g); of_nat left; Lst [of_nat p; of_nat t; of_nat n]; of_bool closed ].

Definition stuck (stopped : bool) : sx :=
  if stopped then tag (lit "deadlock") else tag (lit "running").

Definition FUEL : nat := 200.

Definition run_S (prod : producer) (sch : list nat) : list sx :=
  let '(a, stopped) := complete (coarseS prod) (fun _ _ => 0) (Nat.eqb 2) (s_policy prod) FUEL
                         (exec (coarseS prod) (fun _ _ => 0) (Nat.eqb 2) sch s_init) in
  let s := ac_s a in
  show_obs (s_out s) (match s_pc s with SEnd o => show_outcome o | _ => stuck stopped end)
           (s_g s) 0 (ac_p a) (ac_t a) (ac_n a) (ac_closed a).

Definition run_W (fixed : bool) (prod : producer) (sch : list nat) : list sx :=
  let '(a, stopped) := complete (coarseW fixed prod) w_kind (Nat.eqb 2) (w_policy fixed prod) FUEL
                         (exec (coarseW fixed prod) w_kind (Nat.eqb 2) sch w_init) in
  let s := ac_s a in
  show_obs (wout s) (match wcp s with CEnd o => show_outcome o | _ => stuck stopped end)
           (wg s) (if p_finished (wpp s) then 0 else 1) (ac_p a) (ac_t a) (ac_n a) (ac_closed a).

(* W with an exhausted pool *)
Definition wsat_policy (fixed : bool) (prod : producer) (s : wstate) : option nat :=
  if w_final s then None else first_enabled (coarseWsat fixed prod) [2; 1] s.
Definition run_Wsat (fixed : bool) (prod : producer) (sch : list nat) : list sx :=
  let '(a, stopped) := complete (coarseWsat fixed prod) w_kind (Nat.eqb 2) (wsat_policy fixed prod) FUEL
                         (exec (coarseWsat fixed prod) w_kind (Nat.eqb 2) sch w_init) in
  let s := ac_s a in
  show_obs (wout s) (match wcp s with CEnd o => show_outcome o | _ => stuck stopped end)
           (wg s) (if p_finished (wpp s) then 0 else 1) (ac_p a) (ac_t a) (ac_n a) (ac_closed a).

Definition run_A (prod : producer) (sch : list nat) : list sx :=
  let '(a, stopped) := complete (coarseA prod) a_kind (Nat.eqb 3) (a_policy prod) FUEL
                         (exec (coarseA prod) a_kind (Nat.eqb 3) sch a_init) in
  let s := ac_s a in
  show_obs (a_out s) (match a_m s with AMDone o => show_outcome o | _ => stuck stopped end)
           (a_g s) (w_unfinished (a_w s) (a_ww s)) (ac_p a) (ac_t a) (ac_n a) (ac_closed a).

Definition run_E (prod : producer) (sch : list nat) : list sx :=
  let '(a, stopped) := complete (coarseE prod) e_kind (Nat.eqb 3) (e_policy prod) FUEL
                         (exec (coarseE prod) e_kind (Nat.eqb 3) sch e_init) in
  let s := ac_s a in
  show_obs (e_out s) (match e_m s with EMDone o => show_outcome o | _ => stuck stopped end)
           (e_g s) (w_unfinished (e_w s) (e_ww s) + r_unfinished (e_r s)) (ac_p a) (ac_t a) (ac_n a) (ac_closed a).

Definition show_scheds (l : list (list nat)) : list sx :=
  map (fun sch => Lst (map of_nat sch)) l.

Definition rd_nat (x : sx) : nat := N.to_nat (sx_n x).

Definition run_case (c : list sx) : list sx :=
  match c with
  | [Num 9%Z; k; Lst [n; e]; d] =>
      let prod := mkprod (rd_nat n) (rd_nat e) in
      let depth := rd_nat d in
      match rd_nat k with
      | 0 => show_scheds (enum (coarseS prod) [1; 2] false depth 0 s_init)
      | 1 => show_scheds (enum (coarseW true prod) [0; 1; 2] false depth 0 w_init)
      | 2 => show_scheds (enum (coarseA prod) [0; 1; 2; 3; 4] true depth 1 a_init)
      | 3 => show_scheds (enum (coarseE prod) [0; 1; 2; 3; 4] true depth 1 e_init)
      | 4 => show_scheds (enum (coarseW false prod) [0; 1; 2] false depth 0 w_init)
      | 5 => show_scheds (enum (coarseWsat true prod) [1; 2] false depth 0 w_init)
      | _ => [tag (lit "badkind")]
      end
  | [k; Lst [n; e]; Lst sch] =>
      let prod := mkprod (rd_nat n) (rd_nat e) in
      let sched := map rd_nat sch in
      match rd_nat k with
      | 0 => run_S prod sched
      | 1 => run_W true prod sched
      | 2 => run_A prod sched
      | 3 => run_E prod sched
      | 4 => run_W false prod sched
      | 5 => run_Wsat true prod sched
      | _ => [tag (lit "badkind")]
      end
  | _ => [tag (lit "badcase")]
  end.

Definition run_line (l : list N) : list N := print_line (run_case (parse_line l)).
