(* C06 — W under an exhausted thread pool: the relay's job is never picked up (wpp = PPend for ever). *)
From Coq Require Import List Bool Arith.
From Baize Require Import C06.Model.
Import ListNotations.

(* the consumer waits for the relay's future (CWait) only after cancel() has failed, i.e. after the job
   was picked up; and a job that was picked up never returns to the queue *)
Definition pool_inv (s : wstate) : Prop := forall r, wcp s = CWait r -> wpp s <> PPend.

Lemma pool_inv_init : pool_inv w_init.
Proof. intros r H. discriminate H. Qed.

Lemma pool_inv_step fixed prod l s s' : pool_inv s -> stepW fixed prod l s = Some s' -> pool_inv s'.
Proof.
  unfold pool_inv. destruct s as [q st cc pp cp g out got]. intros I H r.
  destruct l; cbn in H.
  - (* relay *)
    destruct pp; cbn in H;
      try destruct (prod (nexts g)); try destruct q as [[?|]|]; try destruct st; try destruct fixed; try destruct cc;
      cbn in H; try discriminate H; injection H as <-; cbn; intros Hc Hp; discriminate Hp.
  - (* consumer *)
    destruct cp; cbn in H; try destruct pp; try destruct q as [[?|]|]; cbn in H;
      repeat match type of H with context [if ?b then _ else _] => destruct b end; cbn in H; try discriminate H;
      injection H as <-; cbn; intros Hc Hp; try discriminate Hc; try discriminate Hp;
      exact (I _ eq_refl eq_refl).
  - (* close *)
    destruct cp; cbn in H; try discriminate H. injection H as <-. cbn. intros Hc. discriminate Hc.
Qed.

Lemma pool_inv_reachable fixed prod s : reachable (stepW fixed prod) w_init s -> pool_inv s.
Proof.
  induction 1 as [|s l s' _ IH Hs]; [exact pool_inv_init|exact (pool_inv_step _ _ _ _ _ IH Hs)].
Qed.

(* while the job is queued the consumer's own step is always available (it never waits for the relay),
   and it leaves the job queued or cancels it *)
Lemma pool_exhausted_consumer_free_proof : forall (fixed : bool) (prod : producer) (s : wstate),
  reachable (stepW fixed prod) w_init s ->
  wpp s = PPend -> w_final s = false ->
  exists s', stepC s = Some s' /\ (wpp s' = PPend \/ wpp s' = PCancelled /\ w_final s' = true).
Proof.
  intros fixed prod s Hr. pose proof (pool_inv_reachable _ _ _ Hr) as I. revert I.
  destruct s as [q st cc pp cp g out got]. unfold pool_inv. cbn. intros I Hp Hf. subst pp.
  destruct cp as [| | | |r|r|r|r|r|r|o]; try discriminate Hf;
    try (exfalso; exact (I _ eq_refl eq_refl));
    destruct q as [[k|]|]; cbn; eexists; (split; [reflexivity|]); cbn; auto.
Qed.

(* a response closed at a yield while the job is still queued ends after at most six consumer steps,
   without any step of the relay: the job is cancelled, the generator untouched *)
Lemma pool_exhausted_close_returns_proof : forall (fixed : bool) (prod : producer) (s : wstate),
  wpp s = PPend -> wcp s = CYield ->
  let s' := run (stepW fixed prod) [LX; LC; LC; LC; LC; LC; LC] s in
  wcp s' = CEnd OClosed /\ wpp s' = PCancelled /\ wg s' = wg s /\ wout s' = wout s.
Proof.
  intros fixed prod [q st cc pp cp g out got] Hp Hc. cbn in Hp, Hc. subst pp cp.
  destruct q as [[k|]|]; cbn; auto.
Qed.

(* until it is closed it only pings: from the loop head, with the job queued, three consumer steps lead
   back to a yield having handed over one ping *)
Lemma pool_exhausted_pings_proof : forall (fixed : bool) (prod : producer) (s : wstate),
  wpp s = PPend -> wcp s = CLoopDone -> wq s = None ->
  let s' := run (stepW fixed prod) [LC; LC] s in
  wcp s' = CYield /\ wout s' = wout s ++ [ChPing] /\ wpp s' = PPend /\ wq s' = None.
Proof.
  intros fixed prod [q st cc pp cp g out got] Hp Hc Hq. cbn in Hp, Hc, Hq. subst pp cp q. cbn. auto.
Qed.
