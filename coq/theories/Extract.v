(* Extraction of the executable models.  ExtrOcamlBasic only: bool, option, unit,
   list, prod, sumbool, sumor map to OCaml's own types, andb/orb are inlined;
   N, Z, positive, nat, string, ascii stay the extracted inductive types. *)
From Coq Require Extraction.
From Coq Require Import ExtrOcamlBasic.
From Baize Require C03.IO C17.IO.

Definition c03_run_line := C03.IO.run_line.
Definition c17_run_line := C17.IO.run_line.

Extraction "../ocaml/gen/model.ml" c03_run_line c17_run_line.
