(* C19 — proofs: the WHATWG interpretation of what build_bytes_from_sse writes. *)
From Coq Require Import List NArith ZArith Bool Lia DecimalPos DecimalN.
From Baize Require Import Lib.Wire C19.Model.
Import ListNotations.
Local Open Scope N_scope.

(* ------------------------------------------------------------------ *)
(* lines without CR / LF                                               *)

Definition clean (l : list N) : Prop := Forall (fun c => c <> 10 /\ c <> 13) l.

Definition cleanb (l : list N) : bool := forallb (fun c => negb (c =? 10) && negb (c =? 13)) l.

Lemma cleanb_clean l : cleanb l = true -> clean l.
Proof.
  unfold cleanb, clean. intros H. apply Forall_forall. intros c Hc.
  rewrite forallb_forall in H. specialize (H c Hc).
  apply andb_true_iff in H as [H1 H2].
  apply negb_true_iff in H1, H2. apply N.eqb_neq in H1, H2. split; assumption.
Qed.

Lemma single_line_clean l : single_line l -> clean l.
Proof.
  intros [H13 H10]. apply Forall_forall. intros c Hc.
  split; intros ->; contradiction.
Qed.

Lemma clean_single_line l : clean l -> single_line l.
Proof.
  intros H. unfold clean in H. rewrite Forall_forall in H.
  split; intros Hin; destruct (H _ Hin) as [H10 H13]; congruence.
Qed.

Lemma clean_app a b : clean a -> clean b -> clean (a ++ b).
Proof. intros Ha Hb. apply Forall_app. split; assumption. Qed.

(* ------------------------------------------------------------------ *)
(* split_nl / join_lf                                                  *)

Lemma split_nl_nonnil s : split_nl s <> [].
Proof.
  induction s as [|c r IH]; cbn [split_nl]; [discriminate|].
  destruct (c =? 10); [discriminate|].
  destruct (c =? 13); [destruct (starts_lf r); [exact IH|discriminate]|].
  destruct (split_nl r); discriminate.
Qed.

Lemma split_nl_clean_app l r : clean l -> split_nl (l ++ 10 :: r) = l :: split_nl r.
Proof.
  induction 1 as [|a l [Ha1 Ha2] Hl IH]; cbn [app split_nl].
  - reflexivity.
  - apply N.eqb_neq in Ha1, Ha2. rewrite Ha1, Ha2, IH. reflexivity.
Qed.

Lemma split_nl_clean s : Forall clean (split_nl s).
Proof.
  induction s as [|c r IH]; cbn [split_nl].
  - repeat constructor.
  - destruct (c =? 10) eqn:E10; [constructor; [constructor|exact IH]|].
    destruct (c =? 13) eqn:E13.
    + destruct (starts_lf r); [exact IH|constructor; [constructor|exact IH]].
    + apply N.eqb_neq in E10, E13.
      destruct (split_nl r) as [|w ws].
      * constructor; [|constructor]. constructor; [split; assumption|constructor].
      * inversion IH as [|? ? Hw Hws]; subst. constructor; [|exact Hws].
        constructor; [split; assumption|exact Hw].
Qed.

Lemma join_lf_cons p r : r <> [] -> join_lf (p :: r) = p ++ 10 :: join_lf r.
Proof. destruct r; [congruence|reflexivity]. Qed.

(* re.split followed by "\n".join is exactly the newline normalisation *)
Lemma join_split s : join_lf (split_nl s) = normalise_newlines s.
Proof.
  induction s as [|c r IH]; cbn [split_nl normalise_newlines]; [reflexivity|].
  destruct (c =? 10) eqn:E10.
  - apply N.eqb_eq in E10; subst c.
    rewrite join_lf_cons by apply split_nl_nonnil.
    change (10 =? 13) with false. cbn [app]. rewrite IH. reflexivity.
  - destruct (c =? 13) eqn:E13.
    + destruct (starts_lf r); [exact IH|].
      rewrite join_lf_cons by apply split_nl_nonnil. cbn [app]. rewrite IH. reflexivity.
    + pose proof (split_nl_nonnil r) as Hn.
      destruct (split_nl r) as [|w ws]; [congruence|].
      rewrite <- IH. destruct ws; reflexivity.
Qed.

(* lines each followed by LF *)
Definition term (ls : list (list N)) : list N := concat (map (fun l => l ++ [10]) ls).

Lemma term_cons l ls : term (l :: ls) = l ++ 10 :: term ls.
Proof. unfold term. cbn [map concat]. rewrite <- app_assoc. reflexivity. Qed.

Lemma term_app a b : term (a ++ b) = term a ++ term b.
Proof. unfold term. rewrite map_app, concat_app. reflexivity. Qed.

Lemma join_lf_term ls : join_lf (ls ++ [[]; []]) = term ls ++ [10].
Proof.
  induction ls as [|l ls IH]; [reflexivity|].
  cbn [app]. rewrite join_lf_cons.
  - rewrite IH, term_cons, <- app_assoc. reflexivity.
  - intros H. apply app_eq_nil in H as [_ H]. discriminate.
Qed.

Lemma term_join ls : ls <> [] -> term ls = join_lf ls ++ [10].
Proof.
  induction ls as [|l ls IH]; [congruence|]. intros _.
  rewrite term_cons. destruct ls as [|l2 r].
  - reflexivity.
  - rewrite IH by discriminate. rewrite (join_lf_cons l (l2 :: r)) by discriminate.
    rewrite <- app_assoc. reflexivity.
Qed.

Lemma split_nl_term ls r : Forall clean ls -> split_nl (term ls ++ r) = ls ++ split_nl r.
Proof.
  induction 1 as [|l ls Hl _ IH]; [reflexivity|].
  rewrite term_cons, <- app_assoc. cbn [app].
  rewrite split_nl_clean_app by exact Hl. rewrite IH. reflexivity.
Qed.

(* line splitting distributes over a prefix made of complete clean lines *)
Lemma stream_lines_term ls r : Forall clean ls -> stream_lines (term ls ++ r) = ls ++ stream_lines r.
Proof.
  intros H. unfold stream_lines. rewrite split_nl_term by exact H.
  apply removelast_app, split_nl_nonnil.
Qed.

(* ------------------------------------------------------------------ *)
(* decimal numbers                                                     *)

Definition dstep (acc c : N) : N := acc * 10 + (c - 48).

Lemma fold_digits_acc u : forall acc : positive,
  fold_left dstep (uint_digits u) (Npos acc) = Npos (Pos.of_uint_acc u acc).
Proof.
  induction u as [|u IH|u IH|u IH|u IH|u IH|u IH|u IH|u IH|u IH|u IH]; intros acc;
    cbn [uint_digits fold_left Pos.of_uint_acc]; [reflexivity|..];
    rewrite <- IH; f_equal; unfold dstep; lia.
Qed.

Lemma fold_digits u : fold_left dstep (uint_digits u) 0 = Pos.of_uint u.
Proof.
  induction u as [|u IH|u IH|u IH|u IH|u IH|u IH|u IH|u IH|u IH|u IH];
    cbn [uint_digits fold_left Pos.of_uint]; [reflexivity|exact IH|..];
    rewrite <- fold_digits_acc; reflexivity.
Qed.

Lemma undec_dec n : undec (dec n) = n.
Proof.
  unfold undec, dec. change (fun acc c : N => acc * 10 + (c - 48)) with dstep.
  rewrite fold_digits. apply DecimalN.Unsigned.of_to.
Qed.

Lemma uint_digits_digits u : forallb is_ascii_digit (uint_digits u) = true.
Proof. induction u; cbn [uint_digits forallb]; [reflexivity|exact IHu..]. Qed.

Lemma dec_digits n : forallb is_ascii_digit (dec n) = true.
Proof. apply uint_digits_digits. Qed.

Lemma dec_nonnil n : dec n <> [].
Proof.
  unfold dec. destruct n as [|p]; [discriminate|]. cbn [N.to_uint].
  pose proof (DecimalPos.Unsigned.to_uint_nonnil p) as H.
  destruct (Pos.to_uint p); [congruence|discriminate..].
Qed.

Lemma dec_z_nonneg z : (0 <= z)%Z -> dec_z z = dec (Z.to_N z).
Proof. destruct z; [reflexivity|reflexivity|lia]. Qed.

Lemma digits_clean v : forallb is_ascii_digit v = true -> clean v.
Proof.
  intros H. apply Forall_forall. intros c Hc.
  rewrite forallb_forall in H. specialize (H c Hc).
  split; intros ->; discriminate.
Qed.

(* ------------------------------------------------------------------ *)
(* processing one line written by the encoder                          *)

Definition apply_field (f : field) (s : state) : state :=
  match f with
  | Data _ => s
  | Event n => mkState (data_buf s) n (id_buf s) (reconn s)
  | Id i => mkState (data_buf s) (type_buf s) i (reconn s)
  | Retry z => mkState (data_buf s) (type_buf s) (id_buf s) (Some (Z.to_N z))
  end.

Definition wf_field (f : field) : Prop :=
  match f with
  | Data _ => True
  | Event n => single_line n
  | Id i => single_line i /\ ~ In 0 i
  | Retry z => (0 <= z)%Z
  end.

Lemma wf_event_fields ev : wf_event ev -> forall f, In f ev -> wf_field f.
Proof.
  intros (_ & He & Hi & Hr) f Hf. destruct f as [d|n|i|z]; cbn [wf_field].
  - exact I.
  - exact (He _ Hf).
  - exact (Hi _ Hf).
  - exact (Hr _ Hf).
Qed.

Lemma existsb_nul i : ~ In 0 i -> existsb (N.eqb 0) i = false.
Proof.
  intros H. destruct (existsb (N.eqb 0) i) eqn:E; [|reflexivity].
  apply existsb_exists in E as (x & Hx & Hx0). apply N.eqb_eq in Hx0. subst x. contradiction.
Qed.

Lemma process_line_event s n : process_line s (field_line (Event n)) = apply_field (Event n) s.
Proof. reflexivity. Qed.

Lemma process_line_id s i :
  process_line s (field_line (Id i)) =
  if existsb (N.eqb 0) i then s else apply_field (Id i) s.
Proof. reflexivity. Qed.

Lemma process_line_retry s z :
  process_line s (field_line (Retry z)) =
  if negb (is_nil (dec_z z)) && forallb is_ascii_digit (dec_z z)
  then mkState (data_buf s) (type_buf s) (id_buf s) (Some (undec (dec_z z)))
  else s.
Proof. reflexivity. Qed.

Lemma process_line_data s l :
  process_line s (data_line l) = mkState (data_buf s ++ l ++ [10]) (type_buf s) (id_buf s) (reconn s).
Proof. reflexivity. Qed.

Lemma process_field_line f s :
  wf_field f -> is_data f = false -> process_line s (field_line f) = apply_field f s.
Proof.
  destruct f as [d|n|i|z]; cbn [wf_field is_data]; intros Hwf Hd.
  - discriminate.
  - apply process_line_event.
  - rewrite process_line_id. destruct Hwf as [_ H0]. rewrite existsb_nul by exact H0. reflexivity.
  - rewrite process_line_retry. rewrite dec_z_nonneg by exact Hwf.
    rewrite dec_digits, undec_dec.
    pose proof (dec_nonnil (Z.to_N z)) as Hn. destruct (dec (Z.to_N z)); [congruence|reflexivity].
Qed.

Lemma field_line_nonnil f : field_line f <> [].
Proof. destruct f; discriminate. Qed.

Lemma data_line_nonnil l : data_line l <> [].
Proof. discriminate. Qed.

Lemma field_line_clean f : wf_field f -> is_data f = false -> clean (field_line f).
Proof.
  destruct f as [d|n|i|z]; cbn [wf_field is_data]; intros Hwf Hd; [discriminate|..];
    unfold field_line; cbn [key_name value_text];
    (apply clean_app; [apply cleanb_clean; reflexivity|]);
    (apply clean_app; [apply cleanb_clean; reflexivity|]).
  - apply single_line_clean, Hwf.
  - apply single_line_clean, Hwf.
  - rewrite dec_z_nonneg by exact Hwf. apply digits_clean, dec_digits.
Qed.

Lemma data_line_clean l : clean l -> clean (data_line l).
Proof. intros H. unfold data_line. apply clean_app; [apply cleanb_clean; reflexivity|exact H]. Qed.

(* ------------------------------------------------------------------ *)
(* the lines of one encoded event                                      *)

Definition flines (ev : event) : list (list N) :=
  map field_line (filter (fun f => negb (is_data f)) ev).

Definition dlines (ev : event) : list (list N) :=
  match ev_data ev with
  | Some d => map data_line (split_nl d)
  | None => []
  end.

Lemma build_term ev : build_bytes_from_sse ev = term (flines ev ++ dlines ev ++ [[]]).
Proof.
  unfold build_bytes_from_sse. cbv zeta. fold (dlines ev). fold (flines ev).
  rewrite (app_assoc (flines ev)), join_lf_term.
  rewrite (app_assoc (flines ev) (dlines ev) [[]]), (term_app (flines ev ++ dlines ev) [[]]).
  reflexivity.
Qed.

Lemma flines_clean ev : (forall f, In f ev -> wf_field f) -> Forall clean (flines ev).
Proof.
  intros H. unfold flines. apply Forall_forall. intros l Hl.
  apply in_map_iff in Hl as (f & <- & Hf). apply filter_In in Hf as [Hf Hd].
  apply negb_true_iff in Hd. apply field_line_clean; [apply H; exact Hf|exact Hd].
Qed.

Lemma dlines_clean ev : Forall clean (dlines ev).
Proof.
  unfold dlines. destruct (ev_data ev) as [d|]; [|constructor].
  apply Forall_forall. intros l Hl. apply in_map_iff in Hl as (w & <- & Hw).
  apply data_line_clean. pose proof (split_nl_clean d) as H. rewrite Forall_forall in H. apply H, Hw.
Qed.

Lemma flines_nonnil ev : Forall (fun l => l <> []) (flines ev).
Proof.
  unfold flines. apply Forall_forall. intros l Hl.
  apply in_map_iff in Hl as (f & <- & _). apply field_line_nonnil.
Qed.

Lemma dlines_nonnil ev : Forall (fun l => l <> []) (dlines ev).
Proof.
  unfold dlines. destruct (ev_data ev) as [d|]; [|constructor].
  apply Forall_forall. intros l Hl. apply in_map_iff in Hl as (w & <- & _). apply data_line_nonnil.
Qed.

(* non-blank lines only change the state *)
Lemma run_fields ls : Forall (fun l => l <> []) ls ->
  forall s rest, run s (ls ++ rest) = run (fold_left process_line ls s) rest.
Proof.
  induction 1 as [|l ls Hl _ IH]; intros s rest; [reflexivity|].
  cbn [app run fold_left]. destruct l; [congruence|]. cbn [is_nil]. apply IH.
Qed.

Lemma fold_flines ev : (forall f, In f ev -> wf_field f) ->
  forall s, fold_left process_line (flines ev) s = fold_left (fun s f => apply_field f s) ev s.
Proof.
  unfold flines. induction ev as [|f ev IH]; intros H s; [reflexivity|].
  cbn [filter fold_left]. destruct (is_data f) eqn:Ed; cbn [negb].
  - destruct f; try discriminate. cbn [apply_field]. apply IH. intros g Hg. apply H. right. exact Hg.
  - cbn [map fold_left]. rewrite process_field_line; [|apply H; left; reflexivity|exact Ed].
    apply IH. intros g Hg. apply H. right. exact Hg.
Qed.

Lemma fold_dlines ls : forall s,
  fold_left process_line (map data_line ls) s =
  mkState (data_buf s ++ term ls) (type_buf s) (id_buf s) (reconn s).
Proof.
  induction ls as [|l ls IH]; intros s.
  - cbn. rewrite app_nil_r. destruct s; reflexivity.
  - cbn [map fold_left]. rewrite IH, process_line_data. cbn [data_buf type_buf id_buf reconn].
    rewrite term_cons, <- !app_assoc. reflexivity.
Qed.

(* ------------------------------------------------------------------ *)
(* a dict has each key once: the lookups say what the fold computes    *)

Lemma ev_name_none ev : ~ In KEvent (map kind_of ev) -> ev_name ev = None.
Proof.
  unfold ev_name. induction ev as [|f ev IH]; [reflexivity|]. cbn [map In find]. intros H.
  destruct f; cbn [kind_of] in H; try (apply IH; tauto). exfalso. apply H. left. reflexivity.
Qed.

Lemma ev_id_none ev : ~ In KId (map kind_of ev) -> ev_id ev = None.
Proof.
  unfold ev_id. induction ev as [|f ev IH]; [reflexivity|]. cbn [map In find]. intros H.
  destruct f; cbn [kind_of] in H; try (apply IH; tauto). exfalso. apply H. left. reflexivity.
Qed.

Lemma ev_retry_none ev : ~ In KRetry (map kind_of ev) -> ev_retry ev = None.
Proof.
  unfold ev_retry. induction ev as [|f ev IH]; [reflexivity|]. cbn [map In find]. intros H.
  destruct f; cbn [kind_of] in H; try (apply IH; tauto). exfalso. apply H. left. reflexivity.
Qed.

Definition retry_or (ev : event) (d : option N) : option N :=
  match ev_retry ev with Some z => Some (Z.to_N z) | None => d end.

Lemma fold_apply ev : NoDup (map kind_of ev) -> forall s,
  fold_left (fun s f => apply_field f s) ev s =
  mkState (data_buf s) (or_else (ev_name ev) (type_buf s)) (or_else (ev_id ev) (id_buf s))
          (retry_or ev (reconn s)).
Proof.
  induction ev as [|f ev IH]; intros Hnd s.
  - destruct s; reflexivity.
  - cbn [map] in Hnd. inversion Hnd as [|k ks Hnotin Hnd']; subst.
    cbn [fold_left]. rewrite IH by exact Hnd'.
    destruct f as [d|n|i|z]; cbn [kind_of] in Hnotin; cbn [apply_field data_buf type_buf id_buf reconn].
    + reflexivity.
    + unfold retry_or. rewrite (ev_name_none ev Hnotin). reflexivity.
    + unfold retry_or. rewrite (ev_id_none ev Hnotin). reflexivity.
    + unfold retry_or. rewrite (ev_retry_none ev Hnotin). reflexivity.
Qed.

(* ------------------------------------------------------------------ *)
(* one block                                                           *)

Lemma strip_last_lf_app x : strip_last_lf (x ++ [10]) = x.
Proof.
  unfold strip_last_lf. rewrite rev_app_distr. cbn [rev app].
  change (10 =? 10) with true. cbv iota. apply rev_involutive.
Qed.

Definition data_after (ev : event) : list N :=
  match ev_data ev with Some d => normalise_newlines d ++ [10] | None => [] end.

Lemma fold_event ev s : wf_event ev ->
  fold_left process_line (flines ev ++ dlines ev) s =
  mkState (data_buf s ++ data_after ev)
          (or_else (ev_name ev) (type_buf s)) (or_else (ev_id ev) (id_buf s)) (retry_or ev (reconn s)).
Proof.
  intros Hwf. rewrite fold_left_app.
  rewrite fold_flines by (apply wf_event_fields; exact Hwf).
  rewrite fold_apply by (apply Hwf).
  unfold dlines, data_after. destruct (ev_data ev) as [d|].
  - rewrite fold_dlines. cbn [data_buf type_buf id_buf reconn].
    rewrite term_join by apply split_nl_nonnil. rewrite join_split. reflexivity.
  - cbn [fold_left]. rewrite app_nil_r. reflexivity.
Qed.

Lemma event_lines_clean ev : wf_event ev -> Forall clean (flines ev ++ dlines ev ++ [[]]).
Proof.
  intros Hwf. apply Forall_app. split; [apply flines_clean, wf_event_fields, Hwf|].
  apply Forall_app. split; [apply dlines_clean|]. repeat constructor.
Qed.

Lemma block_step s ev rest : idle s -> wf_event ev ->
  interpret_from s (build_bytes_from_sse ev ++ rest) =
  expected_block s ev :: interpret_from (state_after s ev) rest.
Proof.
  intros [Hd Ht] Hwf. unfold interpret_from. rewrite build_term.
  rewrite stream_lines_term by (apply event_lines_clean; exact Hwf).
  rewrite (app_assoc (flines ev)), <- app_assoc.
  rewrite run_fields by (apply Forall_app; split; [apply flines_nonnil|apply dlines_nonnil]).
  rewrite fold_event by exact Hwf. rewrite Hd, Ht.
  cbn [app run is_nil dispatch fst snd data_buf type_buf id_buf reconn].
  unfold expected_block, state_after, data_after, retry_or.
  destruct (ev_data ev) as [d|].
  - rewrite strip_last_lf_app. destruct (normalise_newlines d); reflexivity.
  - reflexivity.
Qed.

(* ------------------------------------------------------------------ *)
(* the ping                                                            *)

Lemma ping_term : ping = term [lit ": ping"; []].
Proof. reflexivity. Qed.

Lemma ping_comment s : process_line s (lit ": ping") = s.
Proof. reflexivity. Qed.

Lemma idle_dispatch s : idle s -> dispatch s = (idle_block s, s).
Proof. destruct s as [d t i r]. intros [Hd Ht]. cbn in Hd, Ht. subst. reflexivity. Qed.

Lemma ping_step s rest : idle s ->
  interpret_from s (ping ++ rest) = idle_block s :: interpret_from s rest.
Proof.
  intros Hs. unfold interpret_from. rewrite ping_term.
  rewrite stream_lines_term by (constructor; [apply cleanb_clean; reflexivity|repeat constructor]).
  cbn [app run]. change (is_nil (lit ": ping")) with false. cbv iota.
  rewrite ping_comment. cbn [is_nil]. rewrite idle_dispatch by exact Hs. reflexivity.
Qed.

(* ------------------------------------------------------------------ *)
(* sequences                                                           *)

Lemma state_after_idle s ev : idle (state_after s ev).
Proof. split; reflexivity. Qed.

Lemma sequence_from items : Forall wf_item items -> forall s, idle s ->
  interpret_from s (render_all items) = expected_blocks s items.
Proof.
  induction 1 as [|it items Hit _ IH]; intros s Hs; [reflexivity|].
  unfold render_all. cbn [map concat]. fold (render_all items).
  destruct it as [e|]; cbn [render expected_blocks].
  - rewrite block_step by assumption. f_equal. apply IH, state_after_idle.
  - rewrite ping_step by assumption. f_equal. apply IH, Hs.
Qed.

(* the first character written is never a byte order mark *)
Definition head_ok (l : list N) : bool :=
  match l with c :: _ => negb (c =? 65279) | [] => false end.

Lemma strip_bom_head_ok l : head_ok l = true -> strip_bom l = l.
Proof. destruct l as [|c r]; [discriminate|]. cbn. intros H. apply negb_true_iff in H. rewrite H. reflexivity. Qed.

Lemma head_ok_app a b : head_ok a = true -> head_ok (a ++ b) = true.
Proof. destruct a; [discriminate|]. intros H; exact H. Qed.

Lemma field_line_head f : head_ok (field_line f) = true.
Proof. destruct f; reflexivity. Qed.

Lemma build_head_ok ev : head_ok (build_bytes_from_sse ev) = true.
Proof.
  rewrite build_term. unfold flines, dlines.
  destruct (filter (fun f => negb (is_data f)) ev) as [|f fs].
  - cbn [map app]. destruct (ev_data ev) as [d|]; [|reflexivity].
    pose proof (split_nl_nonnil d) as Hn. destruct (split_nl d) as [|w ws]; [congruence|reflexivity].
  - cbn [map app]. rewrite term_cons. apply head_ok_app, field_line_head.
Qed.

Lemma render_head_ok it : head_ok (render it) = true.
Proof. destruct it; [apply build_head_ok|reflexivity]. Qed.

Lemma strip_bom_render_all items : strip_bom (render_all items) = render_all items.
Proof.
  destruct items as [|it items]; [reflexivity|].
  apply strip_bom_head_ok. unfold render_all. cbn [map concat]. apply head_ok_app, render_head_ok.
Qed.

Lemma idle_init : idle init.
Proof. split; reflexivity. Qed.

Lemma sequence_in_order_proof items : Forall wf_item items ->
  interpret (render_all items) = expected_blocks init items.
Proof.
  intros H. unfold interpret. rewrite strip_bom_render_all. apply sequence_from; [exact H|exact idle_init].
Qed.

Lemma render_all_single it : render_all [it] = render it.
Proof. unfold render_all. cbn [map concat]. apply app_nil_r. Qed.

Lemma sse_roundtrip_proof ev : wf_event ev ->
  interpret (build_bytes_from_sse ev) = [expected_block init ev].
Proof.
  intros H. change (build_bytes_from_sse ev) with (render (Ev ev)).
  rewrite <- render_all_single. rewrite sequence_in_order_proof; [reflexivity|].
  constructor; [exact H|constructor].
Qed.

(* ------------------------------------------------------------------ *)
(* what a page sees                                                    *)

Lemma messages_expected items : forall s,
  messages (expected_blocks s items) = deliveries (id_buf s) items.
Proof.
  induction items as [|it items IH]; intros s; [reflexivity|].
  destruct it as [e|]; cbn [expected_blocks deliveries]; unfold messages in *; cbn [flat_map].
  - rewrite IH. unfold message_of, expected_block, state_after.
    cbn [b_dispatched b_type b_data b_id id_buf].
    destruct (ev_data e) as [d|]; [|reflexivity].
    destruct (ev_name e) as [n|]; reflexivity.
  - rewrite IH. reflexivity.
Qed.

Lemma sequence_messages_proof items : Forall wf_item items ->
  messages (interpret (render_all items)) = deliveries [] items.
Proof. intros H. rewrite sequence_in_order_proof by exact H. apply messages_expected. Qed.

Lemma ping_ignored_proof :
  stream_lines ping = [lit ": ping"; []] /\
  (forall s, process_line s (lit ": ping") = s) /\
  (forall s rest, idle s ->
     interpret_from s (ping ++ rest) = idle_block s :: interpret_from s rest) /\
  (forall s rest, idle s ->
     messages (interpret_from s (ping ++ rest)) = messages (interpret_from s rest)) /\
  interpret ping = [idle_block init].
Proof.
  split; [reflexivity|]. split; [exact ping_comment|]. split; [exact ping_step|].
  split; [|reflexivity].
  intros s rest Hs. rewrite ping_step by exact Hs. reflexivity.
Qed.

Lemma sse_roundtrip_messages_proof ev : wf_event ev ->
  messages (interpret (build_bytes_from_sse ev)) =
  match ev_data ev with
  | Some d =>
      [mkMessage (match ev_name ev with
                  | Some n => if is_nil n then lit "message" else n
                  | None => lit "message"
                  end)
                 (normalise_newlines d) (or_else (ev_id ev) [])]
  | None => []
  end.
Proof.
  intros H. change (build_bytes_from_sse ev) with (render (Ev ev)).
  rewrite <- render_all_single. rewrite sequence_messages_proof by (constructor; [exact H|constructor]).
  cbn [deliveries]. destruct (ev_data ev); reflexivity.
Qed.

Lemma wf_data_only d : wf_event [Data d].
Proof.
  split; [cbn [map kind_of]; apply NoDup_cons; [intros H; exact H|apply NoDup_nil]|].
  split; [|split]; intros x [Hx|[]]; discriminate Hx.
Qed.

Lemma sse_data_any_text_proof d :
  messages (interpret (build_bytes_from_sse [Data d])) =
  [mkMessage (lit "message") (normalise_newlines d) []].
Proof. rewrite sse_roundtrip_messages_proof by apply wf_data_only. reflexivity. Qed.

(* ------------------------------------------------------------------ *)
(* Examples: the hypotheses are satisfiable, the statements are not vacuous,
   and the hypotheses on id are needed.                                 *)

Example wf_example :
  wf_event [Retry 3000; Event (lit "update"); Data [123; 8232; 13; 10; 32; 58; 125; 10]; Id (lit "a:b 7")].
Proof.
  split; [cbn; repeat constructor; cbn; intuition discriminate|].
  split; [|split].
  - intros s H. cbn in H. destruct H as [H|[H|[H|[H|[]]]]]; try discriminate H.
    injection H as <-. split; cbn; intuition discriminate.
  - intros s H. cbn in H. destruct H as [H|[H|[H|[H|[]]]]]; try discriminate H.
    injection H as <-. split; [split|]; cbn; intuition discriminate.
  - intros z H. cbn in H. destruct H as [H|[H|[H|[H|[]]]]]; try discriminate H.
    injection H as <-. lia.
Qed.

(* U+2028 inside the data stays inside one line *)
Example ex_u2028 :
  build_bytes_from_sse [Data [97; 8232; 98]] = lit "data: a" ++ [8232; 98; 10; 10] /\
  interpret (build_bytes_from_sse [Data [97; 8232; 98]]) = [mkBlock [] [97; 8232; 98] [] None true].
Proof. vm_compute. split; reflexivity. Qed.

(* all the other "universal newlines" are data, CRLF / CR / LF are the line ends *)
Example ex_separators :
  interpret (build_bytes_from_sse [Data [11; 12; 28; 29; 30; 133; 8233; 13; 10; 120; 13; 121; 10; 122]]) =
  [mkBlock [] [11; 12; 28; 29; 30; 133; 8233; 10; 120; 10; 121; 10; 122] [] None true].
Proof. vm_compute. reflexivity. Qed.

(* a trailing newline is kept *)
Example ex_trailing_lf :
  interpret (build_bytes_from_sse [Data [97; 10]]) = [mkBlock [] [97; 10] [] None true].
Proof. vm_compute. reflexivity. Qed.

(* the empty text is dispatched as the empty text *)
Example ex_empty_data :
  build_bytes_from_sse [Data []] = lit "data: " ++ [10; 10] /\
  interpret (build_bytes_from_sse [Data []]) = [mkBlock [] [] [] None true].
Proof. vm_compute. split; reflexivity. Qed.

(* leading spaces and colons survive *)
Example ex_space_colon :
  interpret (build_bytes_from_sse [Id (lit " :i"); Data (lit " : x:y "); Event (lit " e:")]) =
  [mkBlock (lit " e:") (lit " : x:y ") (lit " :i") None true].
Proof. vm_compute. reflexivity. Qed.

(* without a data key nothing is dispatched; the block record has name, id, retry *)
Example ex_no_data :
  build_bytes_from_sse [Event (lit "only-event")] = lit "event: only-event" ++ [10; 10] /\
  interpret (build_bytes_from_sse [Event (lit "only-event"); Retry 15; Id (lit "9")]) =
  [mkBlock (lit "only-event") [] (lit "9") (Some 15) false].
Proof. vm_compute. split; reflexivity. Qed.

(* events and pings in order; the id sticks until it is set again *)
Example ex_sequence :
  messages (interpret (render_all [Ev [Id (lit "1"); Data (lit "a")]; Ping; Ev [Event (lit "e")]; Ping; Ping;
                                   Ev [Data [98; 13; 99]; Event (lit "n")]; Ev []; Ev [Data []; Id []]])) =
  [mkMessage (lit "message") (lit "a") (lit "1"); mkMessage (lit "n") [98; 10; 99] (lit "1");
   mkMessage (lit "message") [] []].
Proof. vm_compute. reflexivity. Qed.

(* the hypothesis "no NUL in the id" is needed: the standard ignores such an id *)
Example ex_nul_id_is_dropped :
  interpret (build_bytes_from_sse [Id [48; 0]; Data (lit "x")]) = [mkBlock [] (lit "x") [] None true].
Proof. vm_compute. reflexivity. Qed.

(* the hypothesis "single-line name" is needed: a line break in the name ends the field *)
Example ex_multiline_name_injects :
  interpret (build_bytes_from_sse [Event (lit "a" ++ [10] ++ lit "data: forged"); Data (lit "x")]) =
  [mkBlock (lit "a") (lit "forged" ++ [10] ++ lit "x") [] None true].
Proof. vm_compute. reflexivity. Qed.

(* ------------------------------------------------------------------ *)
(* what the normalisation means                                        *)

Lemma normalise_no_cr s : ~ In 13 s -> normalise_newlines s = s.
Proof.
  induction s as [|c r IH]; [reflexivity|]. intros H. cbn [normalise_newlines].
  destruct (c =? 13) eqn:E.
  - apply N.eqb_eq in E. subst c. exfalso. apply H. left. reflexivity.
  - rewrite IH; [reflexivity|]. intros Hr. apply H. right. exact Hr.
Qed.

Lemma normalise_has_no_cr s : ~ In 13 (normalise_newlines s).
Proof.
  induction s as [|c r IH]; [intros []|]. cbn [normalise_newlines].
  destruct (c =? 13) eqn:E.
  - destruct (starts_lf r); [exact IH|]. intros [H|H]; [discriminate H|exact (IH H)].
  - apply N.eqb_neq in E. intros [H|H]; [congruence|exact (IH H)].
Qed.

Lemma normalise_meaning_proof :
  (forall s, ~ In 13 s -> normalise_newlines s = s) /\
  (forall s, ~ In 13 (normalise_newlines s)) /\
  (forall a b, ~ In 13 a -> normalise_newlines (a ++ 13 :: 10 :: b) = a ++ 10 :: normalise_newlines b) /\
  (forall a b, ~ In 13 a -> starts_lf b = false ->
               normalise_newlines (a ++ 13 :: b) = a ++ 10 :: normalise_newlines b).
Proof.
  split; [exact normalise_no_cr|]. split; [exact normalise_has_no_cr|]. split.
  - induction a as [|c a IH]; intros b H.
    + cbn. destruct (10 =? 13) eqn:E; [discriminate E|reflexivity].
    + cbn [app normalise_newlines]. destruct (c =? 13) eqn:E.
      * apply N.eqb_eq in E. subst c. exfalso. apply H. left. reflexivity.
      * rewrite IH; [reflexivity|]. intros Hr. apply H. right. exact Hr.
  - induction a as [|c a IH]; intros b H Hb.
    + cbn [app normalise_newlines]. change (13 =? 13) with true. cbv iota. rewrite Hb. reflexivity.
    + cbn [app normalise_newlines]. destruct (c =? 13) eqn:E.
      * apply N.eqb_eq in E. subst c. exfalso. apply H. left. reflexivity.
      * rewrite IH; [reflexivity| |exact Hb]. intros Hr. apply H. right. exact Hr.
Qed.

(* ------------------------------------------------------------------ *)
(* the encoder as it was before the repair does not satisfy sse_roundtrip *)

(* U+2028 inside the data arrives as a line feed *)
Example orig_breaks_at_u2028 :
  interpret (build_bytes_from_sse_orig [Data [97; 8232; 98]]) = [mkBlock [] [97; 10; 98] [] None true].
Proof. vm_compute. reflexivity. Qed.

(* a trailing newline is lost *)
Example orig_drops_trailing_newline :
  interpret (build_bytes_from_sse_orig [Data [97; 10]]) = [mkBlock [] [97] [] None true].
Proof. vm_compute. reflexivity. Qed.

(* the empty text is never dispatched *)
Example orig_empty_data_not_dispatched :
  build_bytes_from_sse_orig [Data []] = [10] /\
  interpret (build_bytes_from_sse_orig [Data []]) = [mkBlock [] [] [] None false].
Proof. vm_compute. split; reflexivity. Qed.

Lemma orig_refuted_proof :
  exists ev, wf_event ev /\
    interpret (build_bytes_from_sse_orig ev) <> [expected_block init ev] /\
    messages (interpret (build_bytes_from_sse_orig ev)) = [].
Proof.
  exists [Data []]. split; [apply wf_data_only|]. split; [|reflexivity].
  vm_compute. discriminate.
Qed.

Lemma orig_refuted_unicode_proof :
  exists d, messages (interpret (build_bytes_from_sse_orig [Data d])) <>
            [mkMessage (lit "message") (normalise_newlines d) []].
Proof. exists [97; 8232; 98]. vm_compute. discriminate. Qed.


(* ---------- the charset a response announces (seed C19-12) ---------- *)

Definition content_types (h : list (list N * list N)) : list (list N) :=
  map snd (filter (fun p => list_eqb (fst p) (lit "content-type")) h).

Lemma announced_charset_proof : forall (asgi : bool) (cs : list N),
  content_types (sse_headers_cs asgi cs) = [lit "text/event-stream; charset=" ++ cs] /\
  sse_headers asgi = sse_headers_cs asgi (lit "utf-8").
Proof.
  intros asgi cs. split.
  - destruct asgi; reflexivity.
  - destruct asgi; reflexivity.
Qed.
