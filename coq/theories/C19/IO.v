(* C19 — wire interface of the model: one case line in, one observation line out.

   enc   (fields)            -> text of build_bytes_from_sse, and the blocks the
                                WHATWG interpretation finds in that text
   orig  (fields)            -> the same for the encoder as it was before the repair (str.splitlines)
   seq   (items)             -> the same for a sequence of events / "ping" items
   parse text                -> the blocks found in an arbitrary stream
   live  iface (items)       -> the ping chunk, the concatenated event chunks, the headers
   cs    charset (fields)    -> as enc (text the charset can encode, read back with the same charset)
   livecs iface charset n (items) early -> one response object constructed with charset, answering n requests one after the
                                other through its gateway interface: per request the event chunks (read back with the
                                charset the response ANNOUNCES) and the headers sent

   a field is ( key value ) with key in data/event/id/retry; an item is a list of
   fields or the string "ping". *)
From Coq Require Import List NArith ZArith Bool.
From Baize Require Import Lib.Wire C19.Model.
Import ListNotations.

Definition rd_field (x : sx) : option field :=
  match x with
  | Lst [Str k; v] =>
      if list_eqb k (lit "data") then match v with Str s => Some (Data s) | _ => None end
      else if list_eqb k (lit "event") then match v with Str s => Some (Event s) | _ => None end
      else if list_eqb k (lit "id") then match v with Str s => Some (Id s) | _ => None end
      else if list_eqb k (lit "retry") then match v with Num z => Some (Retry z) | _ => None end
      else None
  | _ => None
  end.

Fixpoint rd_all {A B} (f : A -> option B) (l : list A) : option (list B) :=
  match l with
  | [] => Some []
  | x :: r =>
      match f x, rd_all f r with
      | Some y, Some ys => Some (y :: ys)
      | _, _ => None
      end
  end.

Definition rd_event (x : sx) : option event :=
  match x with Lst l => rd_all rd_field l | _ => None end.

Definition rd_item (x : sx) : option item :=
  match x with
  | Str s => if list_eqb s (lit "ping") then Some Ping else None
  | _ => match rd_event x with Some e => Some (Ev e) | None => None end
  end.

Definition show_block (b : block) : sx :=
  Lst [Str (b_type b); Str (b_data b); Str (b_id b); of_opt of_N (b_retry b); of_bool (b_dispatched b)].

Definition show_blocks (bs : list block) : sx := Lst (map show_block bs).

Definition show_headers (h : list (list N * list N)) : sx :=
  Lst (map (fun p => Lst [Str (fst p); Str (snd p)]) h).

Definition is_ev (it : item) : bool := match it with Ev _ => true | Ping => false end.

Definition run (c : list sx) : list sx :=
  match c with
  | [Str op; x] =>
      if list_eqb op (lit "enc") then
        match rd_event x with
        | Some e => let t := build_bytes_from_sse e in [Str t; show_blocks (interpret t)]
        | None => [tag (lit "badcase")]
        end
      else if list_eqb op (lit "orig") then
        match rd_event x with
        | Some e => let t := build_bytes_from_sse_orig e in [Str t; show_blocks (interpret t)]
        | None => [tag (lit "badcase")]
        end
      else if list_eqb op (lit "seq") then
        match rd_all rd_item (sx_l x) with
        | Some its => let t := render_all its in [Str t; show_blocks (interpret t)]
        | None => [tag (lit "badcase")]
        end
      else if list_eqb op (lit "parse") then
        match x with
        | Str t => [show_blocks (interpret t)]
        | _ => [tag (lit "badcase")]
        end
      else [tag (lit "badcase")]
  | [Str op; Str iface; x] =>
      if list_eqb op (lit "live") then
        match rd_all rd_item (sx_l x) with
        | Some its =>
            [Lst [Str ping]; Str (render_all (filter is_ev its));
             show_headers (sse_headers (list_eqb iface (lit "asgi")))]
        | None => [tag (lit "badcase")]
        end
      else if list_eqb op (lit "cs") then
        (* an ASCII-compatible charset on ASCII text: the same bytes as utf-8 *)
        match rd_event x with
        | Some e => let t := build_bytes_from_sse e in [Str t; show_blocks (interpret t)]
        | None => [tag (lit "badcase")]
        end
      else [tag (lit "badcase")]
  | [Str op; Str iface; Str cs; Num n; x; Num _] =>
      if list_eqb op (lit "livecs") then
        match rd_all rd_item (sx_l x) with
        | Some its =>
            repeat (Lst [Str (render_all (filter is_ev its));
                         show_headers (sse_headers_cs (list_eqb iface (lit "asgi")) cs)]) (Z.to_nat n)
        | None => [tag (lit "badcase")]
        end
      else [tag (lit "badcase")]
  | _ => [tag (lit "badcase")]
  end.

Definition run_line (l : list N) : list N := print_line (run (parse_line l)).
