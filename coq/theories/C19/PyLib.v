(* C19 — the Python operations that tools/py2coq_c19.py maps build_bytes_from_sse (baize/responses.py) onto.
   Executable definitions only.  tools/py2coq_c19.py (pylib_check) evaluates every function of this file inside coqc
   on every check run and compares the results with what the running interpreter gives for the same arguments.

   A str is the list of its code points (PyStr.str), a bytes object the list of its bytes, a dict the list of its
   items in insertion order; a tuple, a list, a dict view, a map object, a generator and a chain object are all the
   list of what they yield (the translator makes sure that an iterator is consumed once and that a dict is not changed
   while something that reads it lazily is still to be consumed). *)
From Coq Require Import List NArith ZArith Bool.
From Baize Require Import Lib.Wire Lib.PyStr Lib.PyList.
Import ListNotations.
Local Open Scope N_scope.

(* a value of the ServerSentEvent dict: a str or an int *)
Inductive pyval : Type :=
| VStr (s : str)
| VInt (z : Z).

Definition dict : Type := list (str * pyval).

(* k in d *)
Definition dict_contains (k : str) (d : dict) : bool := PyList.dict_mem PyStr.str_eqb k d.

(* d.pop(k): the value and the dict afterwards; None stands for KeyError.  (As PyList.dict_delitem: every item with
   that key goes; a dict has at most one.) *)
Definition dict_pop (k : str) (d : dict) : option (pyval * dict) :=
  match PyList.dict_get PyStr.str_eqb k d with
  | Some v => Some (v, filter (fun p => negb (PyStr.str_eqb (fst p) k)) d)
  | None => None
  end.

(* d.keys(), d.values(), consumed while d is not changed *)
Definition dict_keys (d : dict) : list str := map fst d.
Definition dict_values (d : dict) : list pyval := map snd d.

(* the argument of re.split must be a str; None stands for TypeError *)
Definition as_str (v : pyval) : option str :=
  match v with VStr s => Some s | VInt _ => None end.

(* format(v, "") inside an f-string: a str is itself, an int is written in decimal *)
Definition str_of_val (v : pyval) : str :=
  match v with VStr s => s | VInt z => dec_z z end.

(* f"...{a}...{b}": the pieces one after the other *)
Fixpoint fstr (parts : list str) : str :=
  match parts with
  | [] => []
  | [p] => p
  | p :: r => p ++ fstr r
  end.

(* map(f, a, b): stops with the shorter one *)
Fixpoint map2 {A B C : Type} (f : A -> B -> C) (a : list A) (b : list B) : list C :=
  match a, b with
  | x :: a', y :: b' => f x y :: map2 f a' b'
  | _, _ => []
  end.

(* itertools.chain(a, b, ...) *)
Fixpoint chain {A : Type} (ls : list (list A)) : list A :=
  match ls with
  | [] => []
  | [l] => l
  | l :: r => l ++ chain r
  end.

(* sep.join(parts), bytes *)
Fixpoint bytes_join (sep : list N) (parts : list (list N)) : list N :=
  match parts with
  | [] => []
  | [p] => p
  | p :: r => p ++ sep ++ bytes_join sep r
  end.

(* re.split(p, s) where the pattern p is an alternation a1|a2|... of non-empty literal texts (no group, no
   metacharacter).  At a position the regex engine takes the first alternative that is there; a match is a break and
   the scan goes on after it; the pieces between the breaks, in order (never the empty list). *)
Fixpoint is_prefix (a s : str) : bool :=
  match a, s with
  | [], _ => true
  | x :: a', y :: s' => (y =? x) && is_prefix a' s'
  | _ :: _, [] => false
  end.

(* the length of the first alternative that is at the head of s *)
Fixpoint match_len (alts : list str) (s : str) : option nat :=
  match alts with
  | [] => None
  | a :: r => if is_prefix a s then Some (length a) else match_len r s
  end.

(* [skip]: how many more characters belong to the match that was found *)
Fixpoint re_split_go (alts : list str) (skip : nat) (s : str) : list str :=
  match s with
  | [] => [[]]
  | c :: r =>
      match skip with
      | S k => re_split_go alts k r
      | O =>
          match match_len alts s with
          | Some (S k) => [] :: re_split_go alts k r
          | _ =>
              match re_split_go alts O r with
              | w :: ws => (c :: w) :: ws
              | [] => [[c]]                          (* unreachable *)
              end
          end
      end
  end.

Definition re_split_alts (alts : list str) (s : str) : list str := re_split_go alts O s.
