(* C19 — Server-sent events.  Executable definitions only (no proofs).

   Part 1 models baize/responses.py build_bytes_from_sse (as repaired: the data
   text is split with re.split(r"\r\n|\r|\n", ...)), the ping chunk and the
   required headers of SendEventResponse (baize/wsgi/responses.py,
   baize/asgi/responses.py).

   Part 2 is the SPECIFICATION: the "event stream interpretation" algorithm of
   the WHATWG HTML standard (section 9.2.6), transcribed line by line, and the
   function that says what an event text must decode to.

   Everything is at the level of code points (list N).  The bytes on the wire are
   the UTF-8 encoding of these code points and an EventSource decodes the stream
   as UTF-8; the correspondence harness decodes the implementation's real bytes
   as UTF-8 before comparing, so the byte level is covered there. *)
From Coq Require Import List NArith ZArith Bool.
From Baize Require Import Lib.Wire.
Import ListNotations.
Local Open Scope N_scope.

(* LF = 10, CR = 13, ':' = 58, ' ' = 32, NUL = 0, BOM = 65279 *)

Definition list_eqb (a b : list N) : bool :=
  (Nat.eqb (length a) (length b)) && forallb (fun p => N.eqb (fst p) (snd p)) (combine a b).

Definition is_nil {A} (l : list A) : bool := match l with [] => true | _ => false end.

(* ------------------------------------------------------------------ *)
(* Breaking a text at CRLF | CR | LF.                                  *)
(* re.split(r"\r\n|\r|\n", s): the pieces between the breaks, in order;
   never the empty list ("" gives [""], "a\n" gives ["a"; ""]).         *)

Definition starts_lf (r : list N) : bool :=
  match r with c :: _ => c =? 10 | [] => false end.

Fixpoint split_nl (s : list N) : list (list N) :=
  match s with
  | [] => [[]]
  | c :: r =>
      if c =? 10 then [] :: split_nl r
      else if c =? 13 then
        (if starts_lf r then split_nl r      (* CR LF: the LF makes the one break *)
         else [] :: split_nl r)
      else
        match split_nl r with
        | w :: ws => (c :: w) :: ws
        | [] => [[c]]                          (* unreachable *)
        end
  end.

(* b"\n".join(parts) *)
Fixpoint join_lf (parts : list (list N)) : list N :=
  match parts with
  | [] => []
  | [p] => p
  | p :: r => p ++ 10 :: join_lf r
  end.

(* ------------------------------------------------------------------ *)
(* Part 1 — the encoder                                                *)

(* One item of the ServerSentEvent dict (baize/typing.py: event/data/id are str,
   retry is int).  An event is the dict's items in insertion order; a dict has
   each key at most once. *)
Inductive field : Type :=
| Data (s : list N)
| Event (s : list N)
| Id (s : list N)
| Retry (z : Z).

Definition event := list field.

Inductive kind : Type := KData | KEvent | KId | KRetry.

Definition kind_of (f : field) : kind :=
  match f with Data _ => KData | Event _ => KEvent | Id _ => KId | Retry _ => KRetry end.

Definition is_data (f : field) : bool :=
  match f with Data _ => true | _ => false end.

Definition key_name (f : field) : list N :=
  match f with
  | Data _ => lit "data"
  | Event _ => lit "event"
  | Id _ => lit "id"
  | Retry _ => lit "retry"
  end.

(* str(v) inside the f-string *)
Definition value_text (f : field) : list N :=
  match f with
  | Data s => s
  | Event s => s
  | Id s => s
  | Retry z => dec_z z
  end.

(* f"{k}: {v}" *)
Definition field_line (f : field) : list N := key_name f ++ lit ": " ++ value_text f.

(* f"data: {_}" *)
Definition data_line (l : list N) : list N := lit "data: " ++ l.

Definition ev_data (ev : event) : option (list N) :=
  match find is_data ev with Some (Data s) => Some s | _ => None end.

(*  if "data" in event:
        data = (f"data: {_}".encode(charset) for _ in re.split(r"\r\n|\r|\n", event.pop("data")))
    else:
        data = ()
    return b"\n".join(chain(map(lambda k, v: f"{k}: {v}".encode(charset), event.keys(), event.values()),
                            data, (b"", b"")))                                                           *)
Definition build_bytes_from_sse (ev : event) : list N :=
  let data :=
    match ev_data ev with
    | Some d => map data_line (split_nl d)
    | None => []
    end in
  join_lf (map field_line (filter (fun f => negb (is_data f)) ev) ++ data ++ [[]; []]).

(* The encoder as it was before the repair: event.pop("data").splitlines().
   str.splitlines() breaks at LF, VT, FF, CR, CRLF, U+001C, U+001D, U+001E, U+0085,
   U+2028, U+2029, and yields no empty piece after a final break (none at all for ""). *)
Definition is_linebreak (c : N) : bool :=
  (c =? 10) || (c =? 11) || (c =? 12) || (c =? 13) || (c =? 28) || (c =? 29) || (c =? 30)
  || (c =? 133) || (c =? 8232) || (c =? 8233).

Fixpoint split_breaks (s : list N) : list (list N) :=
  match s with
  | [] => [[]]
  | c :: r =>
      if (c =? 13) && starts_lf r then split_breaks r
      else if is_linebreak c then [] :: split_breaks r
      else
        match split_breaks r with
        | w :: ws => (c :: w) :: ws
        | [] => [[c]]                          (* unreachable *)
        end
  end.

Definition splitlines (s : list N) : list (list N) :=
  let ps := split_breaks s in
  if is_nil (last ps [0]) then removelast ps else ps.

Definition build_bytes_from_sse_orig (ev : event) : list N :=
  let data :=
    match ev_data ev with
    | Some d => map data_line (splitlines d)
    | None => []
    end in
  join_lf (map field_line (filter (fun f => negb (is_data f)) ev) ++ data ++ [[]; []]).

(* yield b": ping\n\n"   (both interfaces) *)
Definition ping : list N := lit ": ping" ++ [10; 10].

(* the headers of a SendEventResponse built without extra headers, charset utf-8,
   as (lower-case name, value) sorted by name; the WSGI class sends no Connection header *)
Definition sse_headers (asgi : bool) : list (list N * list N) :=
  (lit "cache-control", lit "no-cache")
  :: (if asgi then [(lit "connection", lit "keep-alive")] else [])
  ++ [(lit "content-type", lit "text/event-stream; charset=utf-8")].

(* the same headers for a response constructed with charset=cs: the Content-Type announces the charset the body is
   encoded with (whoever reads the stream by the announced charset reads the events); every request that one response
   object answers gets the same headers and the whole stream again (a response object has no memory of earlier requests) *)
Definition sse_headers_cs (asgi : bool) (cs : list N) : list (list N * list N) :=
  (lit "cache-control", lit "no-cache")
  :: (if asgi then [(lit "connection", lit "keep-alive")] else [])
  ++ [(lit "content-type", lit "text/event-stream; charset=" ++ cs)].

(* what is yielded: an event or a keep-alive ping *)
Inductive item : Type :=
| Ev (e : event)
| Ping.

Definition render (it : item) : list N :=
  match it with Ev e => build_bytes_from_sse e | Ping => ping end.

Definition render_all (items : list item) : list N := concat (map render items).

(* ------------------------------------------------------------------ *)
(* Part 2 — WHATWG HTML 9.2.6 "Interpreting an event stream"           *)

(* "a data buffer, an event type buffer, and a last event ID buffer must be
   associated with it.  They must be initialized to the empty string."  The
   reconnection time belongs to the event source; None = never set by the stream. *)
Record state : Type := mkState {
  data_buf : list N;
  type_buf : list N;
  id_buf : list N;
  reconn : option N
}.

Definition init : state := mkState [] [] [] None.

(* "The stream must then be parsed by reading everything line by line, with a
   CRLF pair, a single LF not preceded by CR, and a single CR not followed by LF
   being the ways in which a line can end."  A final piece without a line end is
   not a line ("Once the end of the file is reached, any pending data must be
   discarded"). *)
Definition stream_lines (s : list N) : list (list N) := removelast (split_nl s).

(* the characters before and after the first ':' *)
Fixpoint split_colon (l : list N) : option (list N * list N) :=
  match l with
  | [] => None
  | c :: r =>
      if c =? 58 then Some ([], r)
      else match split_colon r with
           | Some (a, b) => Some (c :: a, b)
           | None => None
           end
  end.

(* "If value starts with a U+0020 SPACE character, remove it from value." *)
Definition strip_space (v : list N) : list N :=
  match v with
  | c :: r => if c =? 32 then r else v
  | [] => []
  end.

(* "The steps to process the field" *)
Definition process_field (s : state) (name value : list N) : state :=
  if list_eqb name (lit "event") then
    (* "Set the event type buffer to field value." *)
    mkState (data_buf s) value (id_buf s) (reconn s)
  else if list_eqb name (lit "data") then
    (* "Append the field value to the data buffer, then append a single LF." *)
    mkState (data_buf s ++ value ++ [10]) (type_buf s) (id_buf s) (reconn s)
  else if list_eqb name (lit "id") then
    (* "If the field value does not contain U+0000 NULL, then set the last event
       ID buffer to the field value.  Otherwise, ignore the field." *)
    if existsb (N.eqb 0) value then s
    else mkState (data_buf s) (type_buf s) value (reconn s)
  else if list_eqb name (lit "retry") then
    (* "If the field value consists of only ASCII digits, then interpret the field
       value as an integer in base ten, and set the event stream's reconnection
       time to that integer.  Otherwise, ignore the field."  (An empty value has no
       interpretation as an integer and is ignored.) *)
    if negb (is_nil value) && forallb is_ascii_digit value
    then mkState (data_buf s) (type_buf s) (id_buf s) (Some (undec value))
    else s
  else s.   (* "Otherwise: The field is ignored." *)

(* a non-empty line *)
Definition process_line (s : state) (l : list N) : state :=
  match l with
  | [] => s
  | c :: _ =>
      if c =? 58 then s                                   (* starts with ':' — ignore *)
      else match split_colon l with
           | Some (name, v) => process_field s name (strip_space v)
           | None => process_field s l []               (* whole line is the field name *)
           end
  end.

(* What one execution of "dispatch the event" (one blank line) did:
   the event type buffer, the data (last LF removed), the last event ID string,
   the reconnection time, and whether a MessageEvent was dispatched ("If the data
   buffer is an empty string, set the data buffer and the event type buffer to the
   empty string and return."). *)
Record block : Type := mkBlock {
  b_type : list N;
  b_data : list N;
  b_id : list N;
  b_retry : option N;
  b_dispatched : bool
}.

(* "If the data buffer's last character is a LF, remove the last character." *)
Definition strip_last_lf (d : list N) : list N :=
  match rev d with
  | c :: r => if c =? 10 then rev r else d
  | [] => []
  end.

(* Step 1 sets the last event ID string of the event source to the last event ID
   buffer ("The buffer does not get reset"); the event's lastEventId is read from
   it in step 5, so b_id is the buffer. *)
Definition dispatch (s : state) : block * state :=
  (mkBlock (type_buf s) (strip_last_lf (data_buf s)) (id_buf s) (reconn s) (negb (is_nil (data_buf s))),
   mkState [] [] (id_buf s) (reconn s)).

Fixpoint run (s : state) (ls : list (list N)) : list block :=
  match ls with
  | [] => []
  | l :: r =>
      if is_nil l then (fst (dispatch s)) :: run (snd (dispatch s)) r
      else run (process_line s l) r
  end.

Definition interpret_from (s : state) (stream : list N) : list block :=
  run s (stream_lines stream).

(* "The UTF-8 decode algorithm strips one leading UTF-8 Byte Order Mark (BOM), if any." *)
Definition strip_bom (s : list N) : list N :=
  match s with
  | c :: r => if c =? 65279 then r else s
  | [] => []
  end.

Definition interpret (stream : list N) : list block := interpret_from init (strip_bom stream).

(* the MessageEvents a page sees: type (default "message"), data, lastEventId *)
Record message : Type := mkMessage {
  m_type : list N;
  m_data : list N;
  m_last_event_id : list N
}.

Definition message_of (b : block) : list message :=
  if b_dispatched b
  then [mkMessage (if is_nil (b_type b) then lit "message" else b_type b) (b_data b) (b_id b)]
  else [].

Definition messages (bs : list block) : list message := flat_map message_of bs.

(* ------------------------------------------------------------------ *)
(* What must arrive                                                    *)

(* the text with every CRLF and every lone CR replaced by LF *)
Fixpoint normalise_newlines (s : list N) : list N :=
  match s with
  | [] => []
  | c :: r =>
      if c =? 13 then (if starts_lf r then normalise_newlines r else 10 :: normalise_newlines r)
      else c :: normalise_newlines r
  end.

Definition ev_name (ev : event) : option (list N) :=
  match find (fun f => match f with Event _ => true | _ => false end) ev with
  | Some (Event s) => Some s | _ => None end.

Definition ev_id (ev : event) : option (list N) :=
  match find (fun f => match f with Id _ => true | _ => false end) ev with
  | Some (Id s) => Some s | _ => None end.

Definition ev_retry (ev : event) : option Z :=
  match find (fun f => match f with Retry _ => true | _ => false end) ev with
  | Some (Retry z) => Some z | _ => None end.

Definition or_else {A} (o : option A) (d : A) : A := match o with Some a => a | None => d end.

(* the block an event must produce when the parser is between two blocks in state s *)
Definition expected_block (s : state) (ev : event) : block :=
  mkBlock (or_else (ev_name ev) [])
          (match ev_data ev with Some d => normalise_newlines d | None => [] end)
          (or_else (ev_id ev) (id_buf s))
          (match ev_retry ev with Some z => Some (Z.to_N z) | None => reconn s end)
          (match ev_data ev with Some _ => true | None => false end).

(* the parser state after that block *)
Definition state_after (s : state) (ev : event) : state :=
  mkState [] [] (or_else (ev_id ev) (id_buf s))
          (match ev_retry ev with Some z => Some (Z.to_N z) | None => reconn s end).

(* a keep-alive ping between two blocks: nothing is dispatched, nothing changes *)
Definition idle_block (s : state) : block := mkBlock [] [] (id_buf s) (reconn s) false.

Fixpoint expected_blocks (s : state) (items : list item) : list block :=
  match items with
  | [] => []
  | Ev e :: r => expected_block s e :: expected_blocks (state_after s e) r
  | Ping :: r => idle_block s :: expected_blocks s r
  end.

(* the MessageEvents that must be seen, in order, for a sequence of yielded items;
   [lid] is the last event ID so far (the standard keeps it until it is set again) *)
Fixpoint deliveries (lid : list N) (items : list item) : list message :=
  match items with
  | [] => []
  | Ping :: r => deliveries lid r
  | Ev e :: r =>
      let lid' := or_else (ev_id e) lid in
      match ev_data e with
      | Some d =>
          mkMessage (match ev_name e with
                     | Some n => if is_nil n then lit "message" else n
                     | None => lit "message"
                     end)
                    (normalise_newlines d) lid'
          :: deliveries lid' r
      | None => deliveries lid' r
      end
  end.

(* "between two blocks": data and event type buffers are empty *)
Definition idle (s : state) : Prop := data_buf s = [] /\ type_buf s = [].

(* no CR, no LF *)
Definition single_line (s : list N) : Prop := ~ In 13 s /\ ~ In 10 s.

(* a ServerSentEvent as the property quantifies over them: each key at most once,
   event name and id are single-line, id without NUL, retry a non-negative integer;
   the data text is arbitrary *)
Definition wf_event (ev : event) : Prop :=
  NoDup (map kind_of ev) /\
  (forall s, In (Event s) ev -> single_line s) /\
  (forall s, In (Id s) ev -> single_line s /\ ~ In 0 s) /\
  (forall z, In (Retry z) ev -> (0 <= z)%Z).

Definition wf_item (it : item) : Prop :=
  match it with Ev e => wf_event e | Ping => True end.
