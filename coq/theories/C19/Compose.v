(* C19 x C06 — what a client decodes from an event-stream response under ANY schedule.

   C06 (Model.v, systems W and E) says which chunks the response hands to the server in which order:
   item k of the producer, a keep-alive ping, the final empty body.  C19 (Model.v) says which bytes
   such a chunk is and how an EventSource parser reads a byte stream.  Put together: whatever the
   relative speed of producer, relay, client and ping timer, and wherever the client disconnects, the
   bytes handed to the server so far decode to exactly the events 0 .. d-1 the producer yielded, in
   order, none lost, none twice, pings invisible.  No proofs about either model are repeated here:
   C06's delivered_is_prefix and C19's sequence_messages are composed. *)
From Coq Require Import List NArith Arith Lia.
From Baize Require Import Lib.Wire C19.Model C19.Proofs.
From Baize Require C06.Model C06.Proofs.
Import ListNotations.

(* the chunks of C06 as the items of C19; the final empty body carries no bytes *)
Definition to_items (ev : nat -> event) (out : list C06.Model.chunk) : list item :=
  flat_map (fun c => match c with
                     | C06.Model.ChItem k => [Ev (ev k)]
                     | C06.Model.ChPing => [Ping]
                     | C06.Model.ChFinal => []
                     end) out.

(* the bytes on the wire *)
Definition wire (ev : nat -> event) (out : list C06.Model.chunk) : list N := render_all (to_items ev out).

Lemma to_items_wf ev out : (forall k, wf_event (ev k)) -> Forall wf_item (to_items ev out).
Proof.
  intros Hev. induction out as [|c out IH]; cbn [to_items flat_map]; [constructor|].
  fold (to_items ev out). apply Forall_app. split; [|exact IH].
  destruct c as [k| |]; [constructor; [exact (Hev k)|constructor] | constructor; [exact I|constructor] | constructor].
Qed.

(* pings and the final body deliver nothing *)
Lemma deliveries_to_items ev out : forall lid,
  deliveries lid (to_items ev out) = deliveries lid (map (fun k => Ev (ev k)) (C06.Model.items out)).
Proof.
  induction out as [|c out IH]; intros lid; [reflexivity|].
  unfold to_items, C06.Model.items in *. cbn [flat_map].
  destruct c as [k| |]; cbn [app map deliveries].
  - destruct (ev_data (ev k)); [f_equal|]; apply IH.
  - apply IH.
  - apply IH.
Qed.

Lemma decoded_is_prefix_of_items ev out d :
  (forall k, wf_event (ev k)) -> C06.Model.items out = seq 0 d ->
  messages (interpret (wire ev out)) = deliveries [] (map (fun k => Ev (ev k)) (seq 0 d)).
Proof.
  intros Hev Hi. unfold wire. rewrite (sequence_messages_proof _ (to_items_wf ev out Hev)).
  rewrite deliveries_to_items, Hi. reflexivity.
Qed.

Theorem stream_decodes_to_prefix_proof : forall (prod : C06.Model.producer) (ev : nat -> event),
  (forall k, wf_event (ev k)) ->
  (forall s, C06.Model.reachable (C06.Model.stepW true prod) C06.Model.w_init s ->
     exists d, d <= C06.Model.nexts (C06.Model.wg s) /\
       messages (interpret (wire ev (C06.Model.wout s))) = deliveries [] (map (fun k => Ev (ev k)) (seq 0 d))) /\
  (forall s, C06.Model.reachable (C06.Model.stepE prod) C06.Model.e_init s ->
     exists d, d <= C06.Model.nexts (C06.Model.e_g s) /\
       messages (interpret (wire ev (C06.Model.e_out s))) = deliveries [] (map (fun k => Ev (ev k)) (seq 0 d))).
Proof.
  intros prod ev Hev.
  destruct (C06.Proofs.delivered_is_prefix_proof prod) as (_ & HW & _ & HE).
  split; intros s Hr.
  - destruct (HW s Hr) as (d & Hi & Hd & _). exists d. split; [exact Hd|].
    exact (decoded_is_prefix_of_items ev _ d Hev Hi).
  - destruct (HE s Hr) as (d & Hi & Hd & _). exists d. split; [exact Hd|].
    exact (decoded_is_prefix_of_items ev _ d Hev Hi).
Qed.
