(* C19 — Server-sent events reach the client as they were yielded.
   Statements only; every proof is a reference to C19/Proofs.v.

   build_bytes_from_sse, ping, render_all : what baize writes (C19/Model.v part 1);
   interpret, interpret_from, messages    : the WHATWG event-stream interpretation
                                            (C19/Model.v part 2, the specification);
   wf_event ev : each key at most once, event name and id without CR/LF, id without
                 NUL, retry >= 0; the data text is ANY list of code points. *)
From Coq Require Import List NArith ZArith.
From Baize Require Import Lib.Wire C19.Model C19.Proofs C19.Compose.
From Baize Require C06.Model.
Import ListNotations.
Local Open Scope N_scope.

(* One event, every data text: the text written is one block.  The parser reports
   exactly one blank-line dispatch; its record has the event's name, id and retry,
   the data is the text with CRLF and lone CR replaced by LF (nothing else is
   touched: U+000B, U+000C, U+001C-1E, U+0085, U+2028, U+2029, leading spaces,
   colons, a trailing newline, the empty text), and a MessageEvent is dispatched
   iff the dict has a data key. *)
Theorem sse_roundtrip : forall ev : event,
  wf_event ev ->
  interpret (build_bytes_from_sse ev) =
  [ mkBlock (or_else (ev_name ev) [])
            (match ev_data ev with Some d => normalise_newlines d | None => [] end)
            (or_else (ev_id ev) [])
            (match ev_retry ev with Some z => Some (Z.to_N z) | None => None end)
            (match ev_data ev with Some _ => true | None => false end) ].
Proof. exact sse_roundtrip_proof. Qed.

(* The same in terms of what a page observes: exactly one MessageEvent when there is
   a data key (type = the name, "message" when absent or empty), none otherwise. *)
Theorem sse_roundtrip_messages : forall ev : event,
  wf_event ev ->
  messages (interpret (build_bytes_from_sse ev)) =
  match ev_data ev with
  | Some d =>
      [mkMessage (match ev_name ev with
                  | Some n => if is_nil n then lit "message" else n
                  | None => lit "message"
                  end)
                 (normalise_newlines d) (or_else (ev_id ev) [])]
  | None => []
  end.
Proof. exact sse_roundtrip_messages_proof. Qed.

(* No hypothesis at all is needed for the data: every text. *)
Theorem sse_data_any_text : forall d : list N,
  messages (interpret (build_bytes_from_sse [Data d])) =
  [mkMessage (lit "message") (normalise_newlines d) []].
Proof. exact sse_data_any_text_proof. Qed.

(* What "CRLF and CR replaced by LF" means: text without CR is unchanged, the
   result has no CR, a CRLF becomes one LF, a lone CR becomes LF. *)
Theorem normalise_meaning :
  (forall s, ~ In 13 s -> normalise_newlines s = s) /\
  (forall s, ~ In 13 (normalise_newlines s)) /\
  (forall a b, ~ In 13 a -> normalise_newlines (a ++ 13 :: 10 :: b) = a ++ 10 :: normalise_newlines b) /\
  (forall a b, ~ In 13 a -> starts_lf b = false ->
               normalise_newlines (a ++ 13 :: b) = a ++ 10 :: normalise_newlines b).
Proof. exact normalise_meaning_proof. Qed.

(* The keep-alive ping is a comment line and a blank line.  The comment changes no
   buffer in any parser state; between two blocks the whole chunk dispatches
   nothing and leaves the state as it was, whatever follows. *)
Theorem ping_ignored :
  stream_lines ping = [lit ": ping"; []] /\
  (forall s, process_line s (lit ": ping") = s) /\
  (forall s rest, idle s ->
     interpret_from s (ping ++ rest) = idle_block s :: interpret_from s rest) /\
  (forall s rest, idle s ->
     messages (interpret_from s (ping ++ rest)) = messages (interpret_from s rest)) /\
  interpret ping = [idle_block init].
Proof. exact ping_ignored_proof. Qed.

(* Any sequence of events and pings: the concatenated chunks are parsed block by
   block, in the order yielded; a ping yields a record with nothing dispatched;
   id and retry persist until set again, as the standard prescribes. *)
Theorem sequence_in_order : forall items : list item,
  Forall wf_item items ->
  interpret (render_all items) = expected_blocks init items.
Proof. exact sequence_in_order_proof. Qed.

(* ... and the MessageEvents a page sees are the events with data, in order. *)
Theorem sequence_messages : forall items : list item,
  Forall wf_item items ->
  messages (interpret (render_all items)) = deliveries [] items.
Proof. exact sequence_messages_proof. Qed.

(* The encoder as it was before the repair (str.splitlines) does not satisfy
   sse_roundtrip: an event whose data is the empty text is never dispatched ... *)
Theorem splitlines_refuted :
  exists ev, wf_event ev /\
    interpret (build_bytes_from_sse_orig ev) <> [expected_block init ev] /\
    messages (interpret (build_bytes_from_sse_orig ev)) = [].
Proof. exact orig_refuted_proof. Qed.

(* ... and a text containing U+2028 arrives changed. *)
Theorem splitlines_refuted_unicode :
  exists d, messages (interpret (build_bytes_from_sse_orig [Data d])) <>
            [mkMessage (lit "message") (normalise_newlines d) []].
Proof. exact orig_refuted_unicode_proof. Qed.

(* Together with C06's transition systems (W: the WSGI event-stream response with its relay thread, E: the
   ASGI one with relay task, disconnect watcher and ping timer): in EVERY reachable state — every producer,
   every interleaving of producer, relay, consumer and timer, every close / disconnect point — the bytes
   handed to the server so far ([wire]: each chunk of C06 rendered by build_bytes_from_sse / as the ping
   comment) decode, by the WHATWG interpretation, to exactly the events 0 .. d-1 the producer yielded, in
   order, none lost, none twice; pings are invisible; d never exceeds what was produced.  [ev k] is the
   k-th event the user's generator yields (any well-formed events). *)
Theorem stream_decodes_to_prefix : forall (prod : C06.Model.producer) (ev : nat -> event),
  (forall k, wf_event (ev k)) ->
  (forall s, C06.Model.reachable (C06.Model.stepW true prod) C06.Model.w_init s ->
     exists d : nat, (d <= C06.Model.nexts (C06.Model.wg s))%nat /\
       messages (interpret (wire ev (C06.Model.wout s))) = deliveries [] (map (fun k => Ev (ev k)) (seq 0%nat d))) /\
  (forall s, C06.Model.reachable (C06.Model.stepE prod) C06.Model.e_init s ->
     exists d : nat, (d <= C06.Model.nexts (C06.Model.e_g s))%nat /\
       messages (interpret (wire ev (C06.Model.e_out s))) = deliveries [] (map (fun k => Ev (ev k)) (seq 0%nat d))).
Proof. exact stream_decodes_to_prefix_proof. Qed.

(* The headers of a response constructed with charset cs (either interface) carry exactly one Content-Type, and
   it announces cs: "text/event-stream; charset=" ++ cs — the charset the body is encoded with (build_translated_codec
   of the source-level tie: one codec for every piece).  The default is utf-8.  The correspondence reads every live
   stream back with the charset the response announces, on one response object answering several requests. *)
Theorem announced_charset : forall (asgi : bool) (cs : list N),
  content_types (sse_headers_cs asgi cs) = [lit "text/event-stream; charset=" ++ cs] /\
  sse_headers asgi = sse_headers_cs asgi (lit "utf-8").
Proof. exact announced_charset_proof. Qed.

(* non-vacuity: two events around a ping and the final body decode to the two messages *)
Example stream_decodes_example :
  let ev := fun k : nat => [Id (Lib.Wire.dec (N.of_nat k)); Data (lit "x")] in
  messages (interpret (wire ev [C06.Model.ChItem 0; C06.Model.ChPing; C06.Model.ChItem 1; C06.Model.ChFinal]))
  = deliveries [] [Ev (ev 0%nat); Ev (ev 1%nat)].
Proof. vm_compute. reflexivity. Qed.

Print Assumptions sse_roundtrip.
Print Assumptions sse_roundtrip_messages.
Print Assumptions sse_data_any_text.
Print Assumptions normalise_meaning.
Print Assumptions ping_ignored.
Print Assumptions sequence_in_order.
Print Assumptions sequence_messages.
Print Assumptions splitlines_refuted.
Print Assumptions splitlines_refuted_unicode.
Print Assumptions stream_decodes_to_prefix.
Print Assumptions announced_charset.
