(* C19 — source-level tie for build_bytes_from_sse (baize/responses.py).

   tools/py2coq_c19.py regenerates the Gallina definition G.build_bytes_from_sse from the CURRENT Python source on
   every check run (harness/c19.py: extra_obligations) and coqc re-checks this file against the fresh definition (the
   two lines between the GENERATED markers re-pointed at the fresh file).  Generated_ref.v is the committed copy of what
   the translator emitted when this file was written.

   What the translator is told: `event` is a dict from str to str-or-int values (PyLib.pyval), `charset` a str; a str
   is the list of its code points and a bytes object the list of its bytes; x.encode(y) is `encode y x` where encode is
   an ARGUMENT of the generated function (nothing is assumed about a codec: the theorems quantify over it);
   re.split(r"\r\n|\r|\n", s) is PyLib.re_split_alts [CR LF; CR; LF] s (a scan that takes, at every position, the first
   alternative that is there — compared with the interpreter's re.split on every run).

   The model's event (a list of fields) is the dict [to_dict ev]: the items (key_name f, value of f) in order, the value
   of a Retry field being an int.  No invariant is assumed of ev.

   The theorems, for every event ev, every charset c and
     build_translated_pieces   every function encode:  the function returns (raises nothing), and what it returns is
                               the LF-join of  encode c (field line)  for every field but data, in order, then
                               encode c (data line)  for every piece of M.split_nl of the data text, then the two
                               empty items — every piece is encoded with the one charset c;
     build_translated_codec    every encode such that  encode c  distributes over ++ and keeps LF:  it returns
                               encode c (M.build_bytes_from_sse ev);
     build_translated          at the level of code points (encode c = the identity):  it returns
                               M.build_bytes_from_sse ev;
     re_split_model            PyLib.re_split_alts [CR LF; CR; LF] s = M.split_nl s  for every text s. *)
From Coq Require Import List NArith ZArith Bool Arith Lia.
From Baize Require Import Lib.Wire Lib.PyStr Lib.PyStrFacts Lib.PyList.
From Baize Require C19.Model C19.PyLib.
(* GENERATED-BEGIN *)
From Baize Require C19.Generated_ref.
Module G := Baize.C19.Generated_ref.
(* GENERATED-END *)
Module M := Baize.C19.Model.
Module PyLib := Baize.C19.PyLib.
Import ListNotations.
Local Open Scope N_scope.

Definition to_val (f : M.field) : PyLib.pyval :=
  match f with
  | M.Data s => PyLib.VStr s
  | M.Event s => PyLib.VStr s
  | M.Id s => PyLib.VStr s
  | M.Retry z => PyLib.VInt z
  end.

Definition to_dict (ev : M.event) : PyLib.dict := map (fun f => (M.key_name f, to_val f)) ev.

Definition not_data (f : M.field) : bool := negb (M.is_data f).

(* the texts that are encoded, in order *)
Definition pieces (ev : M.event) : list (list N) :=
  map M.field_line (filter not_data ev)
  ++ match M.ev_data ev with Some d => map M.data_line (M.split_nl d) | None => [] end.

(* ---------------------------------------------------------------- re.split(r"\r\n|\r|\n", s) *)

Lemma match_len_nl : forall c r,
  PyLib.match_len [[13; 10]; [13]; [10]] (c :: r) =
  if c =? 13 then (if M.starts_lf r then Some 2%nat else Some 1%nat)
  else if c =? 10 then Some 1%nat else None.
Proof.
  intros c r. cbn [PyLib.match_len PyLib.is_prefix length].
  destruct (c =? 13) eqn:E13; cbn [andb].
  - destruct r as [|y r']; cbn [M.starts_lf]; [reflexivity|].
    destruct (y =? 10); reflexivity.
  - destruct (c =? 10); reflexivity.
Qed.

Lemma re_split_go_model : forall n s, (length s <= n)%nat ->
  PyLib.re_split_go [[13; 10]; [13]; [10]] O s = M.split_nl s.
Proof.
  induction n as [|n IH]; intros s Hlen.
  - destruct s as [|c r]; [reflexivity|]. cbn [length] in Hlen. lia.
  - destruct s as [|c r]; [reflexivity|]. cbn [length] in Hlen.
    assert (Hr : (length r <= n)%nat) by lia.
    change (PyLib.re_split_go [[13; 10]; [13]; [10]] O (c :: r))
      with (match PyLib.match_len [[13; 10]; [13]; [10]] (c :: r) with
            | Some (S k) => [] :: PyLib.re_split_go [[13; 10]; [13]; [10]] k r
            | _ => match PyLib.re_split_go [[13; 10]; [13]; [10]] O r with
                   | w :: ws => (c :: w) :: ws
                   | [] => [[c]]
                   end
            end).
    rewrite match_len_nl. cbn [M.split_nl].
    destruct (c =? 13) eqn:E13.
    + apply N.eqb_eq in E13. subst c. change (13 =? 10) with false. cbv iota.
      destruct r as [|y r']; cbn [M.starts_lf].
      * reflexivity.
      * destruct (y =? 10) eqn:E10.
        -- change (PyLib.re_split_go [[13; 10]; [13]; [10]] 1 (y :: r'))
             with (PyLib.re_split_go [[13; 10]; [13]; [10]] O r').
           cbn [M.split_nl]. rewrite E10.
           rewrite IH; [reflexivity|]. cbn [length] in Hr. lia.
        -- rewrite IH; [reflexivity|exact Hr].
    + destruct (c =? 10) eqn:E10.
      * rewrite IH; [reflexivity|exact Hr].
      * rewrite IH; [reflexivity|exact Hr].
Qed.

Theorem re_split_model : forall s, PyLib.re_split_alts [[13; 10]; [13]; [10]] s = M.split_nl s.
Proof.
  intros s. unfold PyLib.re_split_alts. apply (re_split_go_model (length s)). lia.
Qed.

(* ---------------------------------------------------------------- the dict operations on [to_dict ev] *)

Lemma key_is_data : forall f, PyStr.str_eqb (M.key_name f) [100; 97; 116; 97] = M.is_data f.
Proof. intros [s|s|s|z]; vm_compute; reflexivity. Qed.

Lemma dict_get_data : forall ev,
  PyList.dict_get PyStr.str_eqb [100; 97; 116; 97] (to_dict ev) =
  match M.ev_data ev with Some s => Some (PyLib.VStr s) | None => None end.
Proof.
  unfold M.ev_data. induction ev as [|f r IH]; [reflexivity|].
  cbn [to_dict map PyList.dict_get find]. rewrite key_is_data.
  destruct f as [s|s|s|z]; cbn [M.is_data to_val]; try exact IH. reflexivity.
Qed.

Lemma contains_data : forall ev,
  PyLib.dict_contains [100; 97; 116; 97] (to_dict ev) =
  match M.ev_data ev with Some _ => true | None => false end.
Proof.
  intros ev. unfold PyLib.dict_contains, PyList.dict_mem. rewrite dict_get_data.
  destruct (M.ev_data ev); reflexivity.
Qed.

Lemma filter_data : forall ev,
  filter (fun p : PyStr.str * PyLib.pyval => negb (PyStr.str_eqb (fst p) [100; 97; 116; 97])) (to_dict ev) =
  to_dict (filter not_data ev).
Proof.
  induction ev as [|f r IH]; [reflexivity|].
  cbn [to_dict map filter fst]. rewrite key_is_data. unfold not_data at 1.
  destruct (M.is_data f); cbn [negb]; fold (to_dict r); rewrite IH; reflexivity.
Qed.

Lemma pop_data : forall ev,
  PyLib.dict_pop [100; 97; 116; 97] (to_dict ev) =
  match M.ev_data ev with
  | Some s => Some (PyLib.VStr s, to_dict (filter not_data ev))
  | None => None
  end.
Proof.
  intros ev. unfold PyLib.dict_pop. rewrite dict_get_data, filter_data.
  destruct (M.ev_data ev); reflexivity.
Qed.

Lemma filter_no_data : forall ev, M.ev_data ev = None -> filter not_data ev = ev.
Proof.
  unfold M.ev_data. induction ev as [|f r IH]; intros H; [reflexivity|].
  cbn [find] in H. destruct f as [s|s|s|z]; cbn [M.is_data] in H; try discriminate H;
    cbn [filter not_data M.is_data negb]; fold not_data; rewrite (IH H); reflexivity.
Qed.

Lemma map2_items : forall (C : Type) (g : PyStr.str -> PyLib.pyval -> C) ev,
  PyLib.map2 g (PyLib.dict_keys (to_dict ev)) (PyLib.dict_values (to_dict ev)) =
  map (fun f => g (M.key_name f) (to_val f)) ev.
Proof.
  intros C g. induction ev as [|f r IH]; [reflexivity|].
  cbn [to_dict map PyLib.dict_keys PyLib.dict_values PyLib.map2 fst snd].
  f_equal. exact IH.
Qed.

Lemma bytes_join_lf : forall ps, PyLib.bytes_join [10] ps = M.join_lf ps.
Proof.
  induction ps as [|p r IH]; [reflexivity|].
  destruct r as [|q r']; [reflexivity|].
  change (PyLib.bytes_join [10] (p :: q :: r')) with (p ++ [10] ++ PyLib.bytes_join [10] (q :: r')).
  change (M.join_lf (p :: q :: r')) with (p ++ 10 :: M.join_lf (q :: r')).
  rewrite IH. reflexivity.
Qed.

Lemma field_text : forall f,
  PyLib.fstr [M.key_name f; [58; 32]; PyLib.str_of_val (to_val f)] = M.field_line f.
Proof. intros [s|s|s|z]; reflexivity. Qed.

Lemma data_text : forall l, PyLib.fstr [[100; 97; 116; 97; 58; 32]; l] = M.data_line l.
Proof. intros l. reflexivity. Qed.

(* ---------------------------------------------------------------- the function *)

(* the end of the proofs: the two sides have the same shape, item by item *)
Ltac same_shape :=
  repeat first
    [ reflexivity
    | apply map_ext; let x := fresh "x" in intro x; first [ apply f_equal; apply field_text | apply f_equal; apply data_text | idtac ]
    | f_equal ].

Theorem build_translated_pieces : forall (encode : list N -> list N -> list N) (c : list N) (ev : M.event),
  G.build_bytes_from_sse encode (to_dict ev) c =
  PyStr.Ret (M.join_lf (map (encode c) (pieces ev) ++ [[]; []])).
Proof.
  intros encode c ev. unfold G.build_bytes_from_sse, pieces. cbv beta zeta.
  rewrite contains_data. try rewrite pop_data.
  destruct (M.ev_data ev) as [d|] eqn:E; cbn [negb PyLib.as_str]; cbv beta iota zeta;
    repeat first [ rewrite map2_items | rewrite bytes_join_lf | rewrite re_split_model ];
    cbn [PyLib.chain]; rewrite ?map_app, ?map_map, ?app_nil_r, <- ?app_assoc; cbn [map].
  - same_shape.
  - rewrite (filter_no_data ev E). same_shape.
Qed.
Print Assumptions build_translated_pieces.

Lemma hom_nil : forall e : list N -> list N, (forall a b, e (a ++ b) = e a ++ e b) -> e [] = [].
Proof.
  intros e H. pose proof (H [] []) as H0. cbn [app] in H0.
  rewrite <- (app_nil_r (e [])) in H0 at 1. apply app_inv_head in H0. symmetry. exact H0.
Qed.

Lemma join_map_hom : forall e : list N -> list N,
  (forall a b, e (a ++ b) = e a ++ e b) -> e [10] = [10] ->
  forall ps, M.join_lf (map e ps) = e (M.join_lf ps).
Proof.
  intros e Happ Hlf. induction ps as [|p r IH].
  - cbn [map M.join_lf]. symmetry. apply hom_nil. exact Happ.
  - destruct r as [|q r']; [reflexivity|].
    change (M.join_lf (map e (p :: q :: r'))) with (e p ++ 10 :: M.join_lf (map e (q :: r'))).
    change (M.join_lf (p :: q :: r')) with (p ++ [10] ++ M.join_lf (q :: r')).
    rewrite IH, !Happ, Hlf. reflexivity.
Qed.

Theorem build_translated_codec : forall (encode : list N -> list N -> list N) (c : list N),
  (forall a b, encode c (a ++ b) = encode c a ++ encode c b) -> encode c [10] = [10] ->
  forall ev : M.event,
  G.build_bytes_from_sse encode (to_dict ev) c = PyStr.Ret (encode c (M.build_bytes_from_sse ev)).
Proof.
  intros encode c Happ Hlf ev. rewrite build_translated_pieces.
  unfold M.build_bytes_from_sse, pieces.
  rewrite <- (join_map_hom (encode c) Happ Hlf).
  change (filter (fun f : M.field => negb (M.is_data f)) ev) with (filter not_data ev).
  rewrite !map_app. cbn [map]. rewrite (hom_nil (encode c) Happ), <- app_assoc.
  destruct (M.ev_data ev); reflexivity.
Qed.
Print Assumptions build_translated_codec.

Theorem build_translated : forall (c : list N) (ev : M.event),
  G.build_bytes_from_sse (fun _ s => s) (to_dict ev) c = PyStr.Ret (M.build_bytes_from_sse ev).
Proof.
  intros c ev. apply (build_translated_codec (fun _ s => s) c); reflexivity.
Qed.
Print Assumptions build_translated.
Print Assumptions re_split_model.
