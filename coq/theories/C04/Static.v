(* C04 — the static-file applications as leaves of the application tree: the complete answer of
   Files.__call__ / Pages.__call__ on either interface.

     baize/wsgi/staticfiles.py   Files.__call__, Pages.__call__, Files.file_response     static_wsgi
     baize/asgi/staticfiles.py   the same three, a separate copy                         static_asgi
     baize/staticfiles.py        set_response_headers                                    cache_headers

   Put together from the model functions of the properties that own the parts:
     C07.Model   wsgi_call / asgi_call : which file, 404, or the slash redirect (path resolution, os.stat)
     C14.Model   serve _ Wsgi / serve _ Asgi : 304 or full response (if_none_match, if_modified_since, order)
     C02.Model / Resp.Model / C04.Model   FileResponse (RFile: status, headers, ranges, body), Response(304)
                 (RPlain), RedirectResponse (RRedirect) through wsgi_response / asgi_response
     C18.Model   URL(environ=...) / URL(scope=...), URL.replace : the target of the redirect
   What is new here: how each interface reads the request (environ.get / the loops over
   scope["headers"], first or last occurrence), the Cache-Control / Vary headers appended by
   set_response_headers (MutableHeaders.append), the Latin-1 -> UTF-8 re-decoding of the WSGI
   path and the UTF-8 decoding of the query inside URL(...), iri_to_uri, HTTPException(404) /
   HTTPException(400) as observations of their own.

   The file system is a parameter (C07's: absolute path text -> node; here together with what
   os.stat and open report for each regular file: content, st_mtime_ns, st_ctime_ns; st_size is
   the length of the content).  What the standard library computes stays a parameter too, as
   in C02 / C14: the float st_mtime, SHA-1, int(float), formatdate, parsedate_to_datetime,
   mimetypes.guess_type, urllib.parse.quote of the download name, the random boundary.
   handle_404 is None.  No proofs here. *)
From Coq Require Import List NArith ZArith Bool Arith.
From Baize Require Import Lib.Wire Lib.Order C02.Model Resp.Model C04.Model C04.Req.
From Baize Require C07.Model C09.Model C14.Model C18.Model.
Import ListNotations.

(* ---------- configuration and environment ---------- *)

(* Files(directory, cacheability=..., max_age=...) after __init__: self.directory is what
   normalize_dir_path returned *)
Record scfg := {
  sc_dir : bytes;
  sc_cacheability : bytes;
  sc_max_age : Z
}.

(* a regular file as os.stat / open show it *)
Record fmeta := {
  fm_content : bytes;        (* st_size = its length *)
  fm_mtime : N;              (* st_mtime_ns *)
  fm_ctime : N               (* st_ctime_ns *)
}.

Record senv := {
  se_cwd : bytes;                      (* os.getcwd() *)
  se_fs : C07.Model.fsys;              (* path -> regular file [id] / directory / other / absent / error *)
  se_meta : N -> fmeta;                (* the regular file [id] *)
  (* the standard library *)
  se_fkey : N -> N;                    (* C14: the float st_mtime of a nanosecond timestamp *)
  se_sha : N -> N -> bytes;            (* C14: sha1(f"{st_mtime}-{st_size}").hexdigest() *)
  se_isec : N -> N;                    (* C14: int(<float timestamp>) *)
  se_fmtdate : N -> bytes;             (* formatdate(second, usegmt=True) *)
  se_parsedate : bytes -> option Z;    (* int(parsedate_to_datetime(text).timestamp()); None: not a date *)
  se_ctype : bytes -> bytes;           (* guess_type(os.path.basename(path))[0] or "application/octet-stream" *)
  se_disp : bytes -> option bytes;     (* the content-disposition generate_common_headers sets for this path *)
  se_boundary : bytes                  (* random_choices(..., k=13) *)
}.

(* ---------- the response objects ---------- *)

(* FileResponse.__init__: chunk_size: int = 4096 * 64 *)
Definition default_chunk : nat := 4096 * 64.

Definition fstate_of (id : N) (m : fmeta) : C14.Model.fstate :=
  C14.Model.mkF id (N.of_nat (length (fm_content m))) (fm_mtime m) (fm_ctime m).

(* FileResponse(filepath, stat_result=stat_result) meeting this request *)
Definition file_req_of (e : senv) (head : bool) (range if_range : option bytes) (p : bytes) (id : N) : file_req :=
  let m := se_meta e id in
  let f := fstate_of id m in
  {| fr_head := head; fr_range := range; fr_if_range := if_range;
     fr_file := fm_content m; fr_chunk := default_chunk;
     fr_etag := C14.Model.quote (C14.Model.etag_of (se_fkey e) (se_sha e) f);
     fr_lastmod := se_fmtdate e (se_isec e (C14.Model.f_mtime f));
     fr_ctype := se_ctype e p; fr_disp := se_disp e p; fr_boundary := se_boundary e |}.

(* set_response_headers: two calls of MutableHeaders.append *)
Definition cache_headers (c : scfg) : list header :=
  [(lit "Cache-Control", sc_cacheability c ++ lit ", max-age=" ++ dec_z (sc_max_age c));
   (lit "Vary", lit "Accept-Encoding, User-Agent, Cookie, Referer")].

(* Response(304) after set_response_headers: the mapping was empty, Headers.__init__ and append
   treat a key alike (lower-cased; joined with ", " when present) *)
Definition r304 (c : scfg) : recipe :=
  RPlain {| b_status := 304; b_headers := cache_headers c; b_cookies := [] |}.

(* FileResponse after set_response_headers.  The mapping holds generate_common_headers' entries when
   the two are appended; handle_all / handle_single_range / handle_several_ranges add theirs
   afterwards and send the mapping; a rejected Range header is answered from the exception's own
   headers, without the mapping. *)
Definition file_headers (extra : list header) (fr : file_req) (hs : list header) : list header :=
  match decide fr with
  | Reject400 _ | Reject416 => hs
  | _ => hinit (common_headers fr ++ extra) ++ skipn (length (common_headers fr)) hs
  end.

Definition file_answer (extra : list header) (fr : file_req) (o : option (nat * list header * bytes)) : obs :=
  match o with
  | Some (st, hs, body) => OResp st (file_headers extra fr hs) body
  | None => ONoStart
  end.

Definition akind (k : C07.Model.kind) : C14.Model.appkind :=
  match k with C07.Model.KFiles => C14.Model.Files | C07.Model.KPages => C14.Model.Pages end.

(* file_response: is the answer Response(304)?  if_modified_since raises ValueError("Empty date
   value") itself for an empty text *)
Definition parse_ims (e : senv) (ims : bytes) : option Z :=
  match ims with [] => None | _ => se_parsedate e ims end.

Definition not_modified (e : senv) (k : C07.Model.kind) (i : C14.Model.iface) (id : N) (inm ims : bytes) : bool :=
  N.eqb (C14.Model.r_status
           (C14.Model.serve (se_fkey e) (se_sha e) (se_isec e) (akind k) i
                            (fstate_of id (se_meta e id)) inm (parse_ims e ims))) 304.

(* ---------- text: codecs and quoting ---------- *)

Definition is_cont (b : N) : bool := (128 <=? b)%N && (b <=? 191)%N.

(* bytes.decode("utf-8") (strict): None = UnicodeDecodeError *)
Fixpoint utf8_decode (b : list N) : option (list N) :=
  match b with
  | [] => Some []
  | a :: r =>
      if (a <? 128)%N then option_map (cons a) (utf8_decode r)
      else if (194 <=? a)%N && (a <=? 223)%N then
        match r with
        | b1 :: r1 =>
            if is_cont b1 then option_map (cons ((a - 192) * 64 + (b1 - 128))%N) (utf8_decode r1) else None
        | _ => None
        end
      else if (224 <=? a)%N && (a <=? 239)%N then
        match r with
        | b1 :: b2 :: r2 =>
            if is_cont b1 && is_cont b2
               && (if (a =? 224)%N then (160 <=? b1)%N else true)
               && (if (a =? 237)%N then (b1 <=? 159)%N else true)
            then option_map (cons ((a - 224) * 4096 + (b1 - 128) * 64 + (b2 - 128))%N) (utf8_decode r2)
            else None
        | _ => None
        end
      else if (240 <=? a)%N && (a <=? 244)%N then
        match r with
        | b1 :: b2 :: b3 :: r3 =>
            if is_cont b1 && is_cont b2 && is_cont b3
               && (if (a =? 240)%N then (144 <=? b1)%N else true)
               && (if (a =? 244)%N then (b1 <=? 143)%N else true)
            then option_map (cons ((a - 240) * 262144 + (b1 - 128) * 4096 + (b2 - 128) * 64 + (b3 - 128))%N)
                            (utf8_decode r3)
            else None
        | _ => None
        end
      else None
  end.

(* text.encode("latin1").decode("utf8"): None = UnicodeEncodeError / UnicodeDecodeError, both ValueError *)
Definition redecode (s : bytes) : option bytes :=
  if forallb (fun c => (c <? 256)%N) s then utf8_decode s else None.

(* iri_to_uri: quote(iri, safe="/#%[]=:;$&()+,!?*@'~") *)
Definition iri_safe : bytes := lit "/#%[]=:;$&()+,!?*@'~".

Definition iri_byte (b : N) : bytes :=
  if C18.Model.always_safe b || C18.Model.mem b iri_safe then [b]
  else [37%N; C18.Model.hex_upper (b / 16); C18.Model.hex_upper (b mod 16)].

Definition iri_to_uri (s : bytes) : bytes := flat_map iri_byte (flat_map C18.Model.utf8 s).

(* ---------- the redirect of Pages ---------- *)

(* url.replace(scheme="", path=url.path + "/") *)
Definition slash_kwargs (u : C18.Model.url) : C18.Model.kwargs :=
  {| C18.Model.k_scheme := Some [];
     C18.Model.k_path := Some (C18.Model.path (C18.Model.ucomps u) ++ [47%N]);
     C18.Model.k_query := None; C18.Model.k_fragment := None;
     C18.Model.k_username := None; C18.Model.k_password := None;
     C18.Model.k_hostname := None; C18.Model.k_port := None |}.

(* try: url = URL(...); url = url.replace(...)  except ValueError: raise HTTPException(400)
   return RedirectResponse(url)(...) *)
Definition redirect_answer (render : recipe -> option (nat * list header * bytes))
    (u : C18.Model.res C18.Model.url) : obs :=
  match C18.Model.bind u (fun u0 => C18.Model.replace u0 (slash_kwargs u0)) with
  | C18.Model.Ok u' => obs_of (render (RRedirect (bare 307) (iri_to_uri (C18.Model.ustr u'))))
  | C18.Model.Raise C18.Model.ValueError => OHttp 400
  | C18.Model.Raise C18.Model.KeyError => ORaised C09.Model.KeyError
  | C18.Model.Raise C18.Model.IndexError => OCrash
  end.

Definition url_request (rq : areq) (host : option bytes) (root path query : bytes) : C18.Model.request :=
  {| C18.Model.r_scheme := aq_scheme rq;
     C18.Model.r_server := Some (fst (aq_server rq), Some (snd (aq_server rq)));
     C18.Model.r_host := host;
     C18.Model.r_root := root; C18.Model.r_path := path; C18.Model.r_query := query |}.

(* _build_url decodes the query string last, after the authority has been put together *)
Definition with_query (query : bytes) (build : bytes -> C18.Model.res C18.Model.url) : C18.Model.res C18.Model.url :=
  match utf8_decode query with
  | Some q => build q
  | None => C18.Model.bind (build []) (fun _ => C18.Model.Raise C18.Model.ValueError)
  end.

(* URL(environ=environ): the path is (SCRIPT_NAME + PATH_INFO).encode("latin1").decode("utf8"),
   the Host header is environ.get("HTTP_HOST") *)
Definition wsgi_url (rq : areq) (s : state) : C18.Model.res C18.Model.url :=
  match redecode (C09.Model.get (C09.Model.root (s_req s)) ++ C09.Model.get (C09.Model.path (s_req s))) with
  | None => C18.Model.Raise C18.Model.ValueError
  | Some pth =>
      with_query (rq_query (aq_request rq))
        (fun q =>
           match C18.Model.environ_url
                   (url_request rq (env_get (lit "HTTP_HOST") (environ_headers (aq_request rq))) [] pth q) with
           | Some x => x
           | None => C18.Model.Raise C18.Model.KeyError
           end)
  end.

(* URL(scope=scope): scope.get("root_path", "") + scope["path"]; the Host header is the first
   b"host" entry of scope["headers"] (the loop breaks) *)
Definition asgi_url (rq : areq) (s : state) (path : bytes) : C18.Model.res C18.Model.url :=
  with_query (rq_query (aq_request rq))
    (fun q =>
       C18.Model.scope_url
         (url_request rq (hget (lit "host") (scope_headers (aq_request rq)))
                      (C09.Model.get (C09.Model.root (s_req s))) path q)).

(* ---------- how each interface reads the request ---------- *)

(* environ.get(key, "") *)
Definition env_text (k : bytes) (env : list header) : bytes := C09.Model.get (env_get k env).

(* for k, v in scope["headers"]:  if k == k1: a = f(v)  elif k == k2: b = f(v) *)
Definition scan2 {A : Type} (k1 k2 : bytes) (f : bytes -> A) (hs : list header) (a0 b0 : A) : A * A :=
  fold_left (fun ab kv =>
               if bytes_eqb (fst kv) k1 then (f (snd kv), snd ab)
               else if bytes_eqb (fst kv) k2 then (fst ab, f (snd kv))
               else ab) hs (a0, b0).

(* If-None-Match, If-Modified-Since as Files.__call__ / Pages.__call__ read them *)
Definition wsgi_cond (rq : areq) : bytes * bytes :=
  let env := environ_headers (aq_request rq) in
  (env_text (lit "HTTP_IF_NONE_MATCH") env, env_text (lit "HTTP_IF_MODIFIED_SINCE") env).

Definition asgi_cond (rq : areq) : bytes * bytes :=
  scan2 (lit "if-none-match") (lit "if-modified-since") (fun v => v) (scope_headers (aq_request rq)) [] [].

(* Range, If-Range as FileResponse.__call__ reads them *)
Definition wsgi_range (rq : areq) : option bytes * option bytes :=
  let env := environ_headers (aq_request rq) in
  (env_get (lit "HTTP_RANGE") env, env_get (lit "HTTP_IF_RANGE") env).

Definition asgi_range (rq : areq) : option bytes * option bytes :=
  scan2 (lit "range") (lit "if-range") (@Some bytes) (scope_headers (aq_request rq)) None None.

(* environ["REQUEST_METHOD"] == "HEAD" / scope["method"] == "HEAD" *)
Definition is_head (rq : areq) : bool := bytes_eqb (rq_method (aq_request rq)) (lit "HEAD").

(* ---------- Files.__call__ / Pages.__call__ ---------- *)

(* baize/wsgi/staticfiles.py *)
Definition static_wsgi (k : C07.Model.kind) (c : scfg) (e : senv) (rq : areq) (s : state) : obs :=
  let '(inm, ims) := wsgi_cond rq in
  let path := C09.Model.get (C09.Model.path (s_req s)) in          (* environ.get("PATH_INFO", "") *)
  match fst (C07.Model.wsgi_call k (se_fs e) (se_cwd e) (sc_dir c) path) with
  | C07.Model.Served p id =>
      if not_modified e k C14.Model.Wsgi id inm ims
      then obs_of (wsgi_response (r304 c))
      else let '(range, if_range) := wsgi_range rq in
           let fr := file_req_of e (is_head rq) range if_range p id in
           file_answer (cache_headers c) fr (wsgi_response (RFile fr))
  | C07.Model.Redirect _ => redirect_answer wsgi_response (wsgi_url rq s)
  | C07.Model.NotFound => OHttp 404                                  (* raise HTTPException(404) *)
  | C07.Model.Crash => OCrash
  end.

(* baize/asgi/staticfiles.py *)
Definition static_asgi (k : C07.Model.kind) (c : scfg) (e : senv) (rq : areq) (s : state) : obs :=
  if C09.Model.lifespan (s_req s) then ORaised C09.Model.KeyError     (* scope["headers"] *)
  else
    let '(inm, ims) := asgi_cond rq in
    match C09.Model.path (s_req s) with
    | None => ORaised C09.Model.KeyError                              (* scope["path"] *)
    | Some path =>
        match fst (C07.Model.asgi_call k (se_fs e) (se_cwd e) (sc_dir c) path) with
        | C07.Model.Served p id =>
            if not_modified e k C14.Model.Asgi id inm ims
            then obs_of (asgi_response (r304 c))
            else let '(range, if_range) := asgi_range rq in
                 let fr := file_req_of e (is_head rq) range if_range p id in
                 file_answer (cache_headers c) fr (asgi_response (RFile fr))
        | C07.Model.Redirect _ => redirect_answer asgi_response (asgi_url rq s path)
        | C07.Model.NotFound => OHttp 404
        | C07.Model.Crash => OCrash
        end
    end.
