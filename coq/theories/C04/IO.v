(* C04 — wire interface.

   req   <method> <query> ( ( <name> <value> ) ... ) <client> ( <chunk> ... )   -> <wsgi view> <asgi view>
   resp  <recipe>                                                             -> <wsgi response> <asgi response>
   diff  <text>                                                               -> "same"
   app   <lim> ( ( <cp> <class> ) ... ) <tree> <method> <root> <path> ( ( <name> <value> ) ... ) ( ( <text> ( b ... ) ) ... )
           tree := ( "leaf"  ( "fixed" <recipe> ) )             a view that answers with the recipe
                 | ( "leaf"  ( "echo" <name> <status> ) )       a view that writes what it sees into a text/plain body
                 | ( "route" ( ( <route text> tree ) ... ) )    Router
                 | ( "mount" ( ( <prefix> tree ) ... ) )        Subpaths
                 | ( "hosts" ( ( <pattern number> tree ) ... ) ) Hosts; the last argument of the case is the table of
                                                                re.fullmatch answers, one row per text (C09)
         -> <wsgi answer> <asgi answer>     each ( status headers body ) | ( "nostart" ) | ( "exc" name ) | ( "stuck" )
          | ( "cfg" )                       a Route of the tree cannot be constructed *)
From Coq Require Import List NArith ZArith Bool.
From Baize Require Import Lib.Wire Lib.Order C02.Model C02.IO Resp.Model Resp.IO C04.Model C04.Apps.
From Baize Require C08.IO.
Import ListNotations.

Definition rd_request (c : list sx) : option request :=
  match c with
  | [Str m; Str q; Lst hs; cl; Lst body] =>
      Some {| rq_method := m; rq_query := q; rq_headers := map rd_header hs;
              rq_client := match cl with Lst [Str h; Num p] => Some (h, Z.to_nat p) | _ => None end;
              rq_body := map sx_s body |}
  | _ => None
  end.

Definition show_store (h : hstore) : sx := show_headers h.

Definition show_client (c : option (bytes * N)) : sx :=
  match c with Some (h, p) => Lst [Str h; of_N p] | None => Lst [] end.

Definition show_resp (o : option (nat * list header * bytes)) : sx :=
  match o with
  | Some (st, hs, body) => Lst [of_nat st; show_headers hs; Str body]
  | None => Lst [tag (lit "nostart")]
  end.

(* ---------- application trees ---------- *)

Definition sep : bytes := [124%N].

Definition value_text (v : C08.Model.value) : bytes :=
  match v with
  | C08.Model.VStr t => lit "s:" ++ t
  | C08.Model.VInt n => lit "i:" ++ dec n
  | C08.Model.VDec c k => lit "d:" ++ C08.Model.dec_fmt c k
  | C08.Model.VUuid n => lit "u:" ++ C08.Model.uuid_fmt n
  | C08.Model.VDate y m d => lit "t:" ++ C08.Model.date_fmt y m d
  end.

(* "-" without path parameters, else name=kind:text; for each one, sorted by name *)
Definition params_text (o : option C08.Model.params) : bytes :=
  match o with
  | None => lit "-"
  | Some ps => flat_map (fun p => fst p ++ [61%N] ++ value_text (snd p) ++ [59%N]) (sort_by C08.IO.param_leb ps)
  end.

Definition headers_text (h : hstore) : bytes :=
  flat_map (fun p => fst p ++ lit ": " ++ snd p ++ [10%N]) (sort_headers h).

(* PlainTextResponse("|".join([name, method, root path, path, path parameters, headers]), status) *)
Definition echo_view (name : bytes) (status : nat) (v : seen) : recipe :=
  RSmall (bare status)
         (name ++ sep ++ sn_method v ++ sep ++ sn_root v ++ sep ++ sn_path v ++ sep
          ++ params_text (sn_params v) ++ sep ++ headers_text (sn_headers v))
         (lit "text/plain") (lit "utf-8").

Definition rd_view (items : list sx) : option (seen -> recipe) :=
  match items with
  | [Str kind; rc] =>
      if bytes_eqb kind (lit "fixed") then
        match rd_recipe rc with Some r => Some (fun _ => r) | None => None end
      else None
  | [Str kind; Str name; Num st] =>
      if bytes_eqb kind (lit "echo") then Some (echo_view name (Z.to_nat st)) else None
  | _ => None
  end.

Section RdApp.
  Variable ucls : N -> N.

  Fixpoint rd_app (s : sx) : option (app nat) :=
    match s with
    | Lst [Str kind; Lst items] =>
        if bytes_eqb kind (lit "leaf") then
          match rd_view items with Some v => Some (Leaf v) | None => None end
        else
          let subs :=
            (fix go (l : list sx) : option (list (sx * app nat)) :=
               match l with
               | [] => Some []
               | Lst [key; t] :: r =>
                   match rd_app t, go r with
                   | Some a, Some rest => Some ((key, a) :: rest)
                   | _, _ => None
                   end
               | _ :: _ => None
               end) items in
          match subs with
          | None => None
          | Some subs =>
              if bytes_eqb kind (lit "route") then
                option_map Route
                ((fix comp (l : list (sx * app nat)) : option (list (list C08.Model.seg * app nat)) :=
                   match l with
                   | [] => Some []
                   | (key, a) :: r =>
                       match C08.Model.compile_route ucls (sx_s key), comp r with
                       | inl segs, Some rest => Some ((segs, a) :: rest)
                       | _, _ => None
                       end
                   end) subs)
              else if bytes_eqb kind (lit "mount") then
                Some (Mount (map (fun e => (sx_s (fst e), snd e)) subs))
              else if bytes_eqb kind (lit "hosts") then
                Some (HostSwitch (map (fun e => (Z.to_nat (sx_z (fst e)), snd e)) subs))
              else None
          end
    | _ => None
    end.
End RdApp.

Definition show_obs (o : obs) : sx :=
  match o with
  | OResp st hs body => Lst [of_nat st; show_headers hs; Str body]
  | ONoStart => Lst [tag (lit "nostart")]
  | ORaised C09.Model.KeyError => Lst [tag (lit "exc"); tag (lit "KeyError")]
  | ORaised C09.Model.RuntimeError => Lst [tag (lit "exc"); tag (lit "RuntimeError")]
  | OStuck => Lst [tag (lit "stuck")]
  end.

Definition row_of_sx (s : sx) : bytes * list bool :=
  match s with
  | Lst [Str t; Lst bs] => (t, map sx_b bs)
  | _ => ([], [])
  end.

Definition run_app (c : list sx) : list sx :=
  match c with
  | [Num lim; Lst cl; tree; Str method; Str root; Str path; Lst hs; Lst rows] =>
      let ucls := C08.IO.lookup_cls (map C08.IO.cls_of_sx cl) in
      match rd_app ucls tree with
      | None => [Lst [tag (lit "cfg")]]
      | Some a =>
          let rq := {| aq_request := {| rq_method := method; rq_query := []; rq_headers := map rd_header hs;
                                        rq_client := None; rq_body := [] |};
                       aq_root := root; aq_path := path |} in
          let fm := C09.Model.table_fullmatch (map row_of_sx rows) in
          [show_obs (serve_wsgi fm (Z.to_N lim) rq a); show_obs (serve_asgi fm (Z.to_N lim) rq a)]
      end
  | _ => [tag (lit "badcase")]
  end.

Definition run_case (c : list sx) : list sx :=
  match c with
  | Str kind :: rest =>
      if bytes_eqb kind (lit "req") then
        match rd_request rest with
        | Some r =>
            let addr := match rq_client r with Some (h, _) => Some h | None => None end in
            let port := match rq_client r with Some (_, p) => Some (dec (N.of_nat p)) | None => None end in
            [Lst [Str (rq_method r); show_store (wsgi_headers (environ_headers r));
                  show_client (wsgi_client addr port); Str (wsgi_body r 3)];
             Lst [Str (rq_method r); show_store (asgi_headers (scope_headers r));
                  show_client (asgi_client (rq_client r)); Str (asgi_body r)]]
        | None => [tag (lit "badcase")]
        end
      else if bytes_eqb kind (lit "resp") then
        match rest with
        | [rc] => match rd_recipe rc with
                  | Some r => [show_resp (wsgi_response r); show_resp (asgi_response r)]
                  | None => [tag (lit "badrecipe")]
                  end
        | _ => [tag (lit "badcase")]
        end
      else if bytes_eqb kind (lit "diff") then [tag (lit "same")]
      else if bytes_eqb kind (lit "app") then run_app rest
      else [tag (lit "badcase")]
  | _ => [tag (lit "badcase")]
  end.

Definition run_line (l : list N) : list N := print_line (run_case (parse_line l)).
