(* C04 — wire interface.

   req   <method> <query> ( ( <name> <value> ) ... ) <client> ( <chunk> ... )   -> <wsgi view> <asgi view>
   resp  <recipe>                                                             -> <wsgi response> <asgi response>
   diff  <text>                                                               -> "same"
   app   <lim> ( ( <cp> <class> ) ... ) <tree> <method> <root> <path> ( ( <name> <value> ) ... ) ( ( <text> ( b ... ) ) ... )
           tree := ( "leaf"  ( "fixed" <recipe> ) )             a view that answers with the recipe
                 | ( "leaf"  ( "echo" <name> <status> ) )       a view that writes what it sees into a text/plain body
                 | ( "route" ( ( <route text> tree ) ... ) )    Router
                 | ( "mount" ( ( <prefix> tree ) ... ) )        Subpaths
                 | ( "hosts" ( ( <pattern number> tree ) ... ) ) Hosts; the last argument of the case is the table of
                                                                re.fullmatch answers, one row per text (C09)
                 | ( "static" ( <0 Files | 1 Pages> <directory> <cacheability> <max_age> ) )   Files / Pages on the world of the case
         -> <wsgi answer> <asgi answer>     each ( status headers body ) | ( "nostart" ) | ( "exc" name ) | ( "stuck" )
                                                 | ( "http" status ) | ( "crash" )
          | ( "cfg" )                       a Route of the tree cannot be constructed
   app   ... the same eight items ... <query> <scheme> ( <server name> <port> ) <world>
           the long form, for trees with static leaves; headers are printed in the order they are sent (not sorted)
           world := ( <cwd>
                      ( ( <path> <0 file | 1 dir | 2 other | 3 error> <id> ) ... )       os.stat; a path not listed is absent
                      ( ( <id> <content> <mtime_ns> <ctime_ns> <etag hex> <int(st_mtime)> <int(st_ctime)> <Last-Modified text> ) ... )
                      ( ( <path> <content type> ( <content-disposition> )|() ) ... )    guess_type / generate_common_headers
                      ( ( <If-Modified-Since text> ( <second> )|() ) ... )               parsedate_to_datetime
                      <boundary> ) *)
From Coq Require Import List NArith ZArith Bool.
From Baize Require Import Lib.Wire Lib.Order C02.Model C02.IO Resp.Model Resp.IO C04.Model C04.Apps.
From Baize Require C07.Model C08.IO C14.IO.
Import ListNotations.

Definition rd_request (c : list sx) : option request :=
  match c with
  | [Str m; Str q; Lst hs; cl; Lst body] =>
      Some {| rq_method := m; rq_query := q; rq_headers := map rd_header hs;
              rq_client := match cl with Lst [Str h; Num p] => Some (h, Z.to_nat p) | _ => None end;
              rq_body := map sx_s body |}
  | _ => None
  end.

Definition show_store (h : hstore) : sx := show_headers h.

Definition show_client (c : option (bytes * N)) : sx :=
  match c with Some (h, p) => Lst [Str h; of_N p] | None => Lst [] end.

Definition show_resp (o : option (nat * list header * bytes)) : sx :=
  match o with
  | Some (st, hs, body) => Lst [of_nat st; show_headers hs; Str body]
  | None => Lst [tag (lit "nostart")]
  end.

(* ---------- application trees ---------- *)

Definition sep : bytes := [124%N].

Definition value_text (v : C08.Model.value) : bytes :=
  match v with
  | C08.Model.VStr t => lit "s:" ++ t
  | C08.Model.VInt n => lit "i:" ++ dec n
  | C08.Model.VDec c k => lit "d:" ++ C08.Model.dec_fmt c k
  | C08.Model.VUuid n => lit "u:" ++ C08.Model.uuid_fmt n
  | C08.Model.VDate y m d => lit "t:" ++ C08.Model.date_fmt y m d
  end.

(* "-" without path parameters, else name=kind:text; for each one, sorted by name *)
Definition params_text (o : option C08.Model.params) : bytes :=
  match o with
  | None => lit "-"
  | Some ps => flat_map (fun p => fst p ++ [61%N] ++ value_text (snd p) ++ [59%N]) (sort_by C08.IO.param_leb ps)
  end.

Definition headers_text (h : hstore) : bytes :=
  flat_map (fun p => fst p ++ lit ": " ++ snd p ++ [10%N]) (sort_headers h).

(* PlainTextResponse("|".join([name, method, root path, path, path parameters, headers]), status) *)
Definition echo_view (name : bytes) (status : nat) (v : seen) : recipe :=
  RSmall (bare status)
         (name ++ sep ++ sn_method v ++ sep ++ sn_root v ++ sep ++ sn_path v ++ sep
          ++ params_text (sn_params v) ++ sep ++ headers_text (sn_headers v))
         (lit "text/plain") (lit "utf-8").

Definition rd_view (items : list sx) : option (seen -> recipe) :=
  match items with
  | [Str kind; rc] =>
      if bytes_eqb kind (lit "fixed") then
        match rd_recipe rc with Some r => Some (fun _ => r) | None => None end
      else None
  | [Str kind; Str name; Num st] =>
      if bytes_eqb kind (lit "echo") then Some (echo_view name (Z.to_nat st)) else None
  | _ => None
  end.

(* ---------- the world of the static leaves ---------- *)

Fixpoint lookup_path {A : Type} (t : list (bytes * A)) (p : bytes) : option A :=
  match t with
  | [] => None
  | (p', v) :: r => if bytes_eqb p' p then Some v else lookup_path r p
  end.

Fixpoint lookup_n {A : Type} (t : list (N * A)) (k : N) : option A :=
  match t with
  | [] => None
  | (k', v) :: r => if N.eqb k' k then Some v else lookup_n r k
  end.

Definition rd_node (x : sx) : bytes * C07.Model.node :=
  match x with
  | Lst [Str p; Num k; Num id] =>
      (p, if Z.eqb k 0 then C07.Model.NFile (Z.to_N id)
          else if Z.eqb k 1 then C07.Model.NDir
          else if Z.eqb k 2 then C07.Model.NOther
          else C07.Model.NError)
  | _ => ([], C07.Model.NAbsent)
  end.

(* id -> (content, mtime, ctime, etag, int(st_mtime), int(st_ctime), Last-Modified) *)
Record frow := { fw_id : N; fw_meta : fmeta; fw_etag : bytes; fw_msec : N; fw_csec : N; fw_lastmod : bytes }.

Definition rd_frow (x : sx) : option frow :=
  match x with
  | Lst [Num id; Str content; Num mt; Num ct; Str etag; Num ms; Num cs; Str lm] =>
      Some {| fw_id := Z.to_N id;
              fw_meta := {| fm_content := content; fm_mtime := Z.to_N mt; fm_ctime := Z.to_N ct |};
              fw_etag := etag; fw_msec := Z.to_N ms; fw_csec := Z.to_N cs; fw_lastmod := lm |}
  | _ => None
  end.

Definition rd_ctype_row (x : sx) : bytes * (bytes * option bytes) :=
  match x with
  | Lst [Str p; Str ct; Lst [Str d]] => (p, (ct, Some d))
  | Lst [Str p; Str ct; _] => (p, (ct, None))
  | _ => ([], ([], None))
  end.

Definition rd_date_row (x : sx) : bytes * option Z :=
  match x with
  | Lst [Str t; Lst [Num s]] => (t, Some s)
  | Lst [Str t; _] => (t, None)
  | _ => ([], None)
  end.

Definition opt_list {A : Type} (l : list (option A)) : list A :=
  flat_map (fun o => match o with Some a => [a] | None => [] end) l.

Definition rd_world (x : sx) : senv :=
  match x with
  | Lst [Str cwd; Lst nodes; Lst files; Lst ctypes; Lst dates; Str boundary] =>
      let nt := map rd_node nodes in
      let ft := opt_list (map rd_frow files) in
      let ct := map rd_ctype_row ctypes in
      let dt := map rd_date_row dates in
      {| se_cwd := cwd;
         se_fs := fun p => match lookup_path nt p with Some n => n | None => C07.Model.NAbsent end;
         se_meta := fun id => match lookup_n (map (fun r => (fw_id r, fw_meta r)) ft) id with
                              | Some m => m
                              | None => {| fm_content := []; fm_mtime := 0; fm_ctime := 0 |}
                              end;
         se_fkey := fun t => t;
         se_sha := C14.IO.sha_of (map (fun r => (fm_mtime (fw_meta r), N.of_nat (length (fm_content (fw_meta r))), fw_etag r)) ft);
         se_isec := C14.IO.isec_of (flat_map (fun r => [(fm_mtime (fw_meta r), fw_msec r); (fm_ctime (fw_meta r), fw_csec r)]) ft);
         se_fmtdate := fun sec => match lookup_n (map (fun r => (fw_msec r, fw_lastmod r)) ft) sec with
                                  | Some t => t
                                  | None => 63%N :: dec sec
                                  end;
         se_parsedate := fun t => match lookup_path dt t with Some o => o | None => None end;
         se_ctype := fun p => match lookup_path ct p with Some (c, _) => c | None => lit "application/octet-stream" end;
         se_disp := fun p => match lookup_path ct p with Some (_, d) => d | None => None end;
         se_boundary := boundary |}
  | _ =>
      {| se_cwd := lit "/"; se_fs := fun _ => C07.Model.NAbsent;
         se_meta := fun _ => {| fm_content := []; fm_mtime := 0; fm_ctime := 0 |};
         se_fkey := fun t => t; se_sha := C14.IO.sha_of []; se_isec := C14.IO.isec_of [];
         se_fmtdate := fun sec => 63%N :: dec sec; se_parsedate := fun _ => None;
         se_ctype := fun _ => lit "application/octet-stream"; se_disp := fun _ => None; se_boundary := [] |}
  end.

Section RdApp.
  Variable ucls : N -> N.
  Variable env : senv.

  Fixpoint rd_app (s : sx) : option (app nat) :=
    match s with
    | Lst [Str kind; Lst items] =>
        if bytes_eqb kind (lit "leaf") then
          match rd_view items with Some v => Some (Leaf v) | None => None end
        else if bytes_eqb kind (lit "static") then
          match items with
          | [Num k; Str dir; Str cache; Num age] =>
              Some (StaticLeaf (if Z.eqb k 0 then C07.Model.KFiles else C07.Model.KPages)
                               {| sc_dir := dir; sc_cacheability := cache; sc_max_age := age |} env)
          | _ => None
          end
        else
          let subs :=
            (fix go (l : list sx) : option (list (sx * app nat)) :=
               match l with
               | [] => Some []
               | Lst [key; t] :: r =>
                   match rd_app t, go r with
                   | Some a, Some rest => Some ((key, a) :: rest)
                   | _, _ => None
                   end
               | _ :: _ => None
               end) items in
          match subs with
          | None => None
          | Some subs =>
              if bytes_eqb kind (lit "route") then
                option_map Route
                ((fix comp (l : list (sx * app nat)) : option (list (list C08.Model.seg * app nat)) :=
                   match l with
                   | [] => Some []
                   | (key, a) :: r =>
                       match C08.Model.compile_route ucls (sx_s key), comp r with
                       | inl segs, Some rest => Some ((segs, a) :: rest)
                       | _, _ => None
                       end
                   end) subs)
              else if bytes_eqb kind (lit "mount") then
                Some (Mount (map (fun e => (sx_s (fst e), snd e)) subs))
              else if bytes_eqb kind (lit "hosts") then
                Some (HostSwitch (map (fun e => (Z.to_nat (sx_z (fst e)), snd e)) subs))
              else None
          end
    | _ => None
    end.
End RdApp.

(* [ordered]: the header list as it is sent; otherwise sorted *)
Definition show_obs (ordered : bool) (o : obs) : sx :=
  match o with
  | OResp st hs body =>
      Lst [of_nat st;
           if ordered then Lst (map (fun p => Lst [Str (fst p); Str (snd p)]) hs) else show_headers hs;
           Str body]
  | ONoStart => Lst [tag (lit "nostart")]
  | ORaised C09.Model.KeyError => Lst [tag (lit "exc"); tag (lit "KeyError")]
  | ORaised C09.Model.RuntimeError => Lst [tag (lit "exc"); tag (lit "RuntimeError")]
  | OStuck => Lst [tag (lit "stuck")]
  | OHttp st => Lst [tag (lit "http"); of_nat st]
  | OCrash => Lst [tag (lit "crash")]
  end.

Definition row_of_sx (s : sx) : bytes * list bool :=
  match s with
  | Lst [Str t; Lst bs] => (t, map sx_b bs)
  | _ => ([], [])
  end.

Definition run_tree (ordered : bool) (lim : Z) (cl : list sx) (tree : sx) (rq : areq) (rows : list sx) (env : senv) : list sx :=
  let ucls := C08.IO.lookup_cls (map C08.IO.cls_of_sx cl) in
  match rd_app ucls env tree with
  | None => [Lst [tag (lit "cfg")]]
  | Some a =>
      let fm := C09.Model.table_fullmatch (map row_of_sx rows) in
      [show_obs ordered (serve_wsgi fm (Z.to_N lim) rq a); show_obs ordered (serve_asgi fm (Z.to_N lim) rq a)]
  end.

Definition run_app (c : list sx) : list sx :=
  match c with
  | [Num lim; Lst cl; tree; Str method; Str root; Str path; Lst hs; Lst rows] =>
      let rq := {| aq_request := {| rq_method := method; rq_query := []; rq_headers := map rd_header hs;
                                    rq_client := None; rq_body := [] |};
                   aq_root := root; aq_path := path; aq_scheme := lit "http"; aq_server := (lit "testserver", 80%N) |} in
      run_tree false lim cl tree rq rows (rd_world (Lst []))
  | [Num lim; Lst cl; tree; Str method; Str root; Str path; Lst hs; Lst rows; Str query; Str scheme; Lst [Str sname; Num sport]; world] =>
      let rq := {| aq_request := {| rq_method := method; rq_query := query; rq_headers := map rd_header hs;
                                    rq_client := None; rq_body := [] |};
                   aq_root := root; aq_path := path; aq_scheme := scheme; aq_server := (sname, Z.to_N sport) |} in
      run_tree true lim cl tree rq rows (rd_world world)
  | _ => [tag (lit "badcase")]
  end.

Definition run_case (c : list sx) : list sx :=
  match c with
  | Str kind :: rest =>
      if bytes_eqb kind (lit "req") then
        match rd_request rest with
        | Some r =>
            let addr := match rq_client r with Some (h, _) => Some h | None => None end in
            let port := match rq_client r with Some (_, p) => Some (dec (N.of_nat p)) | None => None end in
            [Lst [Str (rq_method r); show_store (wsgi_headers (environ_headers r));
                  show_client (wsgi_client addr port); Str (wsgi_body r 3)];
             Lst [Str (rq_method r); show_store (asgi_headers (scope_headers r));
                  show_client (asgi_client (rq_client r)); Str (asgi_body r)]]
        | None => [tag (lit "badcase")]
        end
      else if bytes_eqb kind (lit "resp") then
        match rest with
        | [rc] => match rd_recipe rc with
                  | Some r => [show_resp (wsgi_response r); show_resp (asgi_response r)]
                  | None => [tag (lit "badrecipe")]
                  end
        | _ => [tag (lit "badcase")]
        end
      else if bytes_eqb kind (lit "diff") then [tag (lit "same")]
      else if bytes_eqb kind (lit "app") then run_app rest
      else [tag (lit "badcase")]
  | _ => [tag (lit "badcase")]
  end.

Definition run_line (l : list N) : list N := print_line (run_case (parse_line l)).
