(* C04 — wire interface. *)
From Coq Require Import List NArith ZArith Bool.
From Baize Require Import Lib.Wire Lib.Order C02.Model C02.IO Resp.Model Resp.IO C04.Model.
Import ListNotations.

Definition rd_request (c : list sx) : option request :=
  match c with
  | [Str m; Str q; Lst hs; cl; Lst body] =>
      Some {| rq_method := m; rq_query := q; rq_headers := map rd_header hs;
              rq_client := match cl with Lst [Str h; Num p] => Some (h, Z.to_nat p) | _ => None end;
              rq_body := map sx_s body |}
  | _ => None
  end.

Definition show_store (h : hstore) : sx := show_headers h.

Definition show_client (c : option (bytes * N)) : sx :=
  match c with Some (h, p) => Lst [Str h; of_N p] | None => Lst [] end.

Definition show_resp (o : option (nat * list header * bytes)) : sx :=
  match o with
  | Some (st, hs, body) => Lst [of_nat st; show_headers hs; Str body]
  | None => Lst [tag (lit "nostart")]
  end.

Definition run_case (c : list sx) : list sx :=
  match c with
  | Str kind :: rest =>
      if bytes_eqb kind (lit "req") then
        match rd_request rest with
        | Some r =>
            let addr := match rq_client r with Some (h, _) => Some h | None => None end in
            let port := match rq_client r with Some (_, p) => Some (dec (N.of_nat p)) | None => None end in
            [Lst [Str (rq_method r); show_store (wsgi_headers (environ_headers r));
                  show_client (wsgi_client addr port); Str (wsgi_body r 3)];
             Lst [Str (rq_method r); show_store (asgi_headers (scope_headers r));
                  show_client (asgi_client (rq_client r)); Str (asgi_body r)]]
        | None => [tag (lit "badcase")]
        end
      else if bytes_eqb kind (lit "resp") then
        match rest with
        | [rc] => match rd_recipe rc with
                  | Some r => [show_resp (wsgi_response r); show_resp (asgi_response r)]
                  | None => [tag (lit "badrecipe")]
                  end
        | _ => [tag (lit "badcase")]
        end
      else if bytes_eqb kind (lit "diff") then [tag (lit "same")]
      else [tag (lit "badcase")]
  | _ => [tag (lit "badcase")]
  end.

Definition run_line (l : list N) : list N := print_line (run_case (parse_line l)).
