(* C04 — proof of app_equiv: a tree of bundled applications answers one abstract request
   alike on both interfaces.  Induction on the tree; each dispatcher's step rests on the
   theorem of the property that owns its model (C08 router_dispatch / first_match, C09
   mount_first / mount_split / hosts_first), each leaf on response_equiv and
   headers_view_equiv. *)
From Coq Require Import List NArith Bool Arith Lia.
From Baize Require Import Lib.Wire Lib.Order C02.Model Resp.Model C04.Model C04.Proofs C04.Apps C04.StaticProofs.
From Baize Require C07.Model C08.Model C08.Properties C09.Model C09.Proofs C09.Properties.
Import ListNotations.

(* ---------- specification vocabulary ---------- *)

(* the header lists of the two answers: equal, or — below an event-stream leaf — the ASGI
   list is the WSGI list plus connection: keep-alive *)
Definition headers_equiv (hw ha : list header) : Prop :=
  ha = hw \/
  (filter not_connection ha = hw /\
   forall h, In h ha -> not_connection h = false -> h = (lit "connection", lit "keep-alive")).

(* both answers are responses with the same status, body and (modulo the above) headers; where
   Files / Pages take part ([http_ok]): or both raise the same HTTPException (their 404, the 400
   of Pages), which no application of the tree catches *)
Definition obs_equiv (http_ok : bool) (w a : obs) : Prop :=
  match w, a with
  | OResp sw hw bw, OResp sa ha ba => sw = sa /\ bw = ba /\ headers_equiv hw ha
  | OHttp sw, OHttp sa => http_ok = true /\ sw = sa
  | _, _ => False
  end.

(* every view of the tree has the property Q *)
Inductive all_leaves {P : Type} (Q : (seen -> recipe) -> Prop) : app P -> Prop :=
| al_leaf view : Q view -> all_leaves Q (Leaf view)
| al_route routes : (forall e, In e routes -> all_leaves Q (snd e)) -> all_leaves Q (Route routes)
| al_mount routes : (forall e, In e routes -> all_leaves Q (snd e)) -> all_leaves Q (Mount routes)
| al_hosts table : (forall e, In e table -> all_leaves Q (snd e)) -> all_leaves Q (HostSwitch table)
| al_static k c e : C07.Model.wf_dir (sc_dir c) = true -> all_leaves Q (StaticLeaf k c e).

(* whatever it sees, a view answers with a recipe response_equiv speaks about *)
Definition comparable_view (view : seen -> recipe) : Prop := forall v, comparable (view v).

(* ---------- induction on the tree ---------- *)

Section AppInd.
  Context {P : Type}.
  Variable Q : app P -> Prop.
  Hypothesis HLeaf : forall view, Q (Leaf view).
  Hypothesis HRoute : forall routes, Forall (fun e => Q (snd e)) routes -> Q (Route routes).
  Hypothesis HMount : forall routes, Forall (fun e => Q (snd e)) routes -> Q (Mount routes).
  Hypothesis HHosts : forall table, Forall (fun e => Q (snd e)) table -> Q (HostSwitch table).
  Hypothesis HStatic : forall k c e, Q (StaticLeaf k c e).

  Fixpoint app_ind' (a : app P) : Q a :=
    match a with
    | Leaf view => HLeaf view
    | Route routes =>
        HRoute routes
          ((fix go (l : list (list C08.Model.seg * app P)) : Forall (fun e => Q (snd e)) l :=
              match l with
              | [] => Forall_nil _
              | e :: r => Forall_cons e (app_ind' (snd e)) (go r)
              end) routes)
    | Mount routes =>
        HMount routes
          ((fix go (l : list (bytes * app P)) : Forall (fun e => Q (snd e)) l :=
              match l with
              | [] => Forall_nil _
              | e :: r => Forall_cons e (app_ind' (snd e)) (go r)
              end) routes)
    | HostSwitch table =>
        HHosts table
          ((fix go (l : list (P * app P)) : Forall (fun e => Q (snd e)) l :=
              match l with
              | [] => Forall_nil _
              | e :: r => Forall_cons e (app_ind' (snd e)) (go r)
              end) table)
    | StaticLeaf k c e => HStatic k c e
    end.
End AppInd.

(* ---------- leaves ---------- *)

Lemma obs_equiv_mono (b1 b2 : bool) (w a : obs) : (b1 = true -> b2 = true) -> obs_equiv b1 w a -> obs_equiv b2 w a.
Proof.
  intros Hb. destruct w, a; cbn [obs_equiv]; try exact (fun H => H).
  intros [H1 H2]. split; [exact (Hb H1)|exact H2].
Qed.

Lemma resp_obs_equiv (b : bool) (r : recipe) : comparable r ->
  obs_equiv b (obs_of (wsgi_response r)) (obs_of (asgi_response r)).
Proof.
  intros Hc. destruct (response_equiv_proof r Hc) as (st & hw & ha & body & Hw & Ha & Hh).
  rewrite Hw, Ha. cbn [obs_of obs_equiv]. split; [reflexivity|]. split; [reflexivity|].
  unfold headers_equiv. destruct r; try (left; exact Hh). right. exact Hh.
Qed.

Lemma seen_equiv (rq : areq) (s : state) :
  Forall (fun h => ~ In 95%N (fst h)) (rq_headers (aq_request rq)) ->
  wsgi_seen rq s = asgi_seen rq s.
Proof.
  intros H. unfold wsgi_seen, asgi_seen. rewrite (headers_view_equiv_proof _ H). reflexivity.
Qed.

(* ---------- tables with named entries ---------- *)

Lemma nth_error_index_from {K A B : Type} (name : nat -> B) (l : list (K * A)) : forall k i,
  nth_error (index_from name k l) i =
  match nth_error l i with
  | Some e => Some (fst e, name (k + i))
  | None => None
  end.
Proof.
  induction l as [|[key x] r IH]; intros k i.
  - destruct i; reflexivity.
  - destruct i as [|i]; cbn [index_from nth_error].
    + rewrite Nat.add_0_r. reflexivity.
    + rewrite IH. replace (S k + i) with (k + S i) by lia. reflexivity.
Qed.

Lemma index_from_nth {K A B : Type} (name : nat -> B) (l : list (K * A)) k i key x :
  nth_error (index_from name k l) i = Some (key, x) ->
  exists e, nth_error l i = Some e /\ x = name (k + i).
Proof.
  rewrite nth_error_index_from. destruct (nth_error l i) as [e|]; [|discriminate].
  intro H. injection H as _ <-. exists e. split; reflexivity.
Qed.

Lemma call_map {A : Type} (f : A -> state -> obs) (l : list A) (i : nat) (s : state) :
  call (map f l) i s = match nth_error l i with Some e => f e s | None => OStuck end.
Proof.
  unfold call. rewrite nth_error_map. destruct (nth_error l i); reflexivity.
Qed.

(* ---------- the Host header on both sides ---------- *)

Lemma host_char (u c : N) : (65 <= u)%N -> (u <= 90)%N ->
  (if N.eqb (upper_c c) 45 then 95%N else upper_c c) = u <-> lower_c c = (u + 32)%N.
Proof.
  intros Hu1 Hu2. unfold upper_c, lower_c.
  destruct (N.leb 97 c && N.leb c 122)%bool eqn:E1.
  - apply andb_true_iff in E1 as [A B]. apply N.leb_le in A, B.
    assert (E5 : (N.leb 65 c && N.leb c 90)%bool = false).
    { apply andb_false_iff. right. apply N.leb_gt. lia. }
    rewrite E5.
    assert (E2 : (c - 32 =? 45)%N = false) by (apply N.eqb_neq; lia). rewrite E2. lia.
  - destruct (N.leb 65 c && N.leb c 90)%bool eqn:E3.
    + apply andb_true_iff in E3 as [A B]. apply N.leb_le in A, B.
      assert (E2 : (c =? 45)%N = false) by (apply N.eqb_neq; lia). rewrite E2. lia.
    + apply andb_false_iff in E1. apply andb_false_iff in E3.
      destruct (c =? 45)%N eqn:E2.
      * apply N.eqb_eq in E2. subst c. lia.
      * destruct E1 as [E1|E1], E3 as [E3|E3]; apply N.leb_gt in E1, E3; lia.
Qed.

Lemma map_eq_pointwise {A : Type} (f g : A -> N) (u v : list N) :
  Forall2 (fun x y => forall a, f a = x <-> g a = y) u v ->
  forall l, map f l = u <-> map g l = v.
Proof.
  induction 1 as [|x y u v Hxy _ IH]; intros l.
  - destruct l; cbn [map]; split; intro E; try reflexivity; discriminate.
  - destruct l as [|a l]; cbn [map]; [split; discriminate|].
    split; intro E; injection E as E1 E2; f_equal;
      try (apply Hxy; exact E1); apply IH; exact E2.
Qed.

Lemma host_name_key (n : bytes) :
  replace_c 45 95 (upper n) = lit "HOST" <-> lower n = lit "host".
Proof.
  unfold replace_c, upper, lower. rewrite map_map.
  apply (map_eq_pointwise (fun c => if N.eqb (upper_c c) 45 then 95%N else upper_c c) lower_c).
  change (lit "HOST") with [72; 79; 83; 84]%N. change (lit "host") with [72 + 32; 79 + 32; 83 + 32; 84 + 32]%N.
  repeat (apply Forall2_cons; [intro a; apply host_char; lia|]). apply Forall2_nil.
Qed.

Lemma cgi_host_key (n : bytes) :
  bytes_eqb (cgi_key n) (lit "HTTP_HOST") = C09.Model.str_eqb (lower n) (lit "host").
Proof.
  apply eq_true_iff_eq. rewrite bytes_eqb_eq, C09.Proofs.str_eqb_eq, <- host_name_key.
  unfold cgi_key. set (k := replace_c 45 95 (upper n)).
  destruct (bytes_eqb k (lit "CONTENT_TYPE") || bytes_eqb k (lit "CONTENT_LENGTH")) eqn:E.
  - apply orb_true_iff in E as [E|E]; apply bytes_eqb_eq in E; rewrite E; split; discriminate.
  - change (lit "HTTP_HOST") with (lit "HTTP_" ++ lit "HOST"). split.
    + intro H. apply app_inv_head in H. exact H.
    + intros ->. reflexivity.
Qed.

Lemma host_fold (hs : list header) : forall acc : option bytes,
  C09.Model.get (fold_left (fun acc kv => if bytes_eqb (fst kv) (lit "HTTP_HOST") then Some (snd kv) else acc)
                   (map (fun h => (cgi_key (fst h), snd h)) hs) acc) =
  fold_left (fun host kv => if C09.Model.str_eqb (fst kv) (lit "host") then snd kv else host)
            (map (fun h => (lower (fst h), snd h)) hs) (C09.Model.get acc).
Proof.
  induction hs as [|h hs IH]; intro acc; [reflexivity|].
  cbn [map fold_left fst snd]. rewrite cgi_host_key, IH.
  destruct (C09.Model.str_eqb (lower (fst h)) (lit "host")); reflexivity.
Qed.

Lemma host_equiv (r : request) :
  C09.Model.wsgi_host (env_get (lit "HTTP_HOST") (environ_headers r)) = C09.Model.asgi_host (scope_headers r).
Proof.
  unfold C09.Model.wsgi_host, env_get, C09.Model.asgi_host, environ_headers, scope_headers.
  rewrite host_fold. reflexivity.
Qed.

(* ---------- the dispatchers, one step ---------- *)

Lemma dispatch_equiv (t : list (C09.Model.str * C09.Model.app)) (r : C09.Model.req) (p : C09.Model.str) :
  C09.Model.lifespan r = false -> C09.Model.path r = Some p ->
  C09.Model.dispatch C09.Model.WSGI t r = C09.Model.dispatch C09.Model.ASGI t r.
Proof.
  intros Hl Hp. unfold C09.Model.dispatch, C09.Model.read_path, C09.Model.wsgi_read_path, C09.Model.asgi_read_path.
  rewrite Hl, Hp. reflexivity.
Qed.

(* ---------- the theorem ---------- *)

(* what a static leaf needs of the request and of the state the dispatchers left (C04/StaticProofs.v,
   static_equiv): request header names distinct, a scheme URL(...) knows, root path ++ path ASCII
   (the text a WSGI gateway and an ASGI server present alike) *)
Definition static_ready (rq : areq) (s : state) : Prop :=
  distinct_names (aq_request rq) /\ known_scheme rq /\ ascii (C09.Proofs.full (s_req s)).

Lemma has_static_in {P K : Type} (l : list (K * app P)) (e : K * app P) :
  In e l -> has_static (snd e) = true -> existsb (fun e => has_static (snd e)) l = true.
Proof. intros Hin H. apply existsb_exists. exists e. split; assumption. Qed.

Section Equiv.
  Context {P : Type}.
  Variable fullmatch : P -> bytes -> bool.
  Variable lim : N.
  Variable rq : areq.
  Hypothesis Hnames : Forall (fun h => ~ In 95%N (fst h)) (rq_headers (aq_request rq)).

  Definition live (s : state) : Prop :=
    C09.Model.lifespan (s_req s) = false /\ exists p, C09.Model.path (s_req s) = Some p.

  Lemma run_equiv : forall a : app P,
    all_leaves comparable_view a ->
    forall s, live s -> (has_static a = true -> static_ready rq s) ->
    obs_equiv (has_static a) (run_wsgi fullmatch lim rq a s) (run_asgi fullmatch lim rq a s).
  Proof.
    induction a as [view|routes IH|routes IH|table IH|k c e] using app_ind'; intros Hall s [Hl [p Hp]] Hst;
      unfold C09.Model.str in *.
    - (* Leaf *)
      cbn [run_wsgi run_asgi]. rewrite (seen_equiv rq s Hnames).
      inversion Hall as [v Hq| | | |]; subst. apply resp_obs_equiv. apply Hq.
    - (* Route *)
      cbn [run_wsgi run_asgi]. rewrite Hl, Hp.
      destruct (C08.Properties.router_dispatch lim (map fst routes) p) as (E & _ & _ & Hran).
      rewrite E. destruct (C08.Model.asgi_router lim (map fst routes) p) as [|i ps] eqn:Er.
      + apply resp_obs_equiv. exact I.
      + rewrite !call_map.
        destruct (nth_error routes i) as [e|] eqn:En.
        * inversion Hall as [|rs Hq| | |]; subst.
          pose proof (nth_error_In _ _ En) as Hin.
          rewrite Forall_forall in IH.
          apply (obs_equiv_mono (has_static (snd e))); [exact (has_static_in routes e Hin)|].
          apply (IH e Hin (Hq e Hin)).
          -- split; [exact Hl|]. exists p. exact Hp.
          -- intro Hs. apply Hst. exact (has_static_in routes e Hin Hs).
        * exfalso. pose proof (proj1 (Hran i ps) eq_refl) as Hs.
          pose proof (C08.Properties.first_match lim (map fst routes) p) as Hf. rewrite Hs in Hf.
          destruct Hf as (segs & Hn & _). rewrite nth_error_map, En in Hn. discriminate.
    - (* Mount *)
      cbn [run_wsgi run_asgi]. rewrite (dispatch_equiv _ _ p Hl Hp).
      set (t := index_from (fun k => C09.Model.Leaf (N.of_nat k)) 0 routes).
      destruct (C09.Model.dispatch C09.Model.ASGI t (s_req s)) as [prefix sub r'| |e] eqn:Ed.
      + destruct (C09.Properties.mount_split C09.Model.ASGI t (s_req s) prefix sub r' Ed)
          as (_ & (p' & Hp' & _ & _) & Hfull & Hl').
        apply C09.Proofs.dispatch_call in Ed as (Hs & _ & _).
        destruct (proj1 (proj1 (C09.Properties.mount_first _ t _) prefix sub) Hs) as (i & Hn & _).
        apply index_from_nth in Hn as (e & En & ->). cbn [Nat.add]. rewrite !call_map, Nnat.Nat2N.id.
        unfold bytes, C09.Model.str in *. rewrite En.
        inversion Hall as [| |rs Hq| |]; subst.
        pose proof (nth_error_In _ _ En) as Hin.
        rewrite Forall_forall in IH.
        apply (obs_equiv_mono (has_static (snd e))); [exact (has_static_in routes e Hin)|].
        apply (IH e Hin (Hq e Hin)).
        * split; cbn [s_req]; [rewrite Hl'; exact Hl|]. exists p'. exact Hp'.
        * intro Hs'. destruct (Hst (has_static_in routes e Hin Hs')) as (H1 & H2 & H3).
          split; [exact H1|]. split; [exact H2|]. cbn [s_req]. rewrite Hfull. exact H3.
      + apply resp_obs_equiv. exact I.
      + exfalso. unfold C09.Model.dispatch, C09.Model.read_path, C09.Model.asgi_read_path in Ed. rewrite Hl, Hp in Ed.
        destruct (C09.Model.search t p) as [[q b]|]; discriminate.
    - (* HostSwitch *)
      cbn [run_wsgi run_asgi]. unfold C09.Model.hosts_wsgi, C09.Model.hosts_asgi. rewrite Hl, host_equiv.
      set (t := index_from N.of_nat 0 table).
      destruct (C09.Model.hosts_search fullmatch t (C09.Model.asgi_host (scope_headers (aq_request rq)))) as [id|] eqn:Eh.
      + apply (proj1 (C09.Properties.hosts_first _ _ fullmatch t _)) in Eh as (i & pat & Hn & _).
        apply index_from_nth in Hn as (e & En & ->). cbn [Nat.add]. rewrite !call_map, Nnat.Nat2N.id.
        unfold bytes, C09.Model.str in *. rewrite En.
        inversion Hall as [| | |tb Hq|]; subst.
        pose proof (nth_error_In _ _ En) as Hin.
        rewrite Forall_forall in IH.
        apply (obs_equiv_mono (has_static (snd e))); [exact (has_static_in table e Hin)|].
        apply (IH e Hin (Hq e Hin)).
        * split; [exact Hl|]. exists p. exact Hp.
        * intro Hs. apply Hst. exact (has_static_in table e Hin Hs).
      + apply resp_obs_equiv. exact I.
    - (* Files / Pages *)
      cbn [run_wsgi run_asgi has_static].
      inversion Hall as [| | | |k' c' e' Hwf]; subst.
      destruct (Hst eq_refl) as (Hd & Hk & Ha).
      destruct (static_equiv_proof k c e rq s Hwf Hnames Hd Hk Hl (ex_intro _ p Hp) Ha) as [Heq Hans].
      rewrite Heq. destruct (static_asgi k c e rq s); cbn [answered] in Hans; try contradiction; cbn [obs_equiv].
      + split; [reflexivity|]. split; [reflexivity|]. left. reflexivity.
      + split; reflexivity.
  Qed.

  Theorem app_equiv_proof (a : app P) :
    all_leaves comparable_view a ->
    (has_static a = true -> static_ready rq (init rq)) ->
    obs_equiv (has_static a) (serve_wsgi fullmatch lim rq a) (serve_asgi fullmatch lim rq a).
  Proof.
    intros Hall Hst. unfold serve_wsgi, serve_asgi. apply run_equiv; [exact Hall| |exact Hst].
    split; [reflexivity|]. exists (aq_path rq). reflexivity.
  Qed.
End Equiv.
