(* C04 — proofs: the two request views agree; the two renderings of a response agree. *)
From Coq Require Import List NArith Bool Arith Lia DecimalN.
From Baize Require Import Lib.Wire Lib.Order C02.Model C02.Proofs Resp.Model C04.Model.
Import ListNotations.

(* ---------- header names ---------- *)

(* an HTTP header name as a gateway can translate it both ways: no underscore *)
Definition good_name (n : bytes) : Prop := ~ In 95%N n.

Lemma name_char c : c <> 95%N ->
  (let c1 := upper_c c in
   let c2 := if N.eqb c1 45 then 95%N else c1 in
   let c3 := lower_c c2 in
   if N.eqb c3 95 then 45%N else c3) = lower_c c.
Proof.
  intros Hc. cbn zeta. unfold upper_c, lower_c.
  destruct (N.leb 97 c && N.leb c 122)%bool eqn:E1.
  - apply andb_true_iff in E1 as [A B]. apply N.leb_le in A, B.
    assert (E2 : (c - 32 =? 45)%N = false) by (apply N.eqb_neq; lia). rewrite E2.
    assert (E3 : (N.leb 65 (c - 32) && N.leb (c - 32) 90)%bool = true).
    { apply andb_true_iff. split; apply N.leb_le; lia. }
    rewrite E3.
    assert (E4 : (c - 32 + 32 =? 95)%N = false) by (apply N.eqb_neq; lia). rewrite E4.
    assert (E5 : (N.leb 65 c && N.leb c 90)%bool = false).
    { apply andb_false_iff. right. apply N.leb_gt. lia. }
    rewrite E5. lia.
  - destruct (c =? 45)%N eqn:E2.
    + apply N.eqb_eq in E2. subst c. reflexivity.
    + destruct (N.leb 65 c && N.leb c 90)%bool eqn:E3.
      * apply andb_true_iff in E3 as [A B]. apply N.leb_le in A, B.
        assert (E4 : (c + 32 =? 95)%N = false) by (apply N.eqb_neq; lia). rewrite E4. reflexivity.
      * assert (E4 : (c =? 95)%N = false) by (apply N.eqb_neq; exact Hc). rewrite E4. reflexivity.
Qed.

Lemma name_roundtrip n : good_name n ->
  replace_c 95 45 (lower (replace_c 45 95 (upper n))) = lower n.
Proof.
  unfold good_name, replace_c, lower, upper. intros H. rewrite !map_map.
  apply map_ext_in. intros c Hc. apply name_char. intros ->. apply H. exact Hc.
Qed.

Lemma wsgi_key_of_cgi n : good_name n -> wsgi_header_key (cgi_key n) = Some (lower n).
Proof.
  intros H. unfold cgi_key.
  set (k := replace_c 45 95 (upper n)).
  destruct (bytes_eqb k (lit "CONTENT_TYPE") || bytes_eqb k (lit "CONTENT_LENGTH")) eqn:E.
  - unfold wsgi_header_key. rewrite E.
    assert (Hs : starts_with (lit "HTTP_") k = false).
    { apply orb_true_iff in E as [E|E]; apply bytes_eqb_eq in E; rewrite E; reflexivity. }
    rewrite Hs. f_equal. apply name_roundtrip. exact H.
  - unfold wsgi_header_key.
    change (starts_with (lit "HTTP_") (lit "HTTP_" ++ k)) with true. cbn iota.
    change (skipn 5 (lit "HTTP_" ++ k)) with k. f_equal. apply name_roundtrip. exact H.
Qed.

Theorem headers_view_equiv_proof r :
  Forall (fun h => good_name (fst h)) (rq_headers r) ->
  wsgi_headers (environ_headers r) = asgi_headers (scope_headers r).
Proof.
  intros H. unfold wsgi_headers, asgi_headers, environ_headers, scope_headers. f_equal.
  induction (rq_headers r) as [|[n v] hs IH]; [reflexivity|].
  inversion H as [|? ? Hn Hr]; subst. cbn [map flat_map fst snd].
  rewrite (wsgi_key_of_cgi n Hn). cbn [app]. f_equal. apply IH. exact Hr.
Qed.

(* ---------- client ---------- *)

Lemma undec_acc d : forall acc,
  fold_left (fun a c => (a * 10 + (c - 48))%N) (uint_digits d) (Npos acc) = Npos (Pos.of_uint_acc d acc).
Proof.
  induction d; intros acc; cbn [uint_digits fold_left Pos.of_uint_acc]; [reflexivity|..];
    rewrite <- IHd; f_equal; lia.
Qed.

Lemma undec_uint d : undec (uint_digits d) = N.of_uint d.
Proof.
  unfold undec, N.of_uint.
  induction d; cbn [uint_digits fold_left Pos.of_uint]; [reflexivity|exact IHd|..];
    match goal with |- fold_left _ _ ?x = _ => let y := eval vm_compute in x in change x with y end;
    apply undec_acc.
Qed.

Lemma undec_dec n : undec (dec n) = n.
Proof. unfold dec. rewrite undec_uint. apply DecimalN.Unsigned.of_to. Qed.

Lemma dec_nonempty n : dec n <> [].
Proof.
  unfold dec. intros H. assert (E : N.of_uint (N.to_uint n) = n) by apply DecimalN.Unsigned.of_to.
  destruct (N.to_uint n) eqn:U; try discriminate.
  (* Nil: to_uint never yields Nil *)
  destruct n as [|p]; cbn in U; [discriminate|].
  unfold Pos.to_uint in U. pose proof (DecimalPos.Unsigned.to_uint_nonnil p) as Hn.
  unfold Pos.to_uint in Hn. congruence.
Qed.

Theorem client_view_equiv_proof (h : bytes) (p : nat) :
  h <> [] ->
  wsgi_client (Some h) (Some (dec (N.of_nat p))) = asgi_client (Some (h, p)).
Proof.
  intros Hh. unfold wsgi_client, asgi_client. destruct h as [|a0 a]; [congruence|].
  pose proof (dec_nonempty (N.of_nat p)) as Hd. destruct (dec (N.of_nat p)) as [|p0 pr] eqn:E; [congruence|].
  rewrite <- E, undec_dec. reflexivity.
Qed.

(* ---------- body ---------- *)

Lemma wsgi_read_all_concat input cs :
  1 <= cs ->
  forall fuel pos, length input - pos < fuel ->
    concat (wsgi_read_all fuel input pos cs) = skipn pos input.
Proof.
  intros Hcs. induction fuel as [|k IH]; intros pos Hf; [lia|].
  cbn [wsgi_read_all]. destruct (read input pos cs) as [|c0 c] eqn:E.
  - assert (Hl : length (read input pos cs) = 0) by (rewrite E; reflexivity).
    rewrite read_length_min in Hl. symmetry. apply skipn_all2. lia.
  - assert (Hl : length (c0 :: c) = Nat.min cs (length input - pos)).
    { rewrite <- E. apply read_length_min. }
    cbn [concat]. rewrite IH by (cbn [length] in *; lia).
    rewrite Hl. rewrite <- E. unfold read. cbn [length] in Hl.
    destruct (Nat.le_gt_cases cs (length input - pos)) as [Hle|Hgt].
    + rewrite Nat.min_l by exact Hle.
      replace (pos + cs) with (cs + pos) by lia. rewrite <- skipn_skipn. apply firstn_skipn.
    + rewrite Nat.min_r by lia.
      replace (pos + (length input - pos)) with (length input) by lia.
      rewrite skipn_all, app_nil_r. apply firstn_all2. rewrite skipn_length. lia.
Qed.

Lemma asgi_stream_concat chunks : concat (asgi_stream (to_messages chunks)) = concat chunks.
Proof.
  induction chunks as [|c r IH]; [reflexivity|].
  destruct r as [|c' r'].
  - cbn [to_messages asgi_stream concat]. rewrite !app_nil_r. destruct c; cbn [concat app]; rewrite ?app_nil_r; reflexivity.
  - change (to_messages (c :: c' :: r')) with ((c, true) :: to_messages (c' :: r')).
    cbn [asgi_stream]. rewrite concat_app, IH. cbn [concat]. destruct c; cbn [concat app]; rewrite ?app_nil_r; reflexivity.
Qed.

Theorem body_view_equiv_proof r cs :
  1 <= cs -> wsgi_body r cs = concat (rq_body r) /\ asgi_body r = concat (rq_body r).
Proof.
  intros Hcs. split.
  - unfold wsgi_body. rewrite (wsgi_read_all_concat _ cs Hcs) by lia. reflexivity.
  - apply asgi_stream_concat.
Qed.

(* ---------- responses ---------- *)

Lemma body_of_bodies evs f : 
  forallb (fun e => match e with Body _ _ => true | _ => false end) evs = true ->
  body_of f evs = flat_map (fun e => match e with Body d _ => d | _ => [] end) evs.
Proof.
  intros H. unfold body_of. induction evs as [|e r IH]; [reflexivity|].
  cbn [forallb] in H. apply andb_true_iff in H as [A B]. cbn [flat_map]. rewrite IH by exact B.
  destruct e; try discriminate. reflexivity.
Qed.

Lemma stream_bodies prod : forall sent,
  snd (asgi_stream_loop prod sent None) = Returned ->
  snd (wsgi_stream_items prod) = Returned /\
  body_of [] (fst (asgi_stream_loop prod sent None)) =
  flat_map (fun e => match e with WYield c => c | _ => [] end) (fst (wsgi_stream_items prod)).
Proof.
  induction prod as [|a rest IH]; intros sent; cbn [asgi_stream_loop wsgi_stream_items].
  - intros _. split; reflexivity.
  - destruct a as [c|]; [|discriminate].
    specialize (IH (S sent)).
    destruct (asgi_stream_loop rest (S sent) None) as [evs o].
    destruct (wsgi_stream_items rest) as [wevs wo]. cbn [fst snd] in *.
    intros Ho. destruct (IH Ho) as [A B]. split; [exact A|].
    unfold body_of in *. cbn [flat_map event_bytes]. rewrite B. reflexivity.
Qed.

Lemma yields_concat (l : list bytes) :
  flat_map (fun e => match e with WYield c => c | _ => [] end) (map WYield l) = concat l.
Proof. induction l as [|c cs IH]; [reflexivity|]. cbn [map flat_map concat]. f_equal. exact IH. Qed.

(* the recipes whose response exists (the producer does not raise) and, for the
   event stream, carry no developer headers (the general event-stream case is
   covered by the correspondence check) *)
Definition comparable (r : recipe) : Prop :=
  match r with
  | RStream _ _ prod => snd (wsgi_stream_items prod) = Returned
  | RSSE b _ prod => snd (wsgi_stream_items prod) = Returned /\ b_headers b = []
  | RFile fr => 1 <= fr_chunk fr
  | _ => True
  end.

Lemma stream_returned prod sent :
  snd (wsgi_stream_items prod) = Returned -> snd (asgi_stream_loop prod sent None) = Returned.
Proof.
  revert sent. induction prod as [|a rest IH]; intros sent; cbn [asgi_stream_loop wsgi_stream_items]; [reflexivity|].
  destruct a as [c|]; [|discriminate].
  specialize (IH (S sent)). destruct (wsgi_stream_items rest) as [wevs wo].
  destruct (asgi_stream_loop rest (S sent) None) as [evs o]. cbn [snd] in *. exact IH.
Qed.

Definition not_connection (h : header) : bool := negb (bytes_eqb (fst h) (lit "connection")).

Theorem response_equiv_proof r :
  comparable r ->
  exists st hw ha body,
    wsgi_response r = Some (st, hw, body) /\ asgi_response r = Some (st, ha, body) /\
    match r with
    | RSSE _ _ _ => filter not_connection ha = hw /\
                    (forall h, In h ha -> not_connection h = false -> h = (lit "connection", lit "keep-alive"))
    | _ => ha = hw
    end.
Proof.
  intros Hc. destruct r as [b|b body media charset|b loc|b ct prod|b ch prod|fr];
    unfold wsgi_response, asgi_response; cbn [wsgi_full asgi_full fst].
  - do 4 eexists. repeat split.
  - do 4 eexists. split; [reflexivity|]. split; [|reflexivity].
    unfold body_of. cbn [flat_map event_bytes]. rewrite !app_nil_r. reflexivity.
  - do 4 eexists. repeat split.
  - cbn [comparable] in Hc. pose proof (stream_returned prod 0 Hc) as Hr.
    destruct (stream_bodies prod 0 Hr) as [_ Hb].
    destruct (asgi_stream_loop prod 0 None) as [evs o]. destruct (wsgi_stream_items prod) as [wevs wo].
    cbn [fst snd] in *. do 4 eexists. split; [reflexivity|]. split; [rewrite Hb; reflexivity|reflexivity].
  - cbn [comparable] in Hc. destruct Hc as [Hc Hh]. pose proof (stream_returned prod 0 Hc) as Hr.
    destruct (stream_bodies prod 0 Hr) as [_ Hb].
    destruct (asgi_stream_loop prod 0 None) as [evs o]. destruct (wsgi_stream_items prod) as [wevs wo].
    cbn [fst snd] in *. do 4 eexists. split; [reflexivity|]. split; [rewrite Hb; reflexivity|].
    cbn [start_headers]. unfold sse_headers, list_headers. rewrite Hh.
    set (HA := hinit _). set (HW := hinit _).
    assert (EA : HA = [(lit "cache-control", lit "no-cache"); (lit "connection", lit "keep-alive");
                       (lit "content-type", lit "text/event-stream" ++ lit "; charset=" ++ ch)]) by reflexivity.
    assert (EW : HW = [(lit "cache-control", lit "no-cache");
                       (lit "content-type", lit "text/event-stream" ++ lit "; charset=" ++ ch)]) by reflexivity.
    rewrite EA, EW. clear HA HW EA EW.
    assert (Hck : forall cs : list bytes,
               filter not_connection (map (fun c => (lit "set-cookie", c)) cs) = map (fun c => (lit "set-cookie", c)) cs).
    { induction cs as [|c cs IHc]; [reflexivity|]. cbn [map filter].
      change (not_connection (lit "set-cookie", c)) with true. cbn iota. f_equal. exact IHc. }
    split.
    + rewrite filter_app, Hck. reflexivity.
    + intros h Hin Hn. apply in_app_or in Hin as [Hin|Hin].
      * cbn [In] in Hin. destruct Hin as [<-|[<-|[<-|[]]]]; [discriminate Hn|reflexivity|discriminate Hn].
      * apply in_map_iff in Hin as (c & <- & _). discriminate Hn.
  - cbn [comparable] in Hc.
    destruct (asgi_body_exact_proof false fr Hc) as (st & hs & Heq & Hst & Hhs & Hb & _).
    rewrite Heq. unfold asgi_rest in *. exists st, (w_headers (wsgi_file fr)), hs, (expected_body fr).
    subst st hs. split; [|split; [|reflexivity]].
    + f_equal. f_equal. rewrite <- (wsgi_body_exact_proof fr Hc). unfold C02.Model.wsgi_body.
      apply yields_concat.
    + rewrite Hb. reflexivity.
Qed.

(* ---------- non-vacuity ---------- *)

Example ex_headers :
  wsgi_headers (environ_headers {| rq_method := lit "GET"; rq_query := []; rq_client := None; rq_body := [];
      rq_headers := [(lit "Content-Type", lit "a/b"); (lit "X-Forwarded-For", lit "1.2.3.4")] |})
  = [(lit "content-type", lit "a/b"); (lit "x-forwarded-for", lit "1.2.3.4")].
Proof. vm_compute. reflexivity. Qed.
