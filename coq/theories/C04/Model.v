(* C04 — the request views of both interfaces (baize/wsgi/requests.py:84-98 and
   50-63, baize/asgi/requests.py:94-104 and 62-72) on one abstract request, plus
   the two renderings of the response recipes from Resp/Model.v. *)
From Coq Require Import List NArith Bool Arith.
From Baize Require Import Lib.Wire Lib.Order C02.Model Resp.Model.
Import ListNotations.

(* ---------- the abstract request and how a gateway presents it ---------- *)

Record request := {
  rq_method : bytes;
  rq_query : bytes;                       (* raw query bytes *)
  rq_headers : list header;               (* as on the wire, any case *)
  rq_client : option (bytes * nat);       (* peer address *)
  rq_body : list bytes                    (* the body as it arrives, chunk by chunk *)
}.

Definition upper_c (c : N) : N := if (N.leb 97 c && N.leb c 122)%bool then (c - 32)%N else c.
Definition upper (s : bytes) : bytes := map upper_c s.
Definition replace_c (a b : N) (s : bytes) : bytes := map (fun c => if N.eqb c a then b else c) s.

(* CGI naming (PEP 3333 / RFC 3875): upper-case, '-' -> '_', HTTP_ prefix except
   for Content-Type and Content-Length *)
Definition cgi_key (name : bytes) : bytes :=
  let k := replace_c 45 95 (upper name) in
  if bytes_eqb k (lit "CONTENT_TYPE") || bytes_eqb k (lit "CONTENT_LENGTH") then k
  else lit "HTTP_" ++ k.

Definition environ_headers (r : request) : list header :=
  map (fun h => (cgi_key (fst h), snd h)) (rq_headers r).

(* ASGI servers deliver lower-cased names *)
Definition scope_headers (r : request) : list header :=
  map (fun h => (lower (fst h), snd h)) (rq_headers r).

(* ---------- the two header views ---------- *)

(* WSGI: Headers(((key[5:] if key.startswith("HTTP_") else key).lower().replace("_","-"), value)
                 for key, value in environ.items()
                 if key.startswith("HTTP_") or key in ("CONTENT_TYPE", "CONTENT_LENGTH")) *)
Definition wsgi_header_key (k : bytes) : option bytes :=
  if starts_with (lit "HTTP_") k then Some (replace_c 95 45 (lower (skipn 5 k)))
  else if bytes_eqb k (lit "CONTENT_TYPE") || bytes_eqb k (lit "CONTENT_LENGTH")
       then Some (replace_c 95 45 (lower k))
       else None.

Definition wsgi_headers (environ : list header) : hstore :=
  hinit (flat_map (fun kv => match wsgi_header_key (fst kv) with
                             | Some k => [(k, snd kv)]
                             | None => [] end) environ).

(* ASGI: Headers((key.decode("latin-1"), value.decode("latin-1")) for key, value in scope["headers"]) *)
Definition asgi_headers (scope_hs : list header) : hstore := hinit scope_hs.

(* ---------- client ---------- *)

(* WSGI: REMOTE_ADDR / REMOTE_PORT as strings, both must be non-empty; int(port) *)
Definition wsgi_client (addr port : option bytes) : option (bytes * N) :=
  match addr, port with
  | Some (a0 :: a), Some (p0 :: p) => Some (a0 :: a, undec (p0 :: p))
  | _, _ => None
  end.

Definition asgi_client (c : option (bytes * nat)) : option (bytes * N) :=
  match c with Some (h, p) => Some (h, N.of_nat p) | None => None end.

(* ---------- body ---------- *)

(* WSGI: while True: chunk = input.read(chunk_size); if not chunk: return; yield chunk *)
Fixpoint wsgi_read_all (fuel : nat) (input : bytes) (pos cs : nat) : list bytes :=
  match fuel with
  | O => []
  | S k => match read input pos cs with
           | [] => []
           | c => c :: wsgi_read_all k input (pos + length c) cs
           end
  end.

Definition wsgi_body (r : request) (cs : nat) : bytes :=
  let input := concat (rq_body r) in
  concat (wsgi_read_all (S (length input)) input 0 cs).

(* ASGI: one http.request message per chunk, more_body on all but the last; stream()
   yields the non-empty bodies and stops after the message with more_body = false *)
Fixpoint asgi_stream (msgs : list (bytes * bool)) : list bytes :=
  match msgs with
  | [] => []
  | (b, more) :: r => (match b with [] => [] | _ => [b] end) ++ (if more then asgi_stream r else [])
  end.

Fixpoint to_messages (chunks : list bytes) : list (bytes * bool) :=
  match chunks with
  | [] => [([], false)]
  | [c] => [(c, false)]
  | c :: r => (c, true) :: to_messages r
  end.

Definition asgi_body (r : request) : bytes := concat (asgi_stream (to_messages (rq_body r))).

(* ---------- responses: what a client receives on either interface ---------- *)

Definition asgi_response (r : recipe) : option (nat * list header * bytes) :=
  match fst (asgi_full r None) with
  | Start st hs :: rest =>
      Some (st, hs, match r with RFile fr => body_of (fr_file fr) rest | _ => body_of [] rest end)
  | _ => None
  end.

Definition wsgi_response (r : recipe) : option (nat * list header * bytes) :=
  match fst (wsgi_full r) with
  | WStart st hs :: rest =>
      Some (st, hs, flat_map (fun e => match e with WYield c => c | _ => [] end) rest)
  | _ => None
  end.
