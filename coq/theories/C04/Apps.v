(* C04 — the bundled applications as one tree, run on either interface.

   An application is a tree: a leaf (a view: what it sees of the request -> the response
   recipe of Resp/Model.v it answers with), a Router (C08), a Subpaths mount table (C09)
   a Hosts table (C09, over an oracle for Pattern.fullmatch), or a static leaf: Files / Pages
   with their configuration, on a file system (C04/Static.v).  [run_wsgi] is put
   together from the WSGI model functions of those properties (C08 wsgi_router, C09
   dispatch WSGI / hosts_wsgi, the environ lookup of HTTP_HOST, C04 wsgi_headers,
   wsgi_response), [run_asgi] from the ASGI ones (asgi_router, dispatch ASGI / hosts_asgi
   with its header loop, asgi_headers, asgi_response).  Nothing is shared between the two
   except the tree, the abstract request and the type of the state that is threaded through
   (root path, path, path parameters: SCRIPT_NAME / PATH_INFO / PATH_PARAMS of the environ,
   root_path / path / path_params of the scope).  The request, the state and the observations
   are in C04/Req.v.  No proofs here.

   baize/wsgi/routing.py, baize/asgi/routing.py: Router.__call__, Subpaths.__call__,
   Hosts.__call__. *)
From Coq Require Import List NArith Bool Arith.
From Baize Require Import Lib.Wire Lib.Order C02.Model Resp.Model C04.Model.
From Baize Require Export C04.Req C04.Static.
From Baize Require C07.Model C08.Model C09.Model.
Import ListNotations.


(* ---------- the tree ---------- *)

Section Apps.
  Context {P : Type}.                          (* compiled host patterns *)

  Inductive app :=
  | Leaf (view : seen -> recipe)
  | Route (routes : list (list C08.Model.seg * app))   (* Router((path, app), ...), paths compiled *)
  | Mount (routes : list (bytes * app))        (* Subpaths((prefix, app), ...) *)
  | HostSwitch (table : list (P * app))        (* Hosts((pattern, app), ...) *)
  | StaticLeaf (k : C07.Model.kind) (c : scfg) (e : senv).   (* Files(directory, ...) / Pages(directory, ...) on a file system *)

  (* does the tree contain Files / Pages? *)
  Fixpoint has_static (a : app) : bool :=
    match a with
    | Leaf _ => false
    | Route routes => existsb (fun e => has_static (snd e)) routes
    | Mount routes => existsb (fun e => has_static (snd e)) routes
    | HostSwitch table => existsb (fun e => has_static (snd e)) table
    | StaticLeaf _ _ _ => true
    end.

  (* the table of a dispatcher with entry k's application replaced by the name k *)
  Fixpoint index_from {K A B : Type} (name : nat -> B) (k : nat) (l : list (K * A)) : list (K * B) :=
    match l with
    | [] => []
    | (key, _) :: r => (key, name k) :: index_from name (S k) r
    end.

  Definition call (runs : list (state -> obs)) (i : nat) (s : state) : obs :=
    match nth_error runs i with
    | Some k => k s
    | None => OStuck
    end.

  Variable fullmatch : P -> bytes -> bool.     (* pattern.fullmatch(text) is not None *)
  Variable lim : N.                            (* sys.get_int_max_str_digits() *)
  Variable rq : areq.

  Fixpoint run_wsgi (a : app) (s : state) : obs :=
    match a with
    | Leaf view => obs_of (wsgi_response (view (wsgi_seen rq s)))
    | Route routes =>
        match C08.Model.wsgi_router lim (map fst routes) (C09.Model.path (s_req s)) with
        | C08.Model.NotFound => obs_of (wsgi_response r404)
        | C08.Model.Ran i ps =>
            call (map (fun e => run_wsgi (snd e)) routes) i {| s_req := s_req s; s_params := Some ps |}
        end
    | Mount routes =>
        match C09.Model.dispatch C09.Model.WSGI (index_from (fun k => C09.Model.Leaf (N.of_nat k)) 0 routes) (s_req s) with
        | C09.Model.Call _ (C09.Model.Leaf id) r' =>
            call (map (fun e => run_wsgi (snd e)) routes) (N.to_nat id) {| s_req := r'; s_params := s_params s |}
        | C09.Model.Call _ (C09.Model.Mount _) _ => OStuck
        | C09.Model.Stop404 => obs_of (wsgi_response r404)
        | C09.Model.Fail e => ORaised e
        end
    | HostSwitch table =>
        match C09.Model.hosts_wsgi fullmatch (index_from N.of_nat 0 table)
                (env_get (lit "HTTP_HOST") (environ_headers (aq_request rq))) with
        | C09.Model.HRan id => call (map (fun e => run_wsgi (snd e)) table) (N.to_nat id) s
        | C09.Model.HNotFound => obs_of (wsgi_response r_invalid_host)
        | C09.Model.HRaised e => ORaised e
        end
    | StaticLeaf k c e => static_wsgi k c e rq s
    end.

  Fixpoint run_asgi (a : app) (s : state) : obs :=
    match a with
    | Leaf view => obs_of (asgi_response (view (asgi_seen rq s)))
    | Route routes =>
        (* if scope["type"] == "lifespan": raise RuntimeError;  self.search(scope["path"]) *)
        if C09.Model.lifespan (s_req s) then ORaised C09.Model.RuntimeError
        else match C09.Model.path (s_req s) with
             | None => ORaised C09.Model.KeyError
             | Some p =>
                 match C08.Model.asgi_router lim (map fst routes) p with
                 | C08.Model.NotFound => obs_of (asgi_response r404)
                 | C08.Model.Ran i ps =>
                     call (map (fun e => run_asgi (snd e)) routes) i {| s_req := s_req s; s_params := Some ps |}
                 end
             end
    | Mount routes =>
        match C09.Model.dispatch C09.Model.ASGI (index_from (fun k => C09.Model.Leaf (N.of_nat k)) 0 routes) (s_req s) with
        | C09.Model.Call _ (C09.Model.Leaf id) r' =>
            call (map (fun e => run_asgi (snd e)) routes) (N.to_nat id) {| s_req := r'; s_params := s_params s |}
        | C09.Model.Call _ (C09.Model.Mount _) _ => OStuck
        | C09.Model.Stop404 => obs_of (asgi_response r404)
        | C09.Model.Fail e => ORaised e
        end
    | HostSwitch table =>
        match C09.Model.hosts_asgi fullmatch (index_from N.of_nat 0 table) (C09.Model.lifespan (s_req s))
                (scope_headers (aq_request rq)) with
        | C09.Model.HRan id => call (map (fun e => run_asgi (snd e)) table) (N.to_nat id) s
        | C09.Model.HNotFound => obs_of (asgi_response r_invalid_host)
        | C09.Model.HRaised e => ORaised e
        end
    | StaticLeaf k c e => static_asgi k c e rq s
    end.

  (* the gateway calls the application with the request as it arrived *)
  Definition serve_wsgi (a : app) : obs := run_wsgi a (init rq).
  Definition serve_asgi (a : app) : obs := run_asgi a (init rq).
End Apps.

Arguments app : clear implicits.
