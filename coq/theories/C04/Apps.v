(* C04 — the bundled applications as one tree, run on either interface.

   An application is a tree: a leaf (a view: what it sees of the request -> the response
   recipe of Resp/Model.v it answers with), a Router (C08), a Subpaths mount table (C09)
   or a Hosts table (C09, over an oracle for Pattern.fullmatch).  [run_wsgi] is put
   together from the WSGI model functions of those properties (C08 wsgi_router, C09
   dispatch WSGI / hosts_wsgi, the environ lookup of HTTP_HOST, C04 wsgi_headers,
   wsgi_response), [run_asgi] from the ASGI ones (asgi_router, dispatch ASGI / hosts_asgi
   with its header loop, asgi_headers, asgi_response).  Nothing is shared between the two
   except the tree, the abstract request and the type of the state that is threaded through
   (root path, path, path parameters: SCRIPT_NAME / PATH_INFO / PATH_PARAMS of the environ,
   root_path / path / path_params of the scope).  No proofs here.

   baize/wsgi/routing.py, baize/asgi/routing.py: Router.__call__, Subpaths.__call__,
   Hosts.__call__. *)
From Coq Require Import List NArith Bool Arith.
From Baize Require Import Lib.Wire Lib.Order C02.Model Resp.Model C04.Model.
From Baize Require C08.Model C09.Model.
Import ListNotations.


(* ---------- the abstract request ---------- *)

(* method, headers (Host among them), ... of C04.Model.request, plus where it is aimed *)
Record areq := {
  aq_request : request;
  aq_root : bytes;           (* SCRIPT_NAME / root_path as the gateway presents it *)
  aq_path : bytes            (* PATH_INFO / path *)
}.

(* what changes while the request travels down the tree *)
Record state := { s_req : C09.Model.req; s_params : option C08.Model.params }.

Definition init (rq : areq) : state :=
  {| s_req := C09.Model.mkReq (Some (aq_root rq)) (Some (aq_path rq)) false; s_params := None |}.

(* what a view can read of the request *)
Record seen := {
  sn_method : bytes;
  sn_root : bytes;
  sn_path : bytes;
  sn_params : option C08.Model.params;
  sn_headers : hstore
}.

(* request.method, request.get("SCRIPT_NAME", ""), request.get("PATH_INFO", ""),
   request.get("PATH_PARAMS"), request.headers of baize.wsgi.Request(environ) *)
Definition wsgi_seen (rq : areq) (s : state) : seen :=
  {| sn_method := rq_method (aq_request rq);
     sn_root := C09.Model.get (C09.Model.root (s_req s));
     sn_path := C09.Model.get (C09.Model.path (s_req s));
     sn_params := s_params s;
     sn_headers := wsgi_headers (environ_headers (aq_request rq)) |}.

(* request.method, request.get("root_path", ""), request.get("path", ""),
   request.get("path_params"), request.headers of baize.asgi.Request(scope) *)
Definition asgi_seen (rq : areq) (s : state) : seen :=
  {| sn_method := rq_method (aq_request rq);
     sn_root := C09.Model.get (C09.Model.root (s_req s));
     sn_path := C09.Model.get (C09.Model.path (s_req s));
     sn_params := s_params s;
     sn_headers := asgi_headers (scope_headers (aq_request rq)) |}.

(* the environ is a dict the gateway fills by assignment: the last one stays *)
Definition env_get (k : bytes) (env : list header) : option bytes :=
  fold_left (fun acc kv => if bytes_eqb (fst kv) k then Some (snd kv) else acc) env None.

(* ---------- what a client observes ---------- *)

Inductive obs :=
| OResp (status : nat) (headers : list header) (body : bytes)
| ONoStart                        (* the application returned without starting a response *)
| ORaised (e : C09.Model.err)             (* KeyError / RuntimeError of an ASGI router on a scope it rejects *)
| OStuck.                         (* a dispatcher named an entry its table does not have *)

Definition obs_of (o : option (nat * list header * bytes)) : obs :=
  match o with
  | Some (st, hs, body) => OResp st hs body
  | None => ONoStart
  end.

Definition bare (status : nat) : base := {| b_status := status; b_headers := []; b_cookies := [] |}.

(* Response(404) *)
Definition r404 : recipe := RPlain (bare 404).
(* PlainTextResponse(b"Invalid host", 404) *)
Definition r_invalid_host : recipe := RSmall (bare 404) (lit "Invalid host") (lit "text/plain") (lit "utf-8").

(* ---------- the tree ---------- *)

Section Apps.
  Context {P : Type}.                          (* compiled host patterns *)

  Inductive app :=
  | Leaf (view : seen -> recipe)
  | Route (routes : list (list C08.Model.seg * app))   (* Router((path, app), ...), paths compiled *)
  | Mount (routes : list (bytes * app))        (* Subpaths((prefix, app), ...) *)
  | HostSwitch (table : list (P * app)).       (* Hosts((pattern, app), ...) *)

  (* the table of a dispatcher with entry k's application replaced by the name k *)
  Fixpoint index_from {K A B : Type} (name : nat -> B) (k : nat) (l : list (K * A)) : list (K * B) :=
    match l with
    | [] => []
    | (key, _) :: r => (key, name k) :: index_from name (S k) r
    end.

  Definition call (runs : list (state -> obs)) (i : nat) (s : state) : obs :=
    match nth_error runs i with
    | Some k => k s
    | None => OStuck
    end.

  Variable fullmatch : P -> bytes -> bool.     (* pattern.fullmatch(text) is not None *)
  Variable lim : N.                            (* sys.get_int_max_str_digits() *)
  Variable rq : areq.

  Fixpoint run_wsgi (a : app) (s : state) : obs :=
    match a with
    | Leaf view => obs_of (wsgi_response (view (wsgi_seen rq s)))
    | Route routes =>
        match C08.Model.wsgi_router lim (map fst routes) (C09.Model.path (s_req s)) with
        | C08.Model.NotFound => obs_of (wsgi_response r404)
        | C08.Model.Ran i ps =>
            call (map (fun e => run_wsgi (snd e)) routes) i {| s_req := s_req s; s_params := Some ps |}
        end
    | Mount routes =>
        match C09.Model.dispatch C09.Model.WSGI (index_from (fun k => C09.Model.Leaf (N.of_nat k)) 0 routes) (s_req s) with
        | C09.Model.Call _ (C09.Model.Leaf id) r' =>
            call (map (fun e => run_wsgi (snd e)) routes) (N.to_nat id) {| s_req := r'; s_params := s_params s |}
        | C09.Model.Call _ (C09.Model.Mount _) _ => OStuck
        | C09.Model.Stop404 => obs_of (wsgi_response r404)
        | C09.Model.Fail e => ORaised e
        end
    | HostSwitch table =>
        match C09.Model.hosts_wsgi fullmatch (index_from N.of_nat 0 table)
                (env_get (lit "HTTP_HOST") (environ_headers (aq_request rq))) with
        | C09.Model.HRan id => call (map (fun e => run_wsgi (snd e)) table) (N.to_nat id) s
        | C09.Model.HNotFound => obs_of (wsgi_response r_invalid_host)
        | C09.Model.HRaised e => ORaised e
        end
    end.

  Fixpoint run_asgi (a : app) (s : state) : obs :=
    match a with
    | Leaf view => obs_of (asgi_response (view (asgi_seen rq s)))
    | Route routes =>
        (* if scope["type"] == "lifespan": raise RuntimeError;  self.search(scope["path"]) *)
        if C09.Model.lifespan (s_req s) then ORaised C09.Model.RuntimeError
        else match C09.Model.path (s_req s) with
             | None => ORaised C09.Model.KeyError
             | Some p =>
                 match C08.Model.asgi_router lim (map fst routes) p with
                 | C08.Model.NotFound => obs_of (asgi_response r404)
                 | C08.Model.Ran i ps =>
                     call (map (fun e => run_asgi (snd e)) routes) i {| s_req := s_req s; s_params := Some ps |}
                 end
             end
    | Mount routes =>
        match C09.Model.dispatch C09.Model.ASGI (index_from (fun k => C09.Model.Leaf (N.of_nat k)) 0 routes) (s_req s) with
        | C09.Model.Call _ (C09.Model.Leaf id) r' =>
            call (map (fun e => run_asgi (snd e)) routes) (N.to_nat id) {| s_req := r'; s_params := s_params s |}
        | C09.Model.Call _ (C09.Model.Mount _) _ => OStuck
        | C09.Model.Stop404 => obs_of (asgi_response r404)
        | C09.Model.Fail e => ORaised e
        end
    | HostSwitch table =>
        match C09.Model.hosts_asgi fullmatch (index_from N.of_nat 0 table) (C09.Model.lifespan (s_req s))
                (scope_headers (aq_request rq)) with
        | C09.Model.HRan id => call (map (fun e => run_asgi (snd e)) table) (N.to_nat id) s
        | C09.Model.HNotFound => obs_of (asgi_response r_invalid_host)
        | C09.Model.HRaised e => ORaised e
        end
    end.

  (* the gateway calls the application with the request as it arrived *)
  Definition serve_wsgi (a : app) : obs := run_wsgi a (init rq).
  Definition serve_asgi (a : app) : obs := run_asgi a (init rq).
End Apps.

Arguments app : clear implicits.
