(* C04 — proofs about the static leaves (C04/Static.v): both interfaces give the same answer,
   and what that answer is.  Rests on the theorems of the properties that own the parts:
   C07 (not_found_otherwise_files / _pages, serves_resolved_files / _pages), C02 (wsgi_body_exact,
   asgi_body_exact, status_decision, single_range_exact), C18 (wsgi_asgi_same), C04 (response_equiv). *)
From Coq Require Import List NArith ZArith Bool Arith Lia.
From Baize Require Import Lib.Wire Lib.Order Lib.Path C02.Model C02.Proofs Resp.Model C04.Model C04.Proofs C04.Req C04.Static.
From Baize Require C02.Properties C07.Model C07.Properties C09.Model C09.Proofs C14.Model C18.Model C18.Properties.
Import ListNotations.

(* ---------- specification vocabulary ---------- *)

Definition ascii (s : bytes) : Prop := Forall (fun c => (c < 128)%N) s.

(* the application answered: a response, or an HTTPException for the server's error handling *)
Definition answered (o : obs) : Prop :=
  match o with OResp _ _ _ | OHttp _ => True | _ => False end.

(* no two request headers have the same name (case-insensitively) *)
Definition distinct_names (r : request) : Prop := NoDup (map (fun h => lower (fst h)) (rq_headers r)).

Definition good_names (r : request) : Prop := Forall (fun h => ~ In 95%N (fst h)) (rq_headers r).

(* http, https, ws or wss *)
Definition known_scheme (rq : areq) : Prop := C18.Model.default_port (aq_scheme rq) <> None.

(* ---------- CGI names and scope names ---------- *)

(* lower-case letters and '-' *)
Definition key_char (t : N) : Prop := (97 <= t <= 122)%N \/ t = 45%N.

Definition cgi_of (t : bytes) : bytes := replace_c 45 95 (upper t).

Lemma cgi_char (t c : N) : key_char t -> c <> 95%N ->
  (if N.eqb (upper_c c) 45 then 95%N else upper_c c) = (if N.eqb (upper_c t) 45 then 95%N else upper_c t)
  <-> lower_c c = t.
Proof.
  intros Ht Hc. unfold upper_c, lower_c, key_char in *.
  repeat match goal with |- context [N.leb ?a ?b] => destruct (N.leb_spec a b) end; cbn [andb];
  repeat match goal with |- context [N.eqb ?a ?b] => destruct (N.eqb_spec a b) end; lia.
Qed.

Lemma map_eq_pointwise_P {A : Type} (P : A -> Prop) (f g : A -> N) (u v : list N) :
  Forall2 (fun x y => forall a, P a -> (f a = x <-> g a = y)) u v ->
  forall l, Forall P l -> (map f l = u <-> map g l = v).
Proof.
  induction 1 as [|x y u v Hxy _ IH]; intros l Hl.
  - destruct l; cbn [map]; split; intro E; try reflexivity; discriminate.
  - destruct l as [|a l]; cbn [map]; [split; discriminate|].
    inversion Hl as [|? ? Ha Hl']; subst.
    split; intro E; injection E as E1 E2; f_equal;
      try (apply (Hxy a Ha); exact E1); apply (IH l Hl'); exact E2.
Qed.

Lemma name_key (t n : bytes) : Forall key_char t -> ~ In 95%N n ->
  cgi_of n = cgi_of t <-> lower n = t.
Proof.
  intros Ht Hn. unfold cgi_of, replace_c, upper, lower. rewrite !map_map.
  apply (map_eq_pointwise_P (fun a => a <> 95%N)).
  - induction Ht as [|c t Hc _ IH]; cbn [map]; constructor; [|exact IH].
    intros a Ha. apply cgi_char; assumption.
  - apply Forall_forall. intros a Ha E. subst a. exact (Hn Ha).
Qed.

Lemma cgi_key_eq (t n : bytes) : Forall key_char t -> ~ In 95%N n ->
  cgi_of t <> lit "CONTENT_TYPE" -> cgi_of t <> lit "CONTENT_LENGTH" ->
  bytes_eqb (cgi_key n) (lit "HTTP_" ++ cgi_of t) = bytes_eqb (lower n) t.
Proof.
  intros Ht Hn H1 H2. apply eq_true_iff_eq. rewrite !bytes_eqb_eq, <- (name_key t n Ht Hn).
  unfold cgi_key. fold (cgi_of n).
  destruct (bytes_eqb (cgi_of n) (lit "CONTENT_TYPE") || bytes_eqb (cgi_of n) (lit "CONTENT_LENGTH")) eqn:E.
  - apply orb_true_iff in E as [E|E]; apply bytes_eqb_eq in E; rewrite E; split; intro H.
    + discriminate H.
    + exfalso. apply H1. symmetry. exact H.
    + discriminate H.
    + exfalso. apply H2. symmetry. exact H.
  - split.
    + intro H. apply app_inv_head in H. exact H.
    + intros ->. reflexivity.
Qed.

(* the value of environ[HTTP_<NAME>] is the value of the last scope header <name> *)
Lemma env_get_scope (t : bytes) (r : request) : Forall key_char t ->
  cgi_of t <> lit "CONTENT_TYPE" -> cgi_of t <> lit "CONTENT_LENGTH" ->
  good_names r ->
  env_get (lit "HTTP_" ++ cgi_of t) (environ_headers r) = env_get t (scope_headers r).
Proof.
  intros Ht H1 H2 Hn. unfold env_get, environ_headers, scope_headers, good_names in *.
  generalize (@None bytes). induction Hn as [|h hs Hh _ IH]; intro acc; [reflexivity|].
  cbn [map fold_left fst snd]. pose proof (cgi_key_eq t (fst h) Ht Hh H1 H2) as E.
  unfold bytes in *. rewrite E. apply IH.
Qed.

Ltac key_chars :=
  match goal with |- Forall key_char ?l => let l' := eval vm_compute in l in change (Forall key_char l') end;
  repeat (constructor; [unfold key_char; lia|]); constructor.

Lemma inm_key r : good_names r ->
  env_get (lit "HTTP_IF_NONE_MATCH") (environ_headers r) = env_get (lit "if-none-match") (scope_headers r).
Proof. apply (env_get_scope (lit "if-none-match")); [key_chars|discriminate|discriminate]. Qed.

Lemma ims_key r : good_names r ->
  env_get (lit "HTTP_IF_MODIFIED_SINCE") (environ_headers r) = env_get (lit "if-modified-since") (scope_headers r).
Proof. apply (env_get_scope (lit "if-modified-since")); [key_chars|discriminate|discriminate]. Qed.

Lemma range_key r : good_names r ->
  env_get (lit "HTTP_RANGE") (environ_headers r) = env_get (lit "range") (scope_headers r).
Proof. apply (env_get_scope (lit "range")); [key_chars|discriminate|discriminate]. Qed.

Lemma if_range_key r : good_names r ->
  env_get (lit "HTTP_IF_RANGE") (environ_headers r) = env_get (lit "if-range") (scope_headers r).
Proof. apply (env_get_scope (lit "if-range")); [key_chars|discriminate|discriminate]. Qed.

Lemma host_key r : good_names r ->
  env_get (lit "HTTP_HOST") (environ_headers r) = env_get (lit "host") (scope_headers r).
Proof. apply (env_get_scope (lit "host")); [key_chars|discriminate|discriminate]. Qed.

(* ---------- the loops over scope["headers"] ---------- *)

Lemma fold_last {A : Type} (k : bytes) (f : bytes -> A) (hs : list header) : forall (a0 : A) (o : option bytes),
  fold_left (fun a kv => if bytes_eqb (fst kv) k then f (snd kv) else a) hs
            (match o with Some v => f v | None => a0 end) =
  match fold_left (fun acc kv => if bytes_eqb (fst kv) k then Some (snd kv) else acc) hs o with
  | Some v => f v
  | None => a0
  end.
Proof.
  unfold header, bytes in *. induction hs as [|h hs IH]; intros a0 o; [reflexivity|].
  cbn [fold_left]. destruct (bytes_eqb (fst h) k).
  - apply (IH a0 (Some (snd h))).
  - apply IH.
Qed.

Lemma scan2_fst {A : Type} k1 k2 (f : bytes -> A) hs : forall a0 b0,
  fst (scan2 k1 k2 f hs a0 b0) =
  fold_left (fun a kv => if bytes_eqb (fst kv) k1 then f (snd kv) else a) hs a0.
Proof.
  unfold scan2, header, bytes in *. induction hs as [|h hs IH]; intros a0 b0; [reflexivity|].
  cbn [fold_left]. destruct (bytes_eqb (fst h) k1).
  - apply IH.
  - destruct (bytes_eqb (fst h) k2); apply IH.
Qed.

Lemma scan2_snd {A : Type} k1 k2 (f : bytes -> A) hs : k1 <> k2 -> forall a0 b0,
  snd (scan2 k1 k2 f hs a0 b0) =
  fold_left (fun b kv => if bytes_eqb (fst kv) k2 then f (snd kv) else b) hs b0.
Proof.
  intros Hk. unfold scan2, header, bytes in *. induction hs as [|h hs IH]; intros a0 b0; [reflexivity|].
  cbn [fold_left]. destruct (bytes_eqb (fst h) k1) eqn:E1.
  - apply bytes_eqb_eq in E1.
    destruct (bytes_eqb (fst h) k2) eqn:E2; [apply bytes_eqb_eq in E2; congruence|]. apply IH.
  - destruct (bytes_eqb (fst h) k2); apply IH.
Qed.

Lemma scan2_spec {A : Type} k1 k2 (f : bytes -> A) hs a0 b0 : k1 <> k2 ->
  scan2 k1 k2 f hs a0 b0 =
  (match env_get k1 hs with Some v => f v | None => a0 end,
   match env_get k2 hs with Some v => f v | None => b0 end).
Proof.
  intros Hk. rewrite (surjective_pairing (scan2 k1 k2 f hs a0 b0)).
  rewrite scan2_fst, (scan2_snd k1 k2 f hs Hk). unfold env_get.
  rewrite <- (fold_last k1 f hs a0 None), <- (fold_last k2 f hs b0 None). reflexivity.
Qed.

Lemma cond_equiv (rq : areq) : good_names (aq_request rq) -> wsgi_cond rq = asgi_cond rq.
Proof.
  intros Hn. unfold wsgi_cond, asgi_cond, env_text. rewrite scan2_spec by discriminate.
  rewrite (inm_key _ Hn), (ims_key _ Hn). reflexivity.
Qed.

Lemma range_equiv (rq : areq) : good_names (aq_request rq) -> wsgi_range rq = asgi_range rq.
Proof.
  intros Hn. unfold wsgi_range, asgi_range. rewrite scan2_spec by discriminate.
  rewrite (range_key _ Hn), (if_range_key _ Hn).
  destruct (env_get (lit "range") _), (env_get (lit "if-range") _); reflexivity.
Qed.

(* first occurrence = last occurrence when the names are distinct *)
Lemma fold_absent (k : bytes) (hs : list header) : ~ In k (map fst hs) -> forall acc,
  fold_left (fun acc kv => if bytes_eqb (fst kv) k then Some (snd kv) else acc) hs acc = acc.
Proof.
  unfold header, bytes in *. induction hs as [|h hs IH]; intros Hk acc; [reflexivity|].
  cbn [fold_left]. destruct (bytes_eqb (fst h) k) eqn:E.
  - exfalso. apply Hk. left. apply bytes_eqb_eq. exact E.
  - apply IH. intro H. apply Hk. right. exact H.
Qed.

Lemma first_is_last (k : bytes) (hs : list header) : NoDup (map fst hs) -> hget k hs = env_get k hs.
Proof.
  unfold env_get. induction hs as [|[k' v] hs IH]; intro Hd; [reflexivity|].
  cbn [map fst] in Hd. inversion Hd as [|? ? Hk Hd']; subst.
  cbn [hget fold_left fst snd]. destruct (bytes_eqb k' k) eqn:E.
  - apply bytes_eqb_eq in E. subst k'. symmetry. apply fold_absent. exact Hk.
  - apply IH. exact Hd'.
Qed.

Lemma host_equiv_first (r : request) : good_names r -> distinct_names r ->
  env_get (lit "HTTP_HOST") (environ_headers r) = hget (lit "host") (scope_headers r).
Proof.
  intros Hn Hd. rewrite (host_key r Hn). symmetry. apply first_is_last.
  unfold scope_headers. rewrite map_map. exact Hd.
Qed.

(* ---------- text ---------- *)

Lemma utf8_decode_ascii (s : bytes) : ascii s -> utf8_decode s = Some s.
Proof.
  induction 1 as [|c s Hc _ IH]; [reflexivity|].
  cbn [utf8_decode]. apply N.ltb_lt in Hc. rewrite Hc, IH. reflexivity.
Qed.

Lemma redecode_ascii (s : bytes) : ascii s -> redecode s = Some s.
Proof.
  intro H. unfold redecode.
  assert (E : forallb (fun c => (c <? 256)%N) s = true).
  { apply forallb_forall. intros c Hc. apply N.ltb_lt.
    unfold ascii in H. rewrite Forall_forall in H. specialize (H c Hc). cbn beta in H. lia. }
  rewrite E. apply utf8_decode_ascii. exact H.
Qed.

(* ---------- the URL of the redirect ---------- *)

Ltac split_raises H :=
  repeat (cbv beta iota in H;
          match type of H with
          | context [match ?x with _ => _ end] =>
              lazymatch x with
              | context [match _ with _ => _ end] => fail
              | _ => destruct x; try discriminate H
              end
          end).

Lemma urlsplit_raises u e : C18.Model.urlsplit u = C18.Model.Raise e -> e = C18.Model.ValueError.
Proof.
  unfold C18.Model.urlsplit, C18.Model.bind. intro H. split_raises H.
  all: cbv beta iota in H; try discriminate H; try (injection H as <-; reflexivity).
Qed.

Lemma mk_url_raises u e : C18.Model.mk_url u = C18.Model.Raise e -> e = C18.Model.ValueError.
Proof.
  unfold C18.Model.mk_url. destruct (C18.Model.urlsplit u) as [c|e'] eqn:E; cbn [C18.Model.bind]; [discriminate|].
  intro H. injection H as <-. exact (urlsplit_raises _ _ E).
Qed.

Lemma build_url_raises sch pth qs server host e :
  C18.Model.default_port sch <> None -> C18.Model.build_url sch pth qs server host = C18.Model.Raise e -> False.
Proof.
  unfold C18.Model.build_url, C18.Model.bind. intros Hd H.
  destruct host; [discriminate H|]. destruct server as [[h port]|]; [|discriminate H].
  destruct (C18.Model.default_port sch); [|apply Hd; reflexivity].
  destruct port; [|discriminate H]. destruct (N.eqb _ _); discriminate H.
Qed.

Lemma scope_url_raises r e :
  C18.Model.default_port (C18.Model.r_scheme r) <> None ->
  C18.Model.scope_url r = C18.Model.Raise e -> e = C18.Model.ValueError.
Proof.
  intros Hd H. unfold C18.Model.scope_url in H.
  destruct (C18.Model.build_url _ _ _ _ _) as [u|e'] eqn:Eb; cbn [C18.Model.bind] in H.
  - exact (mk_url_raises _ _ H).
  - exfalso. exact (build_url_raises _ _ _ _ _ _ Hd Eb).
Qed.

Lemma replace_slash_raises u e :
  C18.Model.replace u (slash_kwargs u) = C18.Model.Raise e -> e = C18.Model.ValueError.
Proof.
  unfold C18.Model.replace, C18.Model.new_netloc, slash_kwargs.
  cbn [C18.Model.k_username C18.Model.k_password C18.Model.k_hostname C18.Model.k_port C18.Model.is_some orb C18.Model.bind].
  apply mk_url_raises.
Qed.

Lemma with_query_raises query build e :
  (forall q e', build q = C18.Model.Raise e' -> e' = C18.Model.ValueError) ->
  with_query query build = C18.Model.Raise e -> e = C18.Model.ValueError.
Proof.
  intros Hb. unfold with_query. destruct (utf8_decode query) as [q|]; [apply Hb|].
  destruct (build []) as [u|e'] eqn:E; cbn [C18.Model.bind]; intro H.
  - injection H as <-. reflexivity.
  - injection H as <-. exact (Hb _ _ E).
Qed.

Lemma redirect_answered render u :
  (forall e, u = C18.Model.Raise e -> e = C18.Model.ValueError) ->
  (forall loc, exists x, render (RRedirect (bare 307) loc) = Some x) ->
  answered (redirect_answer render u).
Proof.
  intros Hu Hr. unfold redirect_answer. destruct u as [u0|e]; cbn [C18.Model.bind].
  - destruct (C18.Model.replace u0 (slash_kwargs u0)) as [u'|e] eqn:E.
    + destruct (Hr (iri_to_uri (C18.Model.ustr u'))) as [[[st hs] body] Hx]. rewrite Hx. exact I.
    + rewrite (replace_slash_raises _ _ E). exact I.
  - rewrite (Hu e eq_refl). exact I.
Qed.

(* URL(environ=...) = URL(scope=...) for a path the gateway can present alike *)
Lemma url_equiv (rq : areq) (s : state) (p : bytes) :
  good_names (aq_request rq) -> distinct_names (aq_request rq) ->
  C09.Model.path (s_req s) = Some p -> ascii (C09.Proofs.full (s_req s)) ->
  wsgi_url rq s = asgi_url rq s p.
Proof.
  intros Hn Hd Hp Ha. unfold wsgi_url, asgi_url. unfold C09.Proofs.full in Ha.
  rewrite (redecode_ascii _ Ha), Hp. cbn [C09.Model.get].
  rewrite (host_equiv_first _ Hn Hd).
  (* the two constructors pass the same arguments to _build_url: C18 wsgi_asgi_same *)
  set (host := hget (lit "host") (scope_headers (aq_request rq))).
  set (root := C09.Model.get (C09.Model.root (s_req s))).
  assert (E : forall q,
             match C18.Model.environ_url (url_request rq host [] (root ++ p) q) with
             | Some x => x
             | None => C18.Model.Raise C18.Model.KeyError
             end = C18.Model.scope_url (url_request rq host root p q)).
  { intro q. destruct (C18.Model.environ_url (url_request rq host [] (root ++ p) q)) as [x|] eqn:E.
    - rewrite (C18.Properties.wsgi_asgi_same _ _ E). reflexivity.
    - discriminate E. }
  clear -E. unfold with_query. destruct (utf8_decode _); cbv beta; rewrite E; reflexivity.
Qed.

Lemma asgi_url_raises (rq : areq) (s : state) (p : bytes) e :
  known_scheme rq -> asgi_url rq s p = C18.Model.Raise e -> e = C18.Model.ValueError.
Proof.
  intros Hk. unfold asgi_url. apply with_query_raises. intros q e'. apply scope_url_raises. exact Hk.
Qed.

(* ---------- the responses ---------- *)

Lemma default_chunk_pos : 1 <= default_chunk.
Proof. unfold default_chunk. apply (Nat.mul_pos_pos 4096 64); apply Nat.lt_0_succ. Qed.

(* FileResponse on both interfaces: the status and headers C02's model computes, the body C02's
   theorems name (wsgi_body_exact, asgi_body_exact) *)
Lemma file_exact (fr : file_req) : 1 <= fr_chunk fr ->
  wsgi_response (RFile fr) = Some (w_status (wsgi_file fr), w_headers (wsgi_file fr), expected_body fr) /\
  asgi_response (RFile fr) = Some (w_status (wsgi_file fr), w_headers (wsgi_file fr), expected_body fr).
Proof.
  intros Hc. unfold wsgi_response, asgi_response; cbn [wsgi_full asgi_full fst].
  destruct (C02.Properties.asgi_body_exact false fr Hc) as (st & hs & Heq & Hst & Hhs & Hb & _).
  rewrite Heq. unfold asgi_rest in *. subst st hs. split.
  - f_equal. f_equal. rewrite <- (C02.Properties.wsgi_body_exact fr Hc). unfold C02.Model.wsgi_body.
    apply yields_concat.
  - rewrite Hb. reflexivity.
Qed.

Lemma not_modified_iface e k id inm ims :
  not_modified e k C14.Model.Wsgi id inm ims = not_modified e k C14.Model.Asgi id inm ims.
Proof. unfold not_modified, C14.Model.serve. destruct k; reflexivity. Qed.

(* C07: with a well-formed directory the decision never raises *)
Lemma no_crash k fs cwd dir path : C07.Model.wf_dir dir = true ->
  fst (C07.Model.app_call k fs cwd dir path) <> C07.Model.Crash.
Proof.
  intros Hwf E. destruct k; cbn [C07.Model.app_call] in E.
  - destruct (C07.Properties.not_found_otherwise_files fs cwd dir path Hwf) as [H|(t & id & _ & _ & H)];
      rewrite H in E; discriminate E.
  - pose proof (C07.Properties.not_found_otherwise_pages fs cwd dir path Hwf) as H. cbv zeta in H.
    destruct H as [H|[(p & id & H)|(H & _)]]; rewrite H in E; discriminate E.
Qed.

(* ---------- static_equiv ---------- *)

Theorem static_equiv_proof (k : C07.Model.kind) (c : scfg) (e : senv) (rq : areq) (s : state) :
  C07.Model.wf_dir (sc_dir c) = true ->
  good_names (aq_request rq) -> distinct_names (aq_request rq) -> known_scheme rq ->
  C09.Model.lifespan (s_req s) = false -> (exists p, C09.Model.path (s_req s) = Some p) ->
  ascii (C09.Proofs.full (s_req s)) ->
  static_wsgi k c e rq s = static_asgi k c e rq s /\ answered (static_asgi k c e rq s).
Proof.
  intros Hwf Hn Hd Hk Hl [p Hp] Ha.
  unfold static_wsgi, static_asgi. rewrite Hl, Hp, (cond_equiv rq Hn), (range_equiv rq Hn). cbn [C09.Model.get].
  destruct (asgi_cond rq) as [inm ims]. destruct (asgi_range rq) as [rg ifr].
  unfold C07.Model.wsgi_call, C07.Model.asgi_call.
  pose proof (no_crash k (se_fs e) (se_cwd e) (sc_dir c) p Hwf) as Hnc.
  destruct (fst (C07.Model.app_call k (se_fs e) (se_cwd e) (sc_dir c) p)) as [fp id|loc| |].
  - (* a regular file: 304 or FileResponse *)
    rewrite (not_modified_iface e k id inm ims).
    destruct (not_modified e k C14.Model.Asgi id inm ims).
    + destruct (response_equiv_proof (r304 c) I) as (st & hw & ha & body & Hw & Has & Hh).
      rewrite Hw, Has. change (ha = hw) in Hh. subst ha. split; [reflexivity|exact I].
    + set (fr := file_req_of e (is_head rq) rg ifr fp id).
      destruct (file_exact fr default_chunk_pos) as [Hw Has]. rewrite Hw, Has. split; [reflexivity|exact I].
  - (* Pages: the slash redirect *)
    rewrite (url_equiv rq s p Hn Hd Hp Ha). split.
    + unfold redirect_answer.
      destruct (C18.Model.bind (asgi_url rq s p) (fun u0 => C18.Model.replace u0 (slash_kwargs u0))) as [u'|[]];
        [|reflexivity|reflexivity|reflexivity].
      destruct (response_equiv_proof (RRedirect (bare 307) (iri_to_uri (C18.Model.ustr u'))) I)
        as (st & hw & ha & body & Hw & Has & Hh).
      rewrite Hw, Has. change (ha = hw) in Hh. subst ha. reflexivity.
    + apply redirect_answered.
      * intros e0. apply asgi_url_raises. exact Hk.
      * intro loc0. eexists. reflexivity.
  - split; [reflexivity|exact I].
  - exfalso. apply Hnc. reflexivity.
Qed.

(* ---------- static_serves_file ---------- *)

(* the answer on interface i, and what that interface reads of the request *)
Definition run_static (i : C14.Model.iface) : C07.Model.kind -> scfg -> senv -> areq -> state -> obs :=
  match i with C14.Model.Wsgi => static_wsgi | C14.Model.Asgi => static_asgi end.

Definition cond_of (i : C14.Model.iface) : areq -> bytes * bytes :=
  match i with C14.Model.Wsgi => wsgi_cond | C14.Model.Asgi => asgi_cond end.

Definition range_of (i : C14.Model.iface) : areq -> option bytes * option bytes :=
  match i with C14.Model.Wsgi => wsgi_range | C14.Model.Asgi => asgi_range end.

(* C14's decision for the regular file [id]: If-None-Match against the ETag when the header is not
   empty, otherwise If-Modified-Since against int(st_ctime) *)
Definition c14_not_modified (e : senv) (id : N) (inm ims : bytes) : bool :=
  let f := fstate_of id (se_meta e id) in
  match inm with
  | [] => C14.Model.if_modified_since (Z.of_N (se_isec e (C14.Model.f_ctime f))) (parse_ims e ims)
  | _ => C14.Model.if_none_match (C14.Model.etag_of (se_fkey e) (se_sha e) f) inm
  end.

(* C07: the served path [p] is the lexical resolution [t] of the request path below the directory
   (Pages: or t + ".html" when nothing is at t, or the index page of the directory t for a URL
   ending in "/"), and it is the regular file [id] *)
Definition resolution (k : C07.Model.kind) (fs : C07.Model.fsys) (dir path p : bytes) (id : N) : Prop :=
  exists t, C07.Model.lexical_target dir path = Some t /\ fs p = C07.Model.NFile id /\
    match k with
    | C07.Model.KFiles => p = t
    | C07.Model.KPages =>
        p = t \/
        (p = t ++ C07.Model.DOT_HTML /\ t <> dir /\ (fs t = C07.Model.NAbsent \/ fs t = C07.Model.NError)) \/
        (p = C07.Proofs.with_slash t ++ C07.Model.INDEX_HTML /\ ends_slash path = true /\
         (ends_slash t = true \/ fs t = C07.Model.NDir))
    end.

(* Response(304) with the appended headers *)
Definition headers_304 (c : scfg) : list header :=
  [(lit "cache-control", sc_cacheability c ++ lit ", max-age=" ++ dec_z (sc_max_age c));
   (lit "vary", lit "Accept-Encoding, User-Agent, Cookie, Referer");
   (lit "content-length", lit "0")].

Definition serves_file_statement (i : C14.Model.iface) (k : C07.Model.kind) (c : scfg) (e : senv)
    (rq : areq) (s : state) (path : bytes) : Prop :=
  let fs := se_fs e in
  let dir := sc_dir c in
  let ans := run_static i k c e rq s in
  match fst (C07.Model.app_call k fs (se_cwd e) dir path) with
  | C07.Model.Served p id =>
      resolution k fs dir path p id /\
      let content := fm_content (se_meta e id) in
      let '(inm, ims) := cond_of i rq in
      if c14_not_modified e id inm ims
      then ans = OResp 304 (headers_304 c) []
      else
        let '(rg, ifr) := range_of i rq in
        let fr := file_req_of e (is_head rq) rg ifr p id in
        let st := w_status (wsgi_file fr) in
        fr_file fr = content /\
        ans = OResp st (file_headers (cache_headers c) fr (w_headers (wsgi_file fr))) (expected_body fr) /\
        (st = 200 \/ st = 206 \/ st = 400 \/ st = 416) /\
        (st = 200 -> is_head rq = false -> expected_body fr = content) /\
        (forall s0 e0, decide fr = Single s0 e0 ->
           st = 206 /\ s0 < e0 <= length content /\
           (is_head rq = false -> expected_body fr = slice content s0 e0)) /\
        (forall l, decide fr = Several l ->
           st = 206 /\ (is_head rq = false -> expected_body fr = flat_map (part fr) l ++ closing (fr_boundary fr))) /\
        (st = 400 \/ st = 416 ->
           (exists msg, decide fr = Reject400 msg /\ expected_body fr = if is_head rq then [] else msg) \/
           (decide fr = Reject416 /\ expected_body fr = []))
  | C07.Model.Redirect loc =>
      k = C07.Model.KPages /\ loc = path ++ [SL] /\ ends_slash path = false /\
      (exists t, C07.Model.lexical_target dir path = Some t /\ fs t = C07.Model.NDir) /\
      (ans = OHttp 400 \/
       exists location, ans = OResp 307 [(lit "location", location); (lit "content-length", lit "0")] [])
  | C07.Model.NotFound => ans = OHttp 404
  | C07.Model.Crash => False
  end.

Lemma not_modified_spec e k i id inm ims : not_modified e k i id inm ims = c14_not_modified e id inm ims.
Proof.
  unfold not_modified, c14_not_modified, C14.Model.serve, C14.Model.file_response.
  destruct k, i; destruct inm as [|x inm];
    try (destruct (C14.Model.if_modified_since _ _); reflexivity);
    destruct (C14.Model.if_none_match _ _); reflexivity.
Qed.

Lemma wsgi_url_raises (rq : areq) (s : state) e :
  known_scheme rq -> wsgi_url rq s = C18.Model.Raise e -> e = C18.Model.ValueError.
Proof.
  intros Hk. unfold wsgi_url. destruct (redecode _) as [pth|]; [|intro H; injection H as <-; reflexivity].
  apply with_query_raises. intros q e'.
  destruct (C18.Model.environ_url _) as [x|] eqn:E; [|discriminate E].
  rewrite (C18.Properties.wsgi_asgi_same _ _ E). apply scope_url_raises. exact Hk.
Qed.

Lemma redirect_shape render u :
  (forall e, u = C18.Model.Raise e -> e = C18.Model.ValueError) ->
  (forall loc, render (RRedirect (bare 307) loc) =
               Some (307, [(lit "location", loc); (lit "content-length", lit "0")], [])) ->
  redirect_answer render u = OHttp 400 \/
  exists location, redirect_answer render u = OResp 307 [(lit "location", location); (lit "content-length", lit "0")] [].
Proof.
  intros Hu Hr. unfold redirect_answer. destruct u as [u0|e0]; cbn [C18.Model.bind].
  - destruct (C18.Model.replace u0 (slash_kwargs u0)) as [u'|ex] eqn:E.
    + right. eexists. rewrite Hr. reflexivity.
    + left. rewrite (replace_slash_raises _ _ E). reflexivity.
  - left. rewrite (Hu e0 eq_refl). reflexivity.
Qed.

(* both __call__ methods as one function of how the interface renders a response and builds the URL *)
Definition generic_answer (render : recipe -> option (nat * list header * bytes)) (u : C18.Model.res C18.Model.url)
    (k : C07.Model.kind) (c : scfg) (e : senv) (rq : areq) (path inm ims : bytes) (rg ifr : option bytes) : obs :=
  match fst (C07.Model.app_call k (se_fs e) (se_cwd e) (sc_dir c) path) with
  | C07.Model.Served p id =>
      if c14_not_modified e id inm ims then obs_of (render (r304 c))
      else let fr := file_req_of e (is_head rq) rg ifr p id in
           file_answer (cache_headers c) fr (render (RFile fr))
  | C07.Model.Redirect _ => redirect_answer render u
  | C07.Model.NotFound => OHttp 404
  | C07.Model.Crash => OCrash
  end.

Lemma wsgi_generic k c e rq s :
  static_wsgi k c e rq s =
  generic_answer wsgi_response (wsgi_url rq s) k c e rq (C09.Model.get (C09.Model.path (s_req s)))
                 (fst (wsgi_cond rq)) (snd (wsgi_cond rq)) (fst (wsgi_range rq)) (snd (wsgi_range rq)).
Proof.
  unfold static_wsgi, generic_answer, C07.Model.wsgi_call.
  destruct (wsgi_cond rq) as [inm ims]. destruct (wsgi_range rq) as [rg ifr]. cbn [fst snd].
  destruct (fst (C07.Model.app_call _ _ _ _ _)); try reflexivity.
  rewrite not_modified_spec. reflexivity.
Qed.

Lemma asgi_generic k c e rq s path :
  C09.Model.lifespan (s_req s) = false -> C09.Model.path (s_req s) = Some path ->
  static_asgi k c e rq s =
  generic_answer asgi_response (asgi_url rq s path) k c e rq path
                 (fst (asgi_cond rq)) (snd (asgi_cond rq)) (fst (asgi_range rq)) (snd (asgi_range rq)).
Proof.
  intros Hl Hp. unfold static_asgi, generic_answer, C07.Model.asgi_call. rewrite Hl, Hp.
  destruct (asgi_cond rq) as [inm ims]. destruct (asgi_range rq) as [rg ifr]. cbn [fst snd].
  destruct (fst (C07.Model.app_call _ _ _ _ _)); try reflexivity.
  rewrite not_modified_spec. reflexivity.
Qed.

Lemma generic_serves render u k c e rq path inm ims rg ifr :
  C07.Model.wf_dir (sc_dir c) = true ->
  (k = C07.Model.KPages -> se_fs e (sc_dir c ++ SL :: C07.Model.INDEX_HTML) <> C07.Model.NDir) ->
  render (r304 c) = Some (304, headers_304 c, []) ->
  (forall fr, 1 <= fr_chunk fr ->
     render (RFile fr) = Some (w_status (wsgi_file fr), w_headers (wsgi_file fr), expected_body fr)) ->
  (forall loc, render (RRedirect (bare 307) loc) =
               Some (307, [(lit "location", loc); (lit "content-length", lit "0")], [])) ->
  (forall e0, u = C18.Model.Raise e0 -> e0 = C18.Model.ValueError) ->
  let fs := se_fs e in
  let dir := sc_dir c in
  let ans := generic_answer render u k c e rq path inm ims rg ifr in
  match fst (C07.Model.app_call k fs (se_cwd e) dir path) with
  | C07.Model.Served p id =>
      resolution k fs dir path p id /\
      let content := fm_content (se_meta e id) in
      if c14_not_modified e id inm ims
      then ans = OResp 304 (headers_304 c) []
      else
        let fr := file_req_of e (is_head rq) rg ifr p id in
        let st := w_status (wsgi_file fr) in
        fr_file fr = content /\
        ans = OResp st (file_headers (cache_headers c) fr (w_headers (wsgi_file fr))) (expected_body fr) /\
        (st = 200 \/ st = 206 \/ st = 400 \/ st = 416) /\
        (st = 200 -> is_head rq = false -> expected_body fr = content) /\
        (forall s0 e0, decide fr = Single s0 e0 ->
           st = 206 /\ s0 < e0 <= length content /\
           (is_head rq = false -> expected_body fr = slice content s0 e0)) /\
        (forall l, decide fr = Several l ->
           st = 206 /\ (is_head rq = false -> expected_body fr = flat_map (part fr) l ++ closing (fr_boundary fr))) /\
        (st = 400 \/ st = 416 ->
           (exists msg, decide fr = Reject400 msg /\ expected_body fr = if is_head rq then [] else msg) \/
           (decide fr = Reject416 /\ expected_body fr = []))
  | C07.Model.Redirect loc =>
      k = C07.Model.KPages /\ loc = path ++ [SL] /\ ends_slash path = false /\
      (exists t, C07.Model.lexical_target dir path = Some t /\ fs t = C07.Model.NDir) /\
      (ans = OHttp 400 \/
       exists location, ans = OResp 307 [(lit "location", location); (lit "content-length", lit "0")] [])
  | C07.Model.NotFound => ans = OHttp 404
  | C07.Model.Crash => False
  end.
Proof.
  intros Hwf Hidx Hr304 HrF HrR Hu. cbv zeta. unfold generic_answer.
  pose proof (no_crash k (se_fs e) (se_cwd e) (sc_dir c) path Hwf) as Hnc.
  destruct (fst (C07.Model.app_call k (se_fs e) (se_cwd e) (sc_dir c) path)) as [p id|loc| |] eqn:Eo.
  - (* served *)
    split.
    { unfold resolution. destruct k; cbn [C07.Model.app_call] in Eo.
      - destruct (C07.Properties.serves_resolved_files _ _ _ _ _ _ Hwf Eo) as [Ht Hf].
        exists p. split; [exact Ht|]. split; [exact Hf|reflexivity].
      - destruct (C07.Properties.serves_resolved_pages _ _ _ _ _ _ Hwf (Hidx eq_refl) Eo) as (t & Ht & Hf & Halt).
        exists t. split; [exact Ht|]. split; [exact Hf|exact Halt]. }
    destruct (c14_not_modified e id inm ims).
    + rewrite Hr304. reflexivity.
    + set (fr := file_req_of e (is_head rq) rg ifr p id).
      rewrite (HrF fr default_chunk_pos). cbn [file_answer].
      destruct (C02.Properties.status_decision fr) as (_ & H200 & H206 & H400 & H416).
      split; [reflexivity|]. split; [reflexivity|].
      assert (Hhead : fr_head fr = is_head rq) by reflexivity.
      split; [|split; [|split; [|split]]].
      * unfold wsgi_file. destruct (decide fr); cbn [w_status]; auto.
      * intros Hst Hh. apply H200 in Hst. unfold expected_body. rewrite Hhead, Hh, Hst. reflexivity.
      * intros s0 e0 Hd. split; [apply H206; left; exists s0, e0; exact Hd|].
        destruct (C02.Properties.single_range_exact fr s0 e0 Hd) as (Hb & _ & Hbody).
        split; [exact Hb|]. intro Hh. apply Hbody. rewrite Hhead. exact Hh.
      * intros l Hd. split; [apply H206; right; exists l; exact Hd|].
        intro Hh. unfold expected_body. rewrite Hhead, Hh, Hd. reflexivity.
      * intros Hst. unfold expected_body. rewrite Hhead.
        destruct (decide fr) as [|s0 e0|l|msg|] eqn:Ed.
        -- exfalso. assert (H : w_status (wsgi_file fr) = 200) by (apply H200; reflexivity).
           rewrite H in Hst. destruct Hst; discriminate.
        -- exfalso. assert (H : w_status (wsgi_file fr) = 206) by (apply H206; left; exists s0, e0; reflexivity).
           rewrite H in Hst. destruct Hst; discriminate.
        -- exfalso. assert (H : w_status (wsgi_file fr) = 206) by (apply H206; right; exists l; reflexivity).
           rewrite H in Hst. destruct Hst; discriminate.
        -- left. exists msg. split; reflexivity.
        -- right. split; [reflexivity|]. destruct (is_head rq); reflexivity.
  - (* redirect *)
    assert (Hk : k = C07.Model.KPages).
    { destruct k; [|reflexivity]. cbn [C07.Model.app_call] in Eo.
      destruct (C07.Properties.not_found_otherwise_files (se_fs e) (se_cwd e) (sc_dir c) path Hwf)
        as [H|(t & id & _ & _ & H)]; rewrite H in Eo; discriminate Eo. }
    subst k. cbn [C07.Model.app_call] in Eo.
    destruct (C07.Properties.redirect_then_index _ _ _ _ _ Hwf Eo) as (Hloc & Hsl & t & Ht & Hd & _).
    split; [reflexivity|]. split; [exact Hloc|]. split; [exact Hsl|].
    split; [exists t; split; assumption|].
    apply redirect_shape; assumption.
  - reflexivity.
  - apply Hnc. reflexivity.
Qed.

Lemma wsgi_render_facts (c : scfg) :
  wsgi_response (r304 c) = Some (304, headers_304 c, []) /\
  (forall loc, wsgi_response (RRedirect (bare 307) loc) =
               Some (307, [(lit "location", loc); (lit "content-length", lit "0")], [])).
Proof. split; [reflexivity|intro loc; reflexivity]. Qed.

Lemma asgi_render_facts (c : scfg) :
  asgi_response (r304 c) = Some (304, headers_304 c, []) /\
  (forall loc, asgi_response (RRedirect (bare 307) loc) =
               Some (307, [(lit "location", loc); (lit "content-length", lit "0")], [])).
Proof. split; [reflexivity|intro loc; reflexivity]. Qed.

Theorem static_serves_file_proof (i : C14.Model.iface) (k : C07.Model.kind) (c : scfg) (e : senv)
    (rq : areq) (s : state) (path : bytes) :
  C07.Model.wf_dir (sc_dir c) = true ->
  (k = C07.Model.KPages -> se_fs e (sc_dir c ++ SL :: C07.Model.INDEX_HTML) <> C07.Model.NDir) ->
  known_scheme rq ->
  C09.Model.lifespan (s_req s) = false -> C09.Model.path (s_req s) = Some path ->
  serves_file_statement i k c e rq s path.
Proof.
  intros Hwf Hidx Hk Hl Hp. unfold serves_file_statement. cbv zeta.
  destruct i; cbn [run_static cond_of range_of].
  - rewrite wsgi_generic, Hp. cbn [C09.Model.get].
    destruct (wsgi_render_facts c) as [H1 H2].
    pose proof (generic_serves wsgi_response (wsgi_url rq s) k c e rq path
                  (fst (wsgi_cond rq)) (snd (wsgi_cond rq)) (fst (wsgi_range rq)) (snd (wsgi_range rq))
                  Hwf Hidx H1 (fun fr Hc => proj1 (file_exact fr Hc)) H2
                  (fun e0 => wsgi_url_raises rq s e0 Hk)) as G.
    cbv zeta in G.
    destruct (wsgi_cond rq) as [inm ims]. destruct (wsgi_range rq) as [rg ifr]. exact G.
  - rewrite (asgi_generic k c e rq s path Hl Hp).
    destruct (asgi_render_facts c) as [H1 H2].
    pose proof (generic_serves asgi_response (asgi_url rq s path) k c e rq path
                  (fst (asgi_cond rq)) (snd (asgi_cond rq)) (fst (asgi_range rq)) (snd (asgi_range rq))
                  Hwf Hidx H1 (fun fr Hc => proj2 (file_exact fr Hc)) H2
                  (fun e0 => asgi_url_raises rq s path e0 Hk)) as G.
    cbv zeta in G.
    destruct (asgi_cond rq) as [inm ims]. destruct (asgi_range rq) as [rg ifr]. exact G.
Qed.

(* ---------- a small world for the examples of Properties.v ---------- *)

(* C07's example tree below /srv/www: sub/index.html (1), ..name (2), about.html (3); every file
   modified at 1700000000.5 s and changed 100 s later; a toy standard library *)
Definition ex_env : senv :=
  {| se_cwd := lit "/"; se_fs := C07.Proofs.ex_fs;
     se_meta := fun id => {| fm_content := lit "<p>page " ++ dec id ++ lit "</p>";
                             fm_mtime := 1700000000500000000; fm_ctime := 1700000100000000000 |};
     se_fkey := fun t => t;
     se_sha := fun k sz => lit "e" ++ dec k ++ lit "s" ++ dec sz;
     se_isec := fun t => (t / 1000000000)%N;
     se_fmtdate := fun sec => lit "D" ++ dec sec;
     se_parsedate := fun t => match t with 68%N :: r => Some (Z.of_N (undec r)) | _ => None end;
     se_ctype := fun _ => lit "text/html";
     se_disp := fun _ => None;
     se_boundary := lit "b0undaryb0und" |}.

Definition ex_cfg : scfg := {| sc_dir := C07.Proofs.ex_dir; sc_cacheability := lit "public"; sc_max_age := 600 |}.

Definition ex_request (method path : bytes) (headers : list header) : areq :=
  {| aq_request := {| rq_method := method; rq_query := lit "a=1"; rq_headers := headers;
                      rq_client := None; rq_body := [] |};
     aq_root := lit "/r"; aq_path := path; aq_scheme := lit "http"; aq_server := (lit "testserver", 80%N) |}.

(* ---------- the Location of the redirect ---------- *)

Lemma replace_slash_text u u' :
  C18.Model.replace u (slash_kwargs u) = C18.Model.Ok u' ->
  C18.Model.ustr u' =
  C18.Model.unsplit {| C18.Model.scheme := []; C18.Model.netloc := C18.Model.netloc (C18.Model.ucomps u);
                       C18.Model.path := C18.Model.path (C18.Model.ucomps u) ++ [47%N];
                       C18.Model.query := C18.Model.query (C18.Model.ucomps u);
                       C18.Model.fragment := C18.Model.fragment (C18.Model.ucomps u) |}.
Proof.
  unfold C18.Model.replace, C18.Model.new_netloc, slash_kwargs.
  cbn [C18.Model.k_username C18.Model.k_password C18.Model.k_hostname C18.Model.k_port C18.Model.k_scheme C18.Model.k_path
       C18.Model.k_query C18.Model.k_fragment C18.Model.is_some orb C18.Model.bind C18.Model.dflt].
  unfold C18.Model.mk_url. destruct (C18.Model.urlsplit _) as [c'|e']; cbn [C18.Model.bind]; [|discriminate].
  intro H. injection H as <-. reflexivity.
Qed.

Lemma unsplit_slash (nl pth q : bytes) : nl <> [] -> C18.Proofs.path_ok pth = true ->
  C18.Model.unsplit {| C18.Model.scheme := []; C18.Model.netloc := nl; C18.Model.path := pth ++ [47%N];
                       C18.Model.query := q; C18.Model.fragment := [] |} =
  lit "//" ++ nl ++ (pth ++ [47%N]) ++ C18.Proofs.qpart q.
Proof.
  intros Hnl Hp. unfold C18.Model.unsplit, C18.Proofs.qpart.
  cbn [C18.Model.scheme C18.Model.netloc C18.Model.path C18.Model.query C18.Model.fragment C18.Model.is_nil].
  destruct nl as [|n0 nl]; [contradiction Hnl; reflexivity|]. cbn [C18.Model.is_nil negb orb].
  assert (E : match pth ++ [47%N] with
              | [] => []
              | c0 :: _ => if (c0 =? 47)%N then pth ++ [47%N] else 47%N :: pth ++ [47%N]
              end = pth ++ [47%N]).
  { destruct pth as [|c0 r]; [reflexivity|]. cbn [app]. cbn [C18.Proofs.path_ok] in Hp.
    apply andb_true_iff in Hp as [Hc _]. rewrite Hc. reflexivity. }
  rewrite E. change (lit "//") with [47%N; 47%N].
  destruct q as [|q0 q]; cbn [C18.Model.is_nil]; rewrite ?app_nil_r, <- ?app_assoc; reflexivity.
Qed.

Lemma host_text_nonempty src d : C18.Proofs.source_ok src = true ->
  C18.Proofs.host_text (C18.Proofs.source_host src) ++ C18.Proofs.port_text (C18.Proofs.source_port d src) <> [].
Proof.
  intros Hs. pose proof (C18.Proofs.source_host_ok src Hs) as Hh.
  destruct (C18.Proofs.source_host src) as [h|a]; cbn [C18.Proofs.host_text C18.Proofs.host_ok] in *.
  - destruct h; [discriminate Hh|discriminate].
  - discriminate.
Qed.

(* urlsplit accepts the scheme-less text urlunsplit produced (C18's urlsplit_text, without a scheme) *)
Lemma urlsplit_noscheme (nl pth q : bytes) :
  forallb C18.Proofs.nl_char_ok nl = true -> C18.Model.netloc_check nl = true ->
  C18.Proofs.path_ok pth = true -> pth <> [] -> C18.Proofs.query_ok q = true ->
  C18.Model.urlsplit (47%N :: 47%N :: nl ++ pth ++ C18.Proofs.qpart q) =
  C18.Model.Ok {| C18.Model.scheme := []; C18.Model.netloc := nl; C18.Model.path := pth;
                  C18.Model.query := q; C18.Model.fragment := [] |}.
Proof.
  intros Hnl Hck Hp Hne Hq.
  destruct (C18.Proofs.path_ok_inv _ Hp) as (Hp63 & Hp35 & Hpsafe & Hpform).
  destruct (C18.Proofs.query_ok_inv _ Hq) as (Hq35 & Hqsafe).
  assert (Hnld : forallb (fun x => negb (C18.Model.is_delim x)) nl = true).
  { revert Hnl. apply C18.Proofs.forallb_imp. intros ch Hc. apply andb_true_iff in Hc. tauto. }
  assert (Hnls : forallb (fun x => negb (C18.Model.unsafe x)) nl = true).
  { revert Hnl. apply C18.Proofs.forallb_imp. intros ch Hc. apply andb_true_iff in Hc. tauto. }
  assert (Hqp : forallb (fun x => negb (C18.Model.unsafe x)) (C18.Proofs.qpart q) = true).
  { unfold C18.Proofs.qpart. destruct (C18.Model.is_nil q); [reflexivity|]. cbn [forallb]. rewrite Hqsafe. reflexivity. }
  set (rest := nl ++ pth ++ C18.Proofs.qpart q).
  unfold C18.Model.urlsplit.
  assert (E1 : C18.Model.lstrip_c0 (47%N :: 47%N :: rest) = 47%N :: 47%N :: rest) by reflexivity.
  rewrite E1.
  assert (E2 : C18.Model.remove_unsafe (47%N :: 47%N :: rest) = 47%N :: 47%N :: rest).
  { unfold C18.Model.remove_unsafe. apply C18.Proofs.filter_all. cbn [forallb].
    change (negb (C18.Model.unsafe 47)) with true. cbn [andb]. unfold rest.
    repeat apply C18.Proofs.forallb_app_true; assumption. }
  rewrite E2.
  assert (E3 : C18.Model.split_scheme (47%N :: 47%N :: rest) = ([], 47%N :: 47%N :: rest)).
  { unfold C18.Model.split_scheme. cbn [C18.Model.partition]. change (47 =? 58)%N with false. cbv iota.
    destruct (C18.Model.partition 58 rest) as [[a f] b]. destruct f; reflexivity. }
  rewrite E3. cbv iota.
  assert (Hsd : C18.Proofs.starts_delim (pth ++ C18.Proofs.qpart q) = true).
  { destruct Hpform as [-> | [r' ->]]; [contradiction Hne; reflexivity|reflexivity]. }
  unfold rest. rewrite (C18.Proofs.span_netloc_app nl _ Hnld Hsd). rewrite Hck. cbn [C18.Model.bind fst snd].
  assert (H35 : C18.Model.mem 35 (pth ++ C18.Proofs.qpart q) = false).
  { rewrite C18.Proofs.mem_app, Hp35. unfold C18.Proofs.qpart. destruct (C18.Model.is_nil q); [reflexivity|].
    rewrite C18.Proofs.mem_cons, Hq35. reflexivity. }
  rewrite (C18.Proofs.partition_notin 35 _ H35).
  assert (E5 : C18.Model.partition 63 (pth ++ C18.Proofs.qpart q) = (pth, negb (C18.Model.is_nil q), q)).
  { unfold C18.Proofs.qpart. destruct q as [|q0 q']; cbn [C18.Model.is_nil negb].
    - rewrite app_nil_r. apply C18.Proofs.partition_notin. exact Hp63.
    - apply C18.Proofs.partition_app. exact Hp63. }
  rewrite E5. reflexivity.
Qed.

Lemma path_ok_slash (s : bytes) : C18.Proofs.path_ok s = true -> C18.Proofs.path_ok (s ++ [47%N]) = true.
Proof.
  destruct s as [|ch r]; [reflexivity|]. cbn [app C18.Proofs.path_ok]. intro H.
  apply andb_true_iff in H as [H1 H2]. rewrite H1. cbn [andb].
  change (ch :: r ++ [47%N]) with ((ch :: r) ++ [47%N]). rewrite forallb_app, H2. reflexivity.
Qed.

Theorem static_redirect_location_proof (c : scfg) (e : senv) (rq : areq) (s : state) (p q : bytes)
    (sch : bytes) (d : N) (src : C18.Proofs.source) :
  let root := C09.Model.get (C09.Model.root (s_req s)) in
  C09.Model.lifespan (s_req s) = false -> C09.Model.path (s_req s) = Some p ->
  (exists loc, fst (C07.Model.pages_call (se_fs e) (se_cwd e) (sc_dir c) p) = C07.Model.Redirect loc) ->
  utf8_decode (rq_query (aq_request rq)) = Some q ->
  url_request rq (hget (lit "host") (scope_headers (aq_request rq))) root p q = C18.Proofs.request_of sch src root p q ->
  C18.Model.default_port sch = Some d -> C18.Proofs.source_ok src = true ->
  C18.Proofs.path_ok (root ++ p) = true -> C18.Proofs.query_ok q = true ->
  let location := iri_to_uri (lit "//" ++ C18.Proofs.host_text (C18.Proofs.source_host src)
                                ++ C18.Proofs.port_text (C18.Proofs.source_port d src)
                                ++ (root ++ p ++ [47%N]) ++ C18.Proofs.qpart q) in
  static_asgi C07.Model.KPages c e rq s = OResp 307 [(lit "location", location); (lit "content-length", lit "0")] [].
Proof.
  intros root Hl Hp [loc Hr] Hq Hreq Hd Hs Hpo Hqo location.
  unfold static_asgi. rewrite Hl, Hp. destruct (asgi_cond rq) as [inm ims].
  unfold C07.Model.asgi_call. cbn [C07.Model.app_call]. rewrite Hr.
  unfold asgi_url, with_query. rewrite Hq. fold root. rewrite Hreq.
  destruct (C18.Properties.url_components sch d src root p q Hd Hs Hpo Hqo)
    as (u & Hu & _ & _ & _ & Hpath & Hquery & Hfrag & Hnet & _).
  cbv zeta in Hu. rewrite Hu. unfold redirect_answer. cbn [C18.Model.bind].
  set (nl := C18.Proofs.host_text (C18.Proofs.source_host src) ++ C18.Proofs.port_text (C18.Proofs.source_port d src)) in *.
  (* replace() succeeds: urlunsplit of the new components splits again *)
  assert (Hnl1 : forallb C18.Proofs.nl_char_ok nl = true).
  { exact (C18.Proofs.netloc_chars_ok None None (C18.Proofs.source_host src) (C18.Proofs.source_port d src)
             eq_refl eq_refl (C18.Proofs.source_host_ok src Hs)). }
  assert (Hnl2 : C18.Model.netloc_check nl = true).
  { exact (C18.Proofs.netloc_check_ok None None (C18.Proofs.source_host src) (C18.Proofs.source_port d src)
             eq_refl eq_refl (C18.Proofs.source_host_ok src Hs)). }
  assert (Hne : nl <> []) by (apply host_text_nonempty; exact Hs).
  assert (Hrep : C18.Model.replace u (slash_kwargs u) =
                 C18.Model.Ok {| C18.Model.ustr := lit "//" ++ nl ++ ((root ++ p) ++ [47%N]) ++ C18.Proofs.qpart q;
                                 C18.Model.ucomps := {| C18.Model.scheme := []; C18.Model.netloc := nl;
                                                        C18.Model.path := (root ++ p) ++ [47%N];
                                                        C18.Model.query := q; C18.Model.fragment := [] |} |}).
  { unfold C18.Model.replace, C18.Model.new_netloc, slash_kwargs.
    cbn [C18.Model.k_username C18.Model.k_password C18.Model.k_hostname C18.Model.k_port C18.Model.k_scheme C18.Model.k_path
         C18.Model.k_query C18.Model.k_fragment C18.Model.is_some orb C18.Model.bind C18.Model.dflt].
    rewrite Hpath, Hquery, Hfrag, Hnet. rewrite (unsplit_slash nl (root ++ p) q Hne Hpo).
    unfold C18.Model.mk_url. change (lit "//") with [47%N; 47%N]. cbn [app].
    rewrite (urlsplit_noscheme nl ((root ++ p) ++ [47%N]) q Hnl1 Hnl2 (path_ok_slash _ Hpo)); [reflexivity| |exact Hqo].
    intro H. apply app_eq_nil in H as [_ H]. discriminate H. }
  rewrite Hrep. destruct (asgi_render_facts c) as [_ H2]. rewrite H2. cbn [obs_of C18.Model.ustr].
  unfold location, nl. rewrite <- !app_assoc. reflexivity.
Qed.
