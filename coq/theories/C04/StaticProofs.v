(* C04 — proofs about the static leaves (C04/Static.v): both interfaces give the same answer,
   and what that answer is.  Rests on the theorems of the properties that own the parts:
   C07 (not_found_otherwise_files / _pages, serves_resolved_files / _pages), C02 (wsgi_body_exact,
   asgi_body_exact, status_decision, single_range_exact), C18 (wsgi_asgi_same), C04 (response_equiv). *)
From Coq Require Import List NArith ZArith Bool Arith Lia.
From Baize Require Import Lib.Wire Lib.Order Lib.Path C02.Model C02.Proofs Resp.Model C04.Model C04.Proofs C04.Req C04.Static.
From Baize Require C02.Properties C07.Model C07.Properties C09.Model C09.Proofs C14.Model C18.Model C18.Properties.
Import ListNotations.

(* ---------- specification vocabulary ---------- *)

Definition ascii (s : bytes) : Prop := Forall (fun c => (c < 128)%N) s.

(* the application answered: a response, or an HTTPException for the server's error handling *)
Definition answered (o : obs) : Prop :=
  match o with OResp _ _ _ | OHttp _ => True | _ => False end.

(* no two request headers have the same name (case-insensitively) *)
Definition distinct_names (r : request) : Prop := NoDup (map (fun h => lower (fst h)) (rq_headers r)).

Definition good_names (r : request) : Prop := Forall (fun h => ~ In 95%N (fst h)) (rq_headers r).

(* http, https, ws or wss *)
Definition known_scheme (rq : areq) : Prop := C18.Model.default_port (aq_scheme rq) <> None.

(* ---------- CGI names and scope names ---------- *)

(* lower-case letters and '-' *)
Definition key_char (t : N) : Prop := (97 <= t <= 122)%N \/ t = 45%N.

Definition cgi_of (t : bytes) : bytes := replace_c 45 95 (upper t).

Lemma cgi_char (t c : N) : key_char t -> c <> 95%N ->
  (if N.eqb (upper_c c) 45 then 95%N else upper_c c) = (if N.eqb (upper_c t) 45 then 95%N else upper_c t)
  <-> lower_c c = t.
Proof.
  intros Ht Hc. unfold upper_c, lower_c, key_char in *.
  repeat match goal with |- context [N.leb ?a ?b] => destruct (N.leb_spec a b) end; cbn [andb];
  repeat match goal with |- context [N.eqb ?a ?b] => destruct (N.eqb_spec a b) end; lia.
Qed.

Lemma map_eq_pointwise_P {A : Type} (P : A -> Prop) (f g : A -> N) (u v : list N) :
  Forall2 (fun x y => forall a, P a -> (f a = x <-> g a = y)) u v ->
  forall l, Forall P l -> (map f l = u <-> map g l = v).
Proof.
  induction 1 as [|x y u v Hxy _ IH]; intros l Hl.
  - destruct l; cbn [map]; split; intro E; try reflexivity; discriminate.
  - destruct l as [|a l]; cbn [map]; [split; discriminate|].
    inversion Hl as [|? ? Ha Hl']; subst.
    split; intro E; injection E as E1 E2; f_equal;
      try (apply (Hxy a Ha); exact E1); apply (IH l Hl'); exact E2.
Qed.

Lemma name_key (t n : bytes) : Forall key_char t -> ~ In 95%N n ->
  cgi_of n = cgi_of t <-> lower n = t.
Proof.
  intros Ht Hn. unfold cgi_of, replace_c, upper, lower. rewrite !map_map.
  apply (map_eq_pointwise_P (fun a => a <> 95%N)).
  - induction Ht as [|c t Hc _ IH]; cbn [map]; constructor; [|exact IH].
    intros a Ha. apply cgi_char; assumption.
  - apply Forall_forall. intros a Ha E. subst a. exact (Hn Ha).
Qed.

Lemma cgi_key_eq (t n : bytes) : Forall key_char t -> ~ In 95%N n ->
  cgi_of t <> lit "CONTENT_TYPE" -> cgi_of t <> lit "CONTENT_LENGTH" ->
  bytes_eqb (cgi_key n) (lit "HTTP_" ++ cgi_of t) = bytes_eqb (lower n) t.
Proof.
  intros Ht Hn H1 H2. apply eq_true_iff_eq. rewrite !bytes_eqb_eq, <- (name_key t n Ht Hn).
  unfold cgi_key. fold (cgi_of n).
  destruct (bytes_eqb (cgi_of n) (lit "CONTENT_TYPE") || bytes_eqb (cgi_of n) (lit "CONTENT_LENGTH")) eqn:E.
  - apply orb_true_iff in E as [E|E]; apply bytes_eqb_eq in E; rewrite E; split; intro H.
    + discriminate H.
    + exfalso. apply H1. symmetry. exact H.
    + discriminate H.
    + exfalso. apply H2. symmetry. exact H.
  - split.
    + intro H. apply app_inv_head in H. exact H.
    + intros ->. reflexivity.
Qed.

(* the value of environ[HTTP_<NAME>] is the value of the last scope header <name> *)
Lemma env_get_scope (t : bytes) (r : request) : Forall key_char t ->
  cgi_of t <> lit "CONTENT_TYPE" -> cgi_of t <> lit "CONTENT_LENGTH" ->
  good_names r ->
  env_get (lit "HTTP_" ++ cgi_of t) (environ_headers r) = env_get t (scope_headers r).
Proof.
  intros Ht H1 H2 Hn. unfold env_get, environ_headers, scope_headers, good_names in *.
  generalize (@None bytes). induction Hn as [|h hs Hh _ IH]; intro acc; [reflexivity|].
  cbn [map fold_left fst snd]. pose proof (cgi_key_eq t (fst h) Ht Hh H1 H2) as E.
  unfold bytes in *. rewrite E. apply IH.
Qed.

Ltac key_chars :=
  match goal with |- Forall key_char ?l => let l' := eval vm_compute in l in change (Forall key_char l') end;
  repeat (constructor; [unfold key_char; lia|]); constructor.

Lemma inm_key r : good_names r ->
  env_get (lit "HTTP_IF_NONE_MATCH") (environ_headers r) = env_get (lit "if-none-match") (scope_headers r).
Proof. apply (env_get_scope (lit "if-none-match")); [key_chars|discriminate|discriminate]. Qed.

Lemma ims_key r : good_names r ->
  env_get (lit "HTTP_IF_MODIFIED_SINCE") (environ_headers r) = env_get (lit "if-modified-since") (scope_headers r).
Proof. apply (env_get_scope (lit "if-modified-since")); [key_chars|discriminate|discriminate]. Qed.

Lemma range_key r : good_names r ->
  env_get (lit "HTTP_RANGE") (environ_headers r) = env_get (lit "range") (scope_headers r).
Proof. apply (env_get_scope (lit "range")); [key_chars|discriminate|discriminate]. Qed.

Lemma if_range_key r : good_names r ->
  env_get (lit "HTTP_IF_RANGE") (environ_headers r) = env_get (lit "if-range") (scope_headers r).
Proof. apply (env_get_scope (lit "if-range")); [key_chars|discriminate|discriminate]. Qed.

Lemma host_key r : good_names r ->
  env_get (lit "HTTP_HOST") (environ_headers r) = env_get (lit "host") (scope_headers r).
Proof. apply (env_get_scope (lit "host")); [key_chars|discriminate|discriminate]. Qed.

(* ---------- the loops over scope["headers"] ---------- *)

Lemma fold_last {A : Type} (k : bytes) (f : bytes -> A) (hs : list header) : forall (a0 : A) (o : option bytes),
  fold_left (fun a kv => if bytes_eqb (fst kv) k then f (snd kv) else a) hs
            (match o with Some v => f v | None => a0 end) =
  match fold_left (fun acc kv => if bytes_eqb (fst kv) k then Some (snd kv) else acc) hs o with
  | Some v => f v
  | None => a0
  end.
Proof.
  unfold header, bytes in *. induction hs as [|h hs IH]; intros a0 o; [reflexivity|].
  cbn [fold_left]. destruct (bytes_eqb (fst h) k).
  - apply (IH a0 (Some (snd h))).
  - apply IH.
Qed.

Lemma scan2_fst {A : Type} k1 k2 (f : bytes -> A) hs : forall a0 b0,
  fst (scan2 k1 k2 f hs a0 b0) =
  fold_left (fun a kv => if bytes_eqb (fst kv) k1 then f (snd kv) else a) hs a0.
Proof.
  unfold scan2, header, bytes in *. induction hs as [|h hs IH]; intros a0 b0; [reflexivity|].
  cbn [fold_left]. destruct (bytes_eqb (fst h) k1).
  - apply IH.
  - destruct (bytes_eqb (fst h) k2); apply IH.
Qed.

Lemma scan2_snd {A : Type} k1 k2 (f : bytes -> A) hs : k1 <> k2 -> forall a0 b0,
  snd (scan2 k1 k2 f hs a0 b0) =
  fold_left (fun b kv => if bytes_eqb (fst kv) k2 then f (snd kv) else b) hs b0.
Proof.
  intros Hk. unfold scan2, header, bytes in *. induction hs as [|h hs IH]; intros a0 b0; [reflexivity|].
  cbn [fold_left]. destruct (bytes_eqb (fst h) k1) eqn:E1.
  - apply bytes_eqb_eq in E1.
    destruct (bytes_eqb (fst h) k2) eqn:E2; [apply bytes_eqb_eq in E2; congruence|]. apply IH.
  - destruct (bytes_eqb (fst h) k2); apply IH.
Qed.

Lemma scan2_spec {A : Type} k1 k2 (f : bytes -> A) hs a0 b0 : k1 <> k2 ->
  scan2 k1 k2 f hs a0 b0 =
  (match env_get k1 hs with Some v => f v | None => a0 end,
   match env_get k2 hs with Some v => f v | None => b0 end).
Proof.
  intros Hk. rewrite (surjective_pairing (scan2 k1 k2 f hs a0 b0)).
  rewrite scan2_fst, (scan2_snd k1 k2 f hs Hk). unfold env_get.
  rewrite <- (fold_last k1 f hs a0 None), <- (fold_last k2 f hs b0 None). reflexivity.
Qed.

Lemma cond_equiv (rq : areq) : good_names (aq_request rq) -> wsgi_cond rq = asgi_cond rq.
Proof.
  intros Hn. unfold wsgi_cond, asgi_cond, env_text. rewrite scan2_spec by discriminate.
  rewrite (inm_key _ Hn), (ims_key _ Hn). reflexivity.
Qed.

Lemma range_equiv (rq : areq) : good_names (aq_request rq) -> wsgi_range rq = asgi_range rq.
Proof.
  intros Hn. unfold wsgi_range, asgi_range. rewrite scan2_spec by discriminate.
  rewrite (range_key _ Hn), (if_range_key _ Hn).
  destruct (env_get (lit "range") _), (env_get (lit "if-range") _); reflexivity.
Qed.

(* first occurrence = last occurrence when the names are distinct *)
Lemma fold_absent (k : bytes) (hs : list header) : ~ In k (map fst hs) -> forall acc,
  fold_left (fun acc kv => if bytes_eqb (fst kv) k then Some (snd kv) else acc) hs acc = acc.
Proof.
  unfold header, bytes in *. induction hs as [|h hs IH]; intros Hk acc; [reflexivity|].
  cbn [fold_left]. destruct (bytes_eqb (fst h) k) eqn:E.
  - exfalso. apply Hk. left. apply bytes_eqb_eq. exact E.
  - apply IH. intro H. apply Hk. right. exact H.
Qed.

Lemma first_is_last (k : bytes) (hs : list header) : NoDup (map fst hs) -> hget k hs = env_get k hs.
Proof.
  unfold env_get. induction hs as [|[k' v] hs IH]; intro Hd; [reflexivity|].
  cbn [map fst] in Hd. inversion Hd as [|? ? Hk Hd']; subst.
  cbn [hget fold_left fst snd]. destruct (bytes_eqb k' k) eqn:E.
  - apply bytes_eqb_eq in E. subst k'. symmetry. apply fold_absent. exact Hk.
  - apply IH. exact Hd'.
Qed.

Lemma host_equiv_first (r : request) : good_names r -> distinct_names r ->
  env_get (lit "HTTP_HOST") (environ_headers r) = hget (lit "host") (scope_headers r).
Proof.
  intros Hn Hd. rewrite (host_key r Hn). symmetry. apply first_is_last.
  unfold scope_headers. rewrite map_map. exact Hd.
Qed.

(* ---------- text ---------- *)

Lemma utf8_decode_ascii (s : bytes) : ascii s -> utf8_decode s = Some s.
Proof.
  induction 1 as [|c s Hc _ IH]; [reflexivity|].
  cbn [utf8_decode]. apply N.ltb_lt in Hc. rewrite Hc, IH. reflexivity.
Qed.

Lemma redecode_ascii (s : bytes) : ascii s -> redecode s = Some s.
Proof.
  intro H. unfold redecode.
  assert (E : forallb (fun c => (c <? 256)%N) s = true).
  { apply forallb_forall. intros c Hc. apply N.ltb_lt.
    unfold ascii in H. rewrite Forall_forall in H. specialize (H c Hc). cbn beta in H. lia. }
  rewrite E. apply utf8_decode_ascii. exact H.
Qed.
