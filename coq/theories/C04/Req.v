(* C04 — the abstract request as an application of the tree meets it, and what a client
   observes.  (Moved here from C04/Apps.v so that C04/Static.v, the model of the static-file
   applications, can speak about the same request and the same observations as the tree.)
   No proofs here. *)
From Coq Require Import List NArith Bool Arith.
From Baize Require Import Lib.Wire Lib.Order C02.Model Resp.Model C04.Model.
From Baize Require C08.Model C09.Model.
Import ListNotations.


(* ---------- the abstract request ---------- *)

(* method, query, headers (Host among them), ... of C04.Model.request, plus where it is aimed
   and what the gateway knows about itself (only URL(environ=...) / URL(scope=...) read the
   last two: the redirect of Pages) *)
Record areq := {
  aq_request : request;
  aq_root : bytes;           (* SCRIPT_NAME / root_path as the gateway presents it *)
  aq_path : bytes;           (* PATH_INFO / path *)
  aq_scheme : bytes;         (* wsgi.url_scheme / scope["scheme"] *)
  aq_server : bytes * N      (* SERVER_NAME, int(SERVER_PORT) / scope["server"] *)
}.

(* what changes while the request travels down the tree *)
Record state := { s_req : C09.Model.req; s_params : option C08.Model.params }.

Definition init (rq : areq) : state :=
  {| s_req := C09.Model.mkReq (Some (aq_root rq)) (Some (aq_path rq)) false; s_params := None |}.

(* what a view can read of the request *)
Record seen := {
  sn_method : bytes;
  sn_root : bytes;
  sn_path : bytes;
  sn_params : option C08.Model.params;
  sn_headers : hstore
}.

(* request.method, request.get("SCRIPT_NAME", ""), request.get("PATH_INFO", ""),
   request.get("PATH_PARAMS"), request.headers of baize.wsgi.Request(environ) *)
Definition wsgi_seen (rq : areq) (s : state) : seen :=
  {| sn_method := rq_method (aq_request rq);
     sn_root := C09.Model.get (C09.Model.root (s_req s));
     sn_path := C09.Model.get (C09.Model.path (s_req s));
     sn_params := s_params s;
     sn_headers := wsgi_headers (environ_headers (aq_request rq)) |}.

(* request.method, request.get("root_path", ""), request.get("path", ""),
   request.get("path_params"), request.headers of baize.asgi.Request(scope) *)
Definition asgi_seen (rq : areq) (s : state) : seen :=
  {| sn_method := rq_method (aq_request rq);
     sn_root := C09.Model.get (C09.Model.root (s_req s));
     sn_path := C09.Model.get (C09.Model.path (s_req s));
     sn_params := s_params s;
     sn_headers := asgi_headers (scope_headers (aq_request rq)) |}.

(* the environ is a dict the gateway fills by assignment: the last one stays *)
Definition env_get (k : bytes) (env : list header) : option bytes :=
  fold_left (fun acc kv => if bytes_eqb (fst kv) k then Some (snd kv) else acc) env None.

(* ---------- what a client observes ---------- *)

Inductive obs :=
| OResp (status : nat) (headers : list header) (body : bytes)
| ONoStart                        (* the application returned without starting a response *)
| ORaised (e : C09.Model.err)             (* KeyError / RuntimeError of an ASGI router on a scope it rejects *)
| OStuck                          (* a dispatcher named an entry its table does not have *)
| OHttp (status : nat)            (* HTTPException(status) raised and not caught by any application of the
                                     tree: the 404 of Files / Pages without handle_404, the 400 of Pages *)
| OCrash.                         (* an exception that is neither (ValueError of relpath, IndexError of URL.replace) *)

Definition obs_of (o : option (nat * list header * bytes)) : obs :=
  match o with
  | Some (st, hs, body) => OResp st hs body
  | None => ONoStart
  end.

Definition bare (status : nat) : base := {| b_status := status; b_headers := []; b_cookies := [] |}.

(* Response(404) *)
Definition r404 : recipe := RPlain (bare 404).
(* PlainTextResponse(b"Invalid host", 404) *)
Definition r_invalid_host : recipe := RSmall (bare 404) (lit "Invalid host") (lit "text/plain") (lit "utf-8").
