(* C04 — The WSGI and ASGI stacks are observationally equivalent.  Statements only. *)
From Coq Require Import List NArith Bool Arith.
From Baize Require Import Lib.Wire Lib.Order C02.Model Resp.Model C04.Model C04.Proofs C04.Apps C04.AppsProofs.
Import ListNotations.

(* Request view, headers: the mapping the WSGI request builds from the CGI rendering
   of a header list equals the mapping the ASGI request builds from the scope
   rendering of the same list (names without underscore; values arbitrary). *)
Theorem headers_view_equiv : forall r : request,
  Forall (fun h => ~ In 95%N (fst h)) (rq_headers r) ->
  wsgi_headers (environ_headers r) = asgi_headers (scope_headers r).
Proof. exact headers_view_equiv_proof. Qed.

(* Request view, client: REMOTE_ADDR / REMOTE_PORT text gives the same address as the
   scope's client pair. *)
Theorem client_view_equiv : forall (h : bytes) (p : nat),
  h <> [] ->
  wsgi_client (Some h) (Some (dec (N.of_nat p))) = asgi_client (Some (h, p)).
Proof. exact client_view_equiv_proof. Qed.

(* Request view, body: reading wsgi.input in pieces of any size >= 1 and draining the
   http.request messages both give the concatenation of the arriving chunks. *)
Theorem body_view_equiv : forall (r : request) (cs : nat),
  1 <= cs -> C04.Model.wsgi_body r cs = concat (rq_body r) /\ asgi_body r = concat (rq_body r).
Proof. exact body_view_equiv_proof. Qed.

(* Responses: the same recipe yields the same status, the same header list and the
   same body bytes on both interfaces; the event-stream response differs exactly by
   the header connection: keep-alive on the ASGI side. *)
Theorem response_equiv : forall r : recipe,
  comparable r ->
  exists st hw ha body,
    wsgi_response r = Some (st, hw, body) /\ asgi_response r = Some (st, ha, body) /\
    match r with
    | RSSE _ _ _ => filter not_connection ha = hw /\
                    (forall h, In h ha -> not_connection h = false -> h = (lit "connection", lit "keep-alive"))
    | _ => ha = hw
    end.
Proof. exact response_equiv_proof. Qed.

(* Request view, Host: the value a WSGI Hosts reads (HTTP_HOST of the environ the gateway
   filled by assignment, "" when absent) is the one the ASGI Hosts' loop over the scope's
   header list ends with. *)
Theorem host_view_equiv : forall r : request,
  C09.Model.wsgi_host (env_get (lit "HTTP_HOST") (environ_headers r)) = C09.Model.asgi_host (scope_headers r).
Proof. exact host_equiv. Qed.

(* Bundled applications.  An application is a tree of any depth and width (C04/Apps.v):
     Leaf view          a view: what it sees of the request (method, root path, path, path
                        parameters, header mapping) -> the response recipe it answers with
     Route routes       Router: compiled paths in front of sub-applications (C08)
     Mount routes       Subpaths: prefixes in front of sub-applications (C09)
     HostSwitch table   Hosts: patterns in front of sub-applications, over any oracle
                        [fullmatch] for Pattern.fullmatch (C09)
   serve_wsgi runs the tree with the WSGI model functions of C08/C09/C04 on the environ
   rendering of the abstract request, serve_asgi with the ASGI ones on the scope rendering.
   For every tree, every oracle, every digit limit and every abstract request (header names
   without underscore, as in headers_view_equiv; any root path, path, method, Host), provided
   each view answers with recipes response_equiv speaks about (comparable_view: no raising
   producer, no developer headers on an event stream, file chunk size >= 1):
   both interfaces answer with a response (no exception, no missing start), the status and
   the body bytes are equal, and the header lists are equal — or, when the answering leaf
   is an event stream, the ASGI list is the WSGI list plus connection: keep-alive
   (obs_equiv, headers_equiv in C04/AppsProofs.v).  The 404 of a Router / Subpaths and the
   404 "Invalid host" of Hosts are among the answers compared. *)
Theorem app_equiv : forall (P : Type) (fullmatch : P -> bytes -> bool) (lim : N) (rq : areq),
  Forall (fun h => ~ In 95%N (fst h)) (rq_headers (aq_request rq)) ->
  forall a : app P,
  all_leaves comparable_view a ->
  obs_equiv (serve_wsgi fullmatch lim rq a) (serve_asgi fullmatch lim rq a).
Proof. exact (@app_equiv_proof). Qed.

(* the same at any point below the root: whatever root path, path and path parameters the
   dispatchers above have left in the environ / scope (the path present, an http scope) *)
Theorem app_equiv_below : forall (P : Type) (fullmatch : P -> bytes -> bool) (lim : N) (rq : areq),
  Forall (fun h => ~ In 95%N (fst h)) (rq_headers (aq_request rq)) ->
  forall a : app P,
  all_leaves comparable_view a ->
  forall s : state,
  C09.Model.lifespan (s_req s) = false /\ (exists p, C09.Model.path (s_req s) = Some p) ->
  obs_equiv (run_wsgi fullmatch lim rq a s) (run_asgi fullmatch lim rq a s).
Proof. exact (@run_equiv). Qed.

(* non-vacuity: a mount over a router over a view that shows what it saw *)
Example app_equiv_example :
  let view := fun v : seen => RSmall (bare 200) (sn_root v ++ lit "|" ++ sn_path v) (lit "text/plain") (lit "utf-8") in
  let a : app bytes := HostSwitch [(lit "h", Mount [(lit "/api", Route [([C08.Model.Lit (lit "/u/"); C08.Model.Param (lit "id") C08.Model.TInt], Leaf view)])])] in
  let rq := {| aq_request := {| rq_method := lit "GET"; rq_query := []; rq_headers := [(lit "Host", lit "h")];
                                rq_client := None; rq_body := [] |};
               aq_root := lit "/r"; aq_path := lit "/api/u/12" |} in
  all_leaves comparable_view a /\
  serve_wsgi bytes_eqb 0 rq a =
    OResp 200 [(lit "content-length", lit "12"); (lit "content-type", lit "text/plain; charset=utf-8")] (lit "/r/api|/u/12") /\
  serve_asgi bytes_eqb 0 rq a = serve_wsgi bytes_eqb 0 rq a.
Proof.
  cbv zeta. split; [|split; vm_compute; reflexivity].
  repeat (constructor; cbn [In]; intros ? [<-|[]]; cbn [snd]). constructor. intro v. exact I.
Qed.

Print Assumptions headers_view_equiv.
Print Assumptions client_view_equiv.
Print Assumptions body_view_equiv.
Print Assumptions response_equiv.
Print Assumptions host_view_equiv.
Print Assumptions app_equiv.
Print Assumptions app_equiv_below.
