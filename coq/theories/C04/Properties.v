(* C04 — The WSGI and ASGI stacks are observationally equivalent.  Statements only. *)
From Coq Require Import List NArith Bool Arith.
From Baize Require Import Lib.Wire Lib.Order C02.Model Resp.Model C04.Model C04.Proofs.
Import ListNotations.

(* Request view, headers: the mapping the WSGI request builds from the CGI rendering
   of a header list equals the mapping the ASGI request builds from the scope
   rendering of the same list (names without underscore; values arbitrary). *)
Theorem headers_view_equiv : forall r : request,
  Forall (fun h => ~ In 95%N (fst h)) (rq_headers r) ->
  wsgi_headers (environ_headers r) = asgi_headers (scope_headers r).
Proof. exact headers_view_equiv_proof. Qed.

(* Request view, client: REMOTE_ADDR / REMOTE_PORT text gives the same address as the
   scope's client pair. *)
Theorem client_view_equiv : forall (h : bytes) (p : nat),
  h <> [] ->
  wsgi_client (Some h) (Some (dec (N.of_nat p))) = asgi_client (Some (h, p)).
Proof. exact client_view_equiv_proof. Qed.

(* Request view, body: reading wsgi.input in pieces of any size >= 1 and draining the
   http.request messages both give the concatenation of the arriving chunks. *)
Theorem body_view_equiv : forall (r : request) (cs : nat),
  1 <= cs -> C04.Model.wsgi_body r cs = concat (rq_body r) /\ asgi_body r = concat (rq_body r).
Proof. exact body_view_equiv_proof. Qed.

(* Responses: the same recipe yields the same status, the same header list and the
   same body bytes on both interfaces; the event-stream response differs exactly by
   the header connection: keep-alive on the ASGI side. *)
Theorem response_equiv : forall r : recipe,
  comparable r ->
  exists st hw ha body,
    wsgi_response r = Some (st, hw, body) /\ asgi_response r = Some (st, ha, body) /\
    match r with
    | RSSE _ _ _ => filter not_connection ha = hw /\
                    (forall h, In h ha -> not_connection h = false -> h = (lit "connection", lit "keep-alive"))
    | _ => ha = hw
    end.
Proof. exact response_equiv_proof. Qed.

Print Assumptions headers_view_equiv.
Print Assumptions client_view_equiv.
Print Assumptions body_view_equiv.
Print Assumptions response_equiv.
