(* C04 — The WSGI and ASGI stacks are observationally equivalent.  Statements only. *)
From Coq Require Import List NArith ZArith Bool Arith.
From Baize Require Import Lib.Wire Lib.Order Lib.Path C02.Model C02.Proofs Resp.Model C04.Model C04.Proofs C04.Apps
                          C04.StaticProofs C04.AppsProofs.
From Baize Require C07.Model C07.Proofs C09.Model C09.Proofs C14.Model C18.Model C18.Proofs.
Import ListNotations.

(* Request view, headers: the mapping the WSGI request builds from the CGI rendering
   of a header list equals the mapping the ASGI request builds from the scope
   rendering of the same list (names without underscore; values arbitrary). *)
Theorem headers_view_equiv : forall r : request,
  Forall (fun h => ~ In 95%N (fst h)) (rq_headers r) ->
  wsgi_headers (environ_headers r) = asgi_headers (scope_headers r).
Proof. exact headers_view_equiv_proof. Qed.

(* Request view, client: REMOTE_ADDR / REMOTE_PORT text gives the same address as the
   scope's client pair. *)
Theorem client_view_equiv : forall (h : bytes) (p : nat),
  h <> [] ->
  wsgi_client (Some h) (Some (dec (N.of_nat p))) = asgi_client (Some (h, p)).
Proof. exact client_view_equiv_proof. Qed.

(* Request view, body: reading wsgi.input in pieces of any size >= 1 and draining the
   http.request messages both give the concatenation of the arriving chunks. *)
Theorem body_view_equiv : forall (r : request) (cs : nat),
  1 <= cs -> C04.Model.wsgi_body r cs = concat (rq_body r) /\ asgi_body r = concat (rq_body r).
Proof. exact body_view_equiv_proof. Qed.

(* Responses: the same recipe yields the same status, the same header list and the
   same body bytes on both interfaces; the event-stream response differs exactly by
   the header connection: keep-alive on the ASGI side. *)
Theorem response_equiv : forall r : recipe,
  comparable r ->
  exists st hw ha body,
    wsgi_response r = Some (st, hw, body) /\ asgi_response r = Some (st, ha, body) /\
    match r with
    | RSSE _ _ _ => filter not_connection ha = hw /\
                    (forall h, In h ha -> not_connection h = false -> h = (lit "connection", lit "keep-alive"))
    | _ => ha = hw
    end.
Proof. exact response_equiv_proof. Qed.

(* Request view, Host: the value a WSGI Hosts reads (HTTP_HOST of the environ the gateway
   filled by assignment, "" when absent) is the one the ASGI Hosts' loop over the scope's
   header list ends with. *)
Theorem host_view_equiv : forall r : request,
  C09.Model.wsgi_host (env_get (lit "HTTP_HOST") (environ_headers r)) = C09.Model.asgi_host (scope_headers r).
Proof. exact host_equiv. Qed.

(* Static files.  [static_wsgi k c e rq s] is the complete answer of baize.wsgi.Files.__call__
   (k = KFiles) / Pages.__call__ (k = KPages), [static_asgi] that of the ASGI classes
   (C04/Static.v), for a configuration c (directory, cacheability, max_age; handle_404 = None), an
   environment e (the file system as a function of the path text with content, st_mtime_ns and
   st_ctime_ns of every regular file, and the standard-library functions C02 / C14 take as inputs),
   an abstract request rq and the state s the dispatchers above left (root path, path).
   For EVERY file system, configuration, path and header value: both interfaces give the same
   observation — the same status, the same header list in the same order and the same body bytes,
   or the same HTTPException (404: nothing to serve; 400: the redirect URL cannot be built) — and
   it is one of these two (no other exception, no missing start).  Premises:
     wf_dir            self.directory is a normalised absolute path other than "/" (what
                       normalize_dir_path returns; C07 normalize_dir_wf) — otherwise relpath can raise;
     no '_' in names   how a gateway folds "If_None_Match" into HTTP_IF_NONE_MATCH is not baize's;
     distinct names    URL(scope=...) takes the first Host header, the environ holds the last;
     known scheme      http / https / ws / wss — otherwise _build_url raises KeyError on both;
     http scope with a path   (an ASGI lifespan scope has no "headers");
     root path ++ path ASCII  URL(environ=...) re-decodes the Latin-1 text as UTF-8; a WSGI gateway
                       presents a non-ASCII path as different text (PEP 3333), and Files then looks
                       for a different file name: the recorded finding wsgi-non-ascii-not-found of C07.
   The conditional headers, Range and If-Range are read by each interface in its own way from the
   one abstract header list (environ.get on the CGI name / last scope header of that name). *)
Theorem static_equiv : forall (k : C07.Model.kind) (c : scfg) (e : senv) (rq : areq) (s : state),
  C07.Model.wf_dir (sc_dir c) = true ->
  Forall (fun h => ~ In 95%N (fst h)) (rq_headers (aq_request rq)) ->
  NoDup (map (fun h => lower (fst h)) (rq_headers (aq_request rq))) ->
  C18.Model.default_port (aq_scheme rq) <> None ->
  C09.Model.lifespan (s_req s) = false -> (exists p, C09.Model.path (s_req s) = Some p) ->
  Forall (fun ch => (ch < 128)%N)
         (C09.Model.get (C09.Model.root (s_req s)) ++ C09.Model.get (C09.Model.path (s_req s))) ->
  static_wsgi k c e rq s = static_asgi k c e rq s /\
  match static_asgi k c e rq s with OResp _ _ _ | OHttp _ => True | _ => False end.
Proof. exact static_equiv_proof. Qed.

(* What a static leaf answers, on either interface i (run_static i = static_wsgi / static_asgi;
   cond_of i / range_of i: the If-None-Match, If-Modified-Since / Range, If-Range texts as that
   interface reads them).  By cases on C07's decision for the request path:
     Served p id    p is the regular file id, and it is the one C07's lexical resolution names inside
                    the directory ([resolution]: serves_resolved_files / serves_resolved_pages).
                    If C14's decision ([c14_not_modified]: if_none_match on the ETag when
                    If-None-Match is not empty, else if_modified_since on int(st_ctime)) says so, the
                    answer is 304 with Cache-Control, Vary, Content-Length: 0 and an empty body —
                    and only then: otherwise it is the FileResponse for that file, status
                    200 / 206 / 400 / 416 as C02's model computes it, C02's header list with
                    Cache-Control and Vary appended to the mapping before the per-range entries
                    ([file_headers]; a rejected Range carries neither), and C02's [expected_body]:
                    exactly the file's content for 200 on GET, exactly the slice for a single
                    range, the multipart parts for several, the 400 text or nothing otherwise.
     Redirect loc   Pages only, path without trailing slash naming a directory: 307 with Location
                    and Content-Length: 0 and no body, or HTTPException(400).
     NotFound       HTTPException(404).
   Nothing else happens. *)
Theorem static_serves_file : forall (i : C14.Model.iface) (k : C07.Model.kind) (c : scfg) (e : senv)
    (rq : areq) (s : state) (path : bytes),
  C07.Model.wf_dir (sc_dir c) = true ->
  (k = C07.Model.KPages -> se_fs e (sc_dir c ++ SL :: C07.Model.INDEX_HTML) <> C07.Model.NDir) ->
  C18.Model.default_port (aq_scheme rq) <> None ->
  C09.Model.lifespan (s_req s) = false -> C09.Model.path (s_req s) = Some path ->
  let fs := se_fs e in
  let dir := sc_dir c in
  let ans := run_static i k c e rq s in
  match fst (C07.Model.app_call k fs (se_cwd e) dir path) with
  | C07.Model.Served p id =>
      resolution k fs dir path p id /\
      let content := fm_content (se_meta e id) in
      let '(inm, ims) := cond_of i rq in
      if c14_not_modified e id inm ims
      then ans = OResp 304 (headers_304 c) []
      else
        let '(rg, ifr) := range_of i rq in
        let fr := file_req_of e (is_head rq) rg ifr p id in
        let st := w_status (wsgi_file fr) in
        fr_file fr = content /\
        ans = OResp st (file_headers (cache_headers c) fr (w_headers (wsgi_file fr))) (expected_body fr) /\
        (st = 200 \/ st = 206 \/ st = 400 \/ st = 416) /\
        (st = 200 -> is_head rq = false -> expected_body fr = content) /\
        (forall s0 e0, decide fr = Single s0 e0 ->
           st = 206 /\ s0 < e0 <= length content /\
           (is_head rq = false -> expected_body fr = slice content s0 e0)) /\
        (forall l, decide fr = Several l ->
           st = 206 /\ (is_head rq = false -> expected_body fr = flat_map (part fr) l ++ closing (fr_boundary fr))) /\
        (st = 400 \/ st = 416 ->
           (exists msg, decide fr = Reject400 msg /\ expected_body fr = if is_head rq then [] else msg) \/
           (decide fr = Reject416 /\ expected_body fr = []))
  | C07.Model.Redirect loc =>
      k = C07.Model.KPages /\ loc = path ++ [SL] /\ ends_slash path = false /\
      (exists t, C07.Model.lexical_target dir path = Some t /\ fs t = C07.Model.NDir) /\
      (ans = OHttp 400 \/
       exists location, ans = OResp 307 [(lit "location", location); (lit "content-length", lit "0")] [])
  | C07.Model.NotFound => ans = OHttp 404
  | C07.Model.Crash => False
  end.
Proof. exact static_serves_file_proof. Qed.

(* The Location of Pages' redirect, in the vocabulary of C18 (url_components): for a request whose
   authority comes from a well-formed Host header or, without one, from the server address and
   port ([src], [request_of]), a root path ++ path and a query of C18's grammar: when the redirect is
   answered at all it is 307 with
     Location: iri_to_uri("//" + authority + root path + path + "/" + ["?" + query])
   — the Host header verbatim, otherwise the server address with the default port elided and an
   IPv6 literal bracketed; the scheme is dropped, the query kept; percent-coding by iri_to_uri —
   and never HTTPException(400): urlsplit accepts the scheme-less text urlunsplit made.
   The WSGI answer is the same one by static_equiv. *)
Theorem static_redirect_location : forall (c : scfg) (e : senv) (rq : areq) (s : state) (p q : bytes)
    (sch : bytes) (d : N) (src : C18.Proofs.source),
  let root := C09.Model.get (C09.Model.root (s_req s)) in
  C09.Model.lifespan (s_req s) = false -> C09.Model.path (s_req s) = Some p ->
  (exists loc, fst (C07.Model.pages_call (se_fs e) (se_cwd e) (sc_dir c) p) = C07.Model.Redirect loc) ->
  utf8_decode (rq_query (aq_request rq)) = Some q ->
  url_request rq (hget (lit "host") (scope_headers (aq_request rq))) root p q = C18.Proofs.request_of sch src root p q ->
  C18.Model.default_port sch = Some d -> C18.Proofs.source_ok src = true ->
  C18.Proofs.path_ok (root ++ p) = true -> C18.Proofs.query_ok q = true ->
  let location := iri_to_uri (lit "//" ++ C18.Proofs.host_text (C18.Proofs.source_host src)
                                ++ C18.Proofs.port_text (C18.Proofs.source_port d src)
                                ++ (root ++ p ++ [47%N]) ++ C18.Proofs.qpart q) in
  static_asgi C07.Model.KPages c e rq s = OResp 307 [(lit "location", location); (lit "content-length", lit "0")] [].
Proof. exact static_redirect_location_proof. Qed.

(* Bundled applications.  An application is a tree of any depth and width (C04/Apps.v):
     Leaf view          a view: what it sees of the request (method, root path, path, path
                        parameters, header mapping) -> the response recipe it answers with
     Route routes       Router: compiled paths in front of sub-applications (C08)
     Mount routes       Subpaths: prefixes in front of sub-applications (C09)
     HostSwitch table   Hosts: patterns in front of sub-applications, over any oracle
                        [fullmatch] for Pattern.fullmatch (C09)
     StaticLeaf k c e   Files / Pages with configuration c on the file system of e (C04/Static.v)
   serve_wsgi runs the tree with the WSGI model functions of C08/C09/C04 on the environ
   rendering of the abstract request, serve_asgi with the ASGI ones on the scope rendering.
   For every tree, every oracle, every digit limit and every abstract request (header names
   without underscore, as in headers_view_equiv; any root path, path, method, Host), provided
   each view answers with recipes response_equiv speaks about (comparable_view: no raising
   producer, no developer headers on an event stream, file chunk size >= 1) and each static leaf
   has a well-formed directory (all_leaves):
   both interfaces answer with a response (no exception, no missing start), the status and
   the body bytes are equal, and the header lists are equal — or, when the answering leaf
   is an event stream, the ASGI list is the WSGI list plus connection: keep-alive
   (obs_equiv, headers_equiv in C04/AppsProofs.v).  The 404 of a Router / Subpaths and the
   404 "Invalid host" of Hosts are among the answers compared.
   A tree that contains Files / Pages ([has_static a = true]) needs what static_equiv needs of the
   request ([static_ready]: distinct header names, a scheme URL(...) knows, root path ++ path ASCII)
   and may also end with both interfaces raising the same HTTPException, which no application of
   the tree catches (obs_equiv true); for a tree without them nothing changes: no extra premise,
   a response on both sides (obs_equiv false). *)
Theorem app_equiv : forall (P : Type) (fullmatch : P -> bytes -> bool) (lim : N) (rq : areq),
  Forall (fun h => ~ In 95%N (fst h)) (rq_headers (aq_request rq)) ->
  forall a : app P,
  all_leaves comparable_view a ->
  (has_static a = true -> static_ready rq (init rq)) ->
  obs_equiv (has_static a) (serve_wsgi fullmatch lim rq a) (serve_asgi fullmatch lim rq a).
Proof. exact (@app_equiv_proof). Qed.

(* the same at any point below the root: whatever root path, path and path parameters the
   dispatchers above have left in the environ / scope (the path present, an http scope) *)
Theorem app_equiv_below : forall (P : Type) (fullmatch : P -> bytes -> bool) (lim : N) (rq : areq),
  Forall (fun h => ~ In 95%N (fst h)) (rq_headers (aq_request rq)) ->
  forall a : app P,
  all_leaves comparable_view a ->
  forall s : state,
  C09.Model.lifespan (s_req s) = false /\ (exists p, C09.Model.path (s_req s) = Some p) ->
  (has_static a = true -> static_ready rq s) ->
  obs_equiv (has_static a) (run_wsgi fullmatch lim rq a s) (run_asgi fullmatch lim rq a s).
Proof. exact (@run_equiv). Qed.

(* non-vacuity: a mount over a router over a view that shows what it saw *)
Example app_equiv_example :
  let view := fun v : seen => RSmall (bare 200) (sn_root v ++ lit "|" ++ sn_path v) (lit "text/plain") (lit "utf-8") in
  let a : app bytes := HostSwitch [(lit "h", Mount [(lit "/api", Route [([C08.Model.Lit (lit "/u/"); C08.Model.Param (lit "id") C08.Model.TInt], Leaf view)])])] in
  let rq := {| aq_request := {| rq_method := lit "GET"; rq_query := []; rq_headers := [(lit "Host", lit "h")];
                                rq_client := None; rq_body := [] |};
               aq_root := lit "/r"; aq_path := lit "/api/u/12"; aq_scheme := lit "http"; aq_server := (lit "s", 80%N) |} in
  all_leaves comparable_view a /\ has_static a = false /\
  serve_wsgi bytes_eqb 0 rq a =
    OResp 200 [(lit "content-length", lit "12"); (lit "content-type", lit "text/plain; charset=utf-8")] (lit "/r/api|/u/12") /\
  serve_asgi bytes_eqb 0 rq a = serve_wsgi bytes_eqb 0 rq a.
Proof.
  cbv zeta. split; [|split; [reflexivity|split; vm_compute; reflexivity]].
  repeat (constructor; cbn [In]; intros ? [<-|[]]; cbn [snd]). constructor. intro v. exact I.
Qed.

(* non-vacuity with static leaves: Pages on C07's example tree (/srv/www with sub/index.html,
   about.html, ..name) below Hosts > Subpaths, beside an echoing view.  The premises of app_equiv
   hold; a directory URL without slash is redirected (query and Host kept), "/about" finds
   about.html and a matching If-None-Match revalidates it, a Range request gets the slice, a
   missing file raises 404 — on both interfaces alike. *)
Example static_tree_example :
  let view := fun v : seen => RSmall (bare 200) (sn_path v) (lit "text/plain") (lit "utf-8") in
  let a : app bytes :=
    HostSwitch [(lit "h", Mount [(lit "/static", StaticLeaf C07.Model.KPages ex_cfg ex_env); (lit "", Leaf view)])] in
  let get := fun path hs => ex_request (lit "GET") path ((lit "Host", lit "h") :: hs) in
  let cache := (lit "cache-control", lit "public, max-age=600") in
  let vary := (lit "vary", lit "Accept-Encoding, User-Agent, Cookie, Referer") in
  all_leaves comparable_view a /\ has_static a = true /\
  Forall (fun h => ~ In 95%N (fst h)) (rq_headers (aq_request (get (lit "/static/sub") []))) /\
  static_ready (get (lit "/static/sub") []) (init (get (lit "/static/sub") [])) /\
  serve_wsgi bytes_eqb 0 (get (lit "/static/sub") []) a =
    OResp 307 [(lit "location", lit "//h/r/static/sub/?a=1"); (lit "content-length", lit "0")] [] /\
  serve_wsgi bytes_eqb 0 (get (lit "/static/about") [(lit "If-None-Match", lit "W/""e1700000000500000000s13""")]) a =
    OResp 304 [cache; vary; (lit "content-length", lit "0")] [] /\
  serve_wsgi bytes_eqb 0 (get (lit "/static/about") [(lit "Range", lit "bytes=3-6")]) a =
    OResp 206 [(lit "accept-ranges", lit "bytes"); (lit "last-modified", lit "D1700000000");
               (lit "etag", lit """e1700000000500000000s13"""); cache; vary;
               (lit "content-range", lit "bytes 3-6/13"); (lit "content-type", lit "text/html");
               (lit "content-length", lit "4")] (lit "page") /\
  serve_wsgi bytes_eqb 0 (get (lit "/static/nope") []) a = OHttp 404 /\
  (forall path hs, In (path, hs) [(lit "/static/sub", []); (lit "/static/nope", []); (lit "/other", []);
                                  (lit "/static/about", [(lit "If-None-Match", lit "W/""e1700000000500000000s13""")]);
                                  (lit "/static/about", [(lit "Range", lit "bytes=3-6")])] ->
     serve_asgi bytes_eqb 0 (get path hs) a = serve_wsgi bytes_eqb 0 (get path hs) a).
Proof.
  cbv zeta. split; [|split; [reflexivity|split; [|split; [|split; [|split; [|split; [|split]]]]]]].
  - constructor. cbn [In]. intros ? [<-|[]]. cbn [snd]. constructor. cbn [In]. intros ? [<-|[<-|[]]]; cbn [snd].
    + constructor. reflexivity.
    + constructor. intro v. exact I.
  - repeat constructor; cbn; intuition discriminate.
  - split; [|split].
    + unfold distinct_names. vm_compute. repeat constructor; cbn; intuition discriminate.
    + unfold known_scheme. vm_compute. discriminate.
    + unfold ascii. vm_compute. repeat constructor.
  - vm_compute. reflexivity.
  - vm_compute. reflexivity.
  - vm_compute. reflexivity.
  - vm_compute. reflexivity.
  - cbn [In]. intros path hs H.
    repeat (destruct H as [H|H]; [injection H as <- <-; vm_compute; reflexivity|]). destruct H.
Qed.

(* static_equiv / static_serves_file on the same world: every premise of the two theorems holds for this
   leaf, request and state, and the file served for "/about" is about.html (C07's "+ .html"
   alternative), revalidated by its own ETag *)
Example static_leaf_example :
  let rq := ex_request (lit "GET") (lit "/about") [(lit "If-None-Match", lit """e1700000000500000000s13"""); (lit "Host", lit "h")] in
  let s := init rq in
  C07.Model.wf_dir (sc_dir ex_cfg) = true /\
  Forall (fun h => ~ In 95%N (fst h)) (rq_headers (aq_request rq)) /\
  NoDup (map (fun h => lower (fst h)) (rq_headers (aq_request rq))) /\
  C18.Model.default_port (aq_scheme rq) <> None /\
  C09.Model.lifespan (s_req s) = false /\ C09.Model.path (s_req s) = Some (lit "/about") /\
  Forall (fun ch => (ch < 128)%N)
         (C09.Model.get (C09.Model.root (s_req s)) ++ C09.Model.get (C09.Model.path (s_req s))) /\
  se_fs ex_env (sc_dir ex_cfg ++ SL :: C07.Model.INDEX_HTML) <> C07.Model.NDir /\
  fst (C07.Model.app_call C07.Model.KPages (se_fs ex_env) (se_cwd ex_env) (sc_dir ex_cfg) (lit "/about")) =
    C07.Model.Served (lit "/srv/www/about.html") 3 /\
  cond_of C14.Model.Wsgi rq = (lit """e1700000000500000000s13""", []) /\
  cond_of C14.Model.Asgi rq = (lit """e1700000000500000000s13""", []) /\
  c14_not_modified ex_env 3 (lit """e1700000000500000000s13""") [] = true /\
  static_wsgi C07.Model.KPages ex_cfg ex_env rq s = OResp 304 (headers_304 ex_cfg) [] /\
  static_asgi C07.Model.KPages ex_cfg ex_env rq s = OResp 304 (headers_304 ex_cfg) [].
Proof.
  cbv zeta. repeat split; try (vm_compute; reflexivity); try (vm_compute; discriminate).
  - repeat constructor; cbn; intuition discriminate.
  - vm_compute. repeat constructor; cbn; intuition discriminate.
  - vm_compute. repeat constructor.
Qed.

(* static_redirect_location on the same world: Host "h:8080", root path "/r", path "/sub", query "a=1" *)
Example static_redirect_example :
  let rq := ex_request (lit "GET") (lit "/sub") [(lit "Host", lit "h:8080")] in
  let s := init rq in
  let src := C18.Proofs.FromHost (C18.Proofs.Name (lit "h")) (Some 8080%N) (Some (lit "testserver", Some 80%N)) in
  fst (C07.Model.pages_call (se_fs ex_env) (se_cwd ex_env) (sc_dir ex_cfg) (lit "/sub")) = C07.Model.Redirect (lit "/sub/") /\
  utf8_decode (rq_query (aq_request rq)) = Some (lit "a=1") /\
  url_request rq (hget (lit "host") (scope_headers (aq_request rq))) (lit "/r") (lit "/sub") (lit "a=1") =
    C18.Proofs.request_of (lit "http") src (lit "/r") (lit "/sub") (lit "a=1") /\
  C18.Model.default_port (lit "http") = Some 80%N /\ C18.Proofs.source_ok src = true /\
  C18.Proofs.path_ok (lit "/r" ++ lit "/sub") = true /\ C18.Proofs.query_ok (lit "a=1") = true /\
  static_asgi C07.Model.KPages ex_cfg ex_env rq s =
    OResp 307 [(lit "location", lit "//h:8080/r/sub/?a=1"); (lit "content-length", lit "0")] [] /\
  static_wsgi C07.Model.KPages ex_cfg ex_env rq s = static_asgi C07.Model.KPages ex_cfg ex_env rq s.
Proof. cbv zeta. repeat split; vm_compute; reflexivity. Qed.

Print Assumptions headers_view_equiv.
Print Assumptions client_view_equiv.
Print Assumptions body_view_equiv.
Print Assumptions response_equiv.
Print Assumptions host_view_equiv.
Print Assumptions static_equiv.
Print Assumptions static_serves_file.
Print Assumptions static_redirect_location.
Print Assumptions app_equiv.
Print Assumptions app_equiv_below.
